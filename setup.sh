#!/bin/sh
# Offline setup: syntax/semantic check of every TLA+ module and a smoke run of TLC. Builds nothing else.
HERE="$(cd "$(dirname "$0")" && pwd)"
cd "$HERE" || exit 2
export PYTHONPATH="/repo:$HERE" PYTHONDONTWRITEBYTECODE=1
mkdir -p evidence replays
exec /venv/bin/python -W ignore - <<'PY'
import glob, os, sys
from concurrent.futures import ThreadPoolExecutor
from harness import tlc
mods = sorted(glob.glob('spec/*.tla') + glob.glob('models/*.tla'))
bad = 0
with ThreadPoolExecutor(8) as ex:
    for path, (ok, out) in zip(mods, ex.map(lambda p: tlc.sany(os.path.abspath(p)), mods)):
        if not ok:
            bad += 1
            print('SANY FAILED', path); print(out[-1500:])
print('sany: %d modules, %d failed' % (len(mods), bad))
r = tlc.run('MC_HeaderSM')
print('tlc smoke:', 'ok' if r.ok else 'FAILED', r.distinct, 'states')
import pgpy
print('pgpy from', pgpy.__file__)
sys.exit(1 if bad or not r.ok else 0)
PY
