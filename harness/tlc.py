"""Thin, strict wrapper around TLC (tla2tools 1.8) for the PGPy verification harness.

Every call runs in a private metadir under the context's scratch directory (never /tmp paths that
outlive the check), returns the parsed statistics and the PrintT output, and distinguishes

  * success               -> TLCResult.ok
  * property violation    -> TLCResult.violated (an invariant / assertion of the *model* failed)
  * anything else         -> MachineryError (exit 2 of the check)
"""
import json
import os
import re
import shutil
import subprocess
import tempfile
import time

VERIF = os.path.dirname(os.path.dirname(os.path.abspath(__file__)))
SPEC_DIR = os.path.join(VERIF, 'spec')
MODEL_DIR = os.path.join(VERIF, 'models')
JAR = '/opt/veriftools/tla/tla2tools.jar'
DEPS = '/opt/veriftools/tla/CommunityModules-deps.jar'


class MachineryError(Exception):
    pass


class TLCResult(object):
    def __init__(self):
        self.ok = False
        self.violated = False      # invariant / property / assumption of the model violated
        self.violated_name = None
        self.generated = 0         # "states generated" (= transitions explored + initial states)
        self.distinct = 0
        self.depth = 0
        self.wall = 0.0
        self.prints = []           # parsed PrintT values (python objects)
        self.raw = ''
        self.coverage = {}         # action name -> (distinct, total) when -coverage was requested
        self.cmd = ''


_num = r'([0-9,]+)'


def _parse_tla_value(s):
    """Parse the subset of TLC's value syntax that our PrintT lines use:
    <<...>>, "strings", integers, TRUE/FALSE, {sets}, [a |-> v, ...] records. Returns python objects
    (tuples become lists, sets become sorted lists tagged as lists, records dicts)."""
    pos = [0]
    n = len(s)

    def ws():
        while pos[0] < n and s[pos[0]] in ' \t\r\n':
            pos[0] += 1

    def val():
        ws()
        c = s[pos[0]]
        if s.startswith('<<', pos[0]):
            pos[0] += 2
            out = []
            ws()
            if s.startswith('>>', pos[0]):
                pos[0] += 2
                return out
            while True:
                out.append(val())
                ws()
                if s.startswith('>>', pos[0]):
                    pos[0] += 2
                    return out
                if s[pos[0]] != ',':
                    raise ValueError('expected , at %d in %r' % (pos[0], s[:200]))
                pos[0] += 1
        if c == '{':
            pos[0] += 1
            out = []
            ws()
            if s[pos[0]] == '}':
                pos[0] += 1
                return out
            while True:
                out.append(val())
                ws()
                if s[pos[0]] == '}':
                    pos[0] += 1
                    return out
                if s[pos[0]] != ',':
                    raise ValueError('expected , in set')
                pos[0] += 1
        if c == '[':
            pos[0] += 1
            out = {}
            ws()
            if s[pos[0]] == ']':
                pos[0] += 1
                return out
            while True:
                ws()
                m = re.compile(r'[A-Za-z_][A-Za-z0-9_]*').match(s, pos[0])
                if not m:
                    raise ValueError('expected field name at %d' % pos[0])
                k = m.group(0)
                pos[0] = m.end()
                ws()
                if not s.startswith('|->', pos[0]):
                    raise ValueError('expected |->')
                pos[0] += 3
                out[k] = val()
                ws()
                if s[pos[0]] == ']':
                    pos[0] += 1
                    return out
                if s[pos[0]] != ',':
                    raise ValueError('expected , in record')
                pos[0] += 1
        if c == '(':
            # function printed as (a :> 1 @@ b :> 2)
            pos[0] += 1
            out = {}
            while True:
                k = val()
                ws()
                if not s.startswith(':>', pos[0]):
                    raise ValueError('expected :>')
                pos[0] += 2
                v = val()
                out[k if isinstance(k, (str, int)) else json.dumps(k)] = v
                ws()
                if s.startswith('@@', pos[0]):
                    pos[0] += 2
                    continue
                if s[pos[0]] == ')':
                    pos[0] += 1
                    return out
                raise ValueError('expected @@ or )')
        if c == '"':
            i = pos[0] + 1
            buf = []
            while s[i] != '"':
                if s[i] == '\\':
                    i += 1
                    buf.append({'n': '\n', 't': '\t', '"': '"', '\\': '\\'}.get(s[i], s[i]))
                else:
                    buf.append(s[i])
                i += 1
            pos[0] = i + 1
            return ''.join(buf)
        m = re.compile(r'-?[0-9]+').match(s, pos[0])
        if m:
            pos[0] = m.end()
            return int(m.group(0))
        m = re.compile(r'[A-Za-z_][A-Za-z0-9_]*').match(s, pos[0])
        if m:
            pos[0] = m.end()
            w = m.group(0)
            if w == 'TRUE':
                return True
            if w == 'FALSE':
                return False
            return w
        raise ValueError('cannot parse at %d: %r' % (pos[0], s[pos[0]:pos[0] + 40]))

    v = val()
    ws()
    if pos[0] != n:
        raise ValueError('trailing text: %r' % s[pos[0]:pos[0] + 40])
    return v


def _collect_prints(out):
    """PrintT output: lines that start with << (tuples) possibly spanning several lines. Collect by
    bracket matching (16-worker output may interleave *lines* but TLC prints one value atomically)."""
    prints = []
    lines = out.split('\n')
    i = 0
    while i < len(lines):
        ln = lines[i]
        if ln.startswith('<<'):
            buf = ln
            depth = buf.count('<<') - buf.count('>>')
            while depth > 0 and i + 1 < len(lines):
                i += 1
                buf += '\n' + lines[i]
                depth = buf.count('<<') - buf.count('>>')
            try:
                prints.append(_parse_tla_value(buf))
            except Exception:
                pass
        i += 1
    return prints


def run(module, cfg=None, workdir=None, workers=16, env=None, simulate=None, depth=None, seed=None,
        coverage=False, timeout=3600, extra=None, expect_violation=False, dfs=False, heap=None,
        constants_text=None):
    """Run TLC on models/<module>.tla with models/<cfg>.cfg (default <module>.cfg).

    constants_text: if given, a cfg is synthesised in the workdir from this text (used for per-run
    literal constants)."""
    t0 = time.time()
    own = False
    if workdir is None:
        workdir = tempfile.mkdtemp(prefix='pgpyverif-')
        own = True
    meta = tempfile.mkdtemp(prefix='meta-', dir=workdir)
    tla = module if os.path.isabs(module) else os.path.join(MODEL_DIR, module + '.tla')
    if not os.path.exists(tla):
        tla2 = os.path.join(SPEC_DIR, os.path.basename(tla))
        if os.path.exists(tla2):
            tla = tla2
        else:
            raise MachineryError('no such module ' + tla)
    if constants_text is not None:
        cfgp = os.path.join(workdir, 'gen-%d.cfg' % (int(time.time() * 1e6) % 10**9))
        with open(cfgp, 'w') as f:
            f.write(constants_text)
    else:
        cfgp = cfg if cfg and os.path.isabs(cfg) else os.path.join(MODEL_DIR, (cfg or os.path.basename(tla)[:-4]) + ('' if (cfg or '').endswith('.cfg') else '.cfg'))
    java = ['java', '-XX:+UseParallelGC']
    if heap:
        java.append('-Xmx' + heap)
    else:
        java.append('-Xmx8g')
    java.append('-Xss64m')
    if dfs:
        java.append('-Dtlc2.tool.queue.IStateQueue=StateDeque')
    java.append('-DTLA-Library=' + SPEC_DIR + os.pathsep + MODEL_DIR)
    java.append('-Djava.io.tmpdir=' + meta)          # TLC's own tlc-* scratch directories go away with the metadir
    java += ['-cp', JAR + os.pathsep + DEPS, 'tlc2.TLC']
    cmd = java + ['-metadir', meta, '-noGenerateSpecTE', '-workers', str(workers), '-config', cfgp]
    if simulate:
        cmd += ['-simulate', simulate]
    if depth is not None:
        cmd += ['-depth', str(depth)]
    if seed is not None:
        cmd += ['-seed', str(seed)]
    if coverage:
        cmd += ['-coverage', '1']
    if extra:
        cmd += list(extra)
    cmd.append(tla)
    e = dict(os.environ)
    e.pop('JAVA_TOOL_OPTIONS', None)
    if env:
        e.update({k: str(v) for k, v in env.items()})
    try:
        p = subprocess.run(cmd, stdout=subprocess.PIPE, stderr=subprocess.STDOUT, env=e, timeout=timeout,
                           cwd=os.path.dirname(tla))
    except subprocess.TimeoutExpired:
        shutil.rmtree(meta, ignore_errors=True)
        raise MachineryError('TLC timed out after %ss: %s' % (timeout, ' '.join(cmd)))
    out = p.stdout.decode('utf-8', 'replace')
    shutil.rmtree(meta, ignore_errors=True)
    if own:
        shutil.rmtree(workdir, ignore_errors=True)
    r = TLCResult()
    r.raw = out
    r.cmd = ' '.join(cmd)
    r.wall = time.time() - t0
    m = None
    for m in re.finditer(_num + r' states generated, ' + _num + r' distinct states found', out):
        pass
    if m:
        r.generated = int(m.group(1).replace(',', ''))
        r.distinct = int(m.group(2).replace(',', ''))
    if simulate:
        m = re.search(r'The number of states generated: ' + _num, out)
        if m:
            r.generated = int(m.group(1).replace(',', ''))
            r.distinct = r.generated
    m = re.search(r'The depth of the complete state graph search is ' + _num, out)
    if m:
        r.depth = int(m.group(1).replace(',', ''))
    r.prints = _collect_prints(out)
    if coverage:
        for m in re.finditer(r'<(\w+) line \d+, col \d+ to line \d+, col \d+ of module (\w+)>: (\d+):(\d+)', out):
            nm = m.group(1)
            d, t = int(m.group(3)), int(m.group(4))
            od, ot = r.coverage.get(nm, (0, 0))
            r.coverage[nm] = (od + d, ot + t)
    viol = re.search(r'Error: Invariant (\S+) is violated', out) or \
        re.search(r'Error: Action property (\S+) is violated', out) or \
        re.search(r'Error: Temporal properties were violated', out) or \
        re.search(r'Error: Assumption (.*) is false', out) or \
        re.search(r'Error: The postcondition (.*)is false', out) or \
        re.search(r'Error: The invariant of (\S+) is equal to FALSE', out) or \
        re.search(r'Error: Deadlock reached', out)
    if viol:
        r.violated = True
        try:
            r.violated_name = viol.group(1)
        except IndexError:
            r.violated_name = viol.group(0)
    finished = 'Model checking completed. No error has been found' in out or \
        (simulate and ('Finished in' in out or 'The number of states generated' in out) and 'Error:' not in out)
    if finished and not viol:
        r.ok = True
    if not r.ok and not r.violated:
        brief = '\n'.join(l for l in out.split('\n') if not l.startswith(('Parsing file', 'Semantic processing', 'Linting of')))
        bl = brief.split('\n')
        first = next((k for k, l in enumerate(bl) if l.startswith('Error')), 0)
        raise MachineryError('TLC failed (exit %s):\n%s\n%s\n...\n%s' % (p.returncode, r.cmd, '\n'.join(bl[max(0, first - 2):first + 25])[:3000], brief[-1500:]))
    if r.violated and not expect_violation:
        # the caller decides what a violated model means; keep output available
        pass
    return r


def sany(path):
    cmd = ['java', '-DTLA-Library=' + SPEC_DIR + os.pathsep + MODEL_DIR, '-cp', JAR + os.pathsep + DEPS,
           'tla2sany.SANY', path]
    p = subprocess.run(cmd, stdout=subprocess.PIPE, stderr=subprocess.STDOUT, cwd=os.path.dirname(path))
    out = p.stdout.decode('utf-8', 'replace')
    ok = p.returncode == 0 and 'Semantic errors' not in out and 'Parse Error' not in out and \
        'Could not' not in out and '*** Errors' not in out
    return ok, out


def apalache_inductive(module, deps, init, indinit, inv, workdir, expect_ok=True, timeout=600):
    """Unbounded safety with Apalache: `inv` holds initially (length 0 from `init`) and is preserved by one step from any state
    satisfying it (length 1 from `indinit`). Modules are copied to a scratch directory (Apalache resolves INSTANCE/EXTENDS there).
    Returns wall seconds; raises MachineryError when the outcome differs from `expect_ok`."""
    t0 = time.time()
    d = tempfile.mkdtemp(prefix='apa-', dir=workdir)
    try:
        for m in [module] + list(deps):
            src = os.path.join(MODEL_DIR, m + '.tla')
            if not os.path.exists(src):
                src = os.path.join(SPEC_DIR, m + '.tla')
            shutil.copy(src, d)
        outcomes = []
        for ini, length in ((init, 0), (indinit, 1)):
            e = dict(os.environ)
            e.pop('JAVA_TOOL_OPTIONS', None)
            # SANY (inside Apalache) unpacks its standard modules into a fresh java.io.tmpdir: keep that inside the scratch directory of this call
            e['TMPDIR'] = d                   # (the launcher makes that directory with mktemp -t)
            try:
                p = subprocess.run(['apalache-mc', 'check', '--init=' + ini, '--inv=' + inv, '--length=%d' % length, '--out-dir=' + os.path.join(d, 'out'),
                                    module + '.tla'], cwd=d, stdout=subprocess.PIPE, stderr=subprocess.STDOUT, timeout=timeout, env=e)
            except (subprocess.TimeoutExpired, OSError) as ex:
                raise MachineryError('apalache-mc failed to run: %r' % ex)
            out = p.stdout.decode('utf-8', 'replace')
            if 'The outcome is: NoError' in out:
                outcomes.append(True)
            elif 'The outcome is: Error' in out or 'Checker has found an error' in out and 'outcome' in out:
                outcomes.append(False)
            else:
                raise MachineryError('apalache-mc gave no verdict for %s (%s, length %d):\n%s' % (module, ini, length, out[-2000:]))
        ok = all(outcomes)
        if ok != expect_ok:
            raise MachineryError('Apalache: %s %s inductive for %s (base, step) = %s' % (inv, 'is not' if expect_ok else 'is unexpectedly', module, outcomes))
        return time.time() - t0
    finally:
        shutil.rmtree(d, ignore_errors=True)
