"""Shared driver for C14 / C15: replays key-management histories (Gen_Cert behaviours, TLC-simulated and random walks)
on real keys and records, after every step, the projection of four views of the key: the private key, its public twin
derived now, the export -> import image of each."""
import copy
import warnings

from . import build, keys as K
from .common import MachineryError, import_pgpy, octets

# the second identity's name and address CONTAIN the first one's: looking an identity up by name must not hit its neighbour
NAMES = {'A': ('Alice', 'alice@x.org'), 'B': ('Alice Liddell', 'alice@x.org.uk')}
PWD = 'cert life passphrase'


def tagsets():
    import_pgpy()
    from pgpy.constants import KeyFlags as F, HashAlgorithm as H
    return {
        # identity tags: (key flags, hash preferences); EXPIRY below gives the key expiration each of them sets (None = no subpacket)
        'p1': ({F.Sign, F.Certify}, [H.SHA256]), 'p2': ({F.Certify}, [H.SHA512]), 'p3': ({F.Sign, F.Certify, F.Authentication}, [H.SHA384]),
        'f-sign': ({F.Sign}, None), 'f-auth': ({F.Authentication}, None), 'f-enc': ({F.EncryptCommunications}, None), 'f-enc2': ({F.EncryptStorage}, None),
    }


def expiry_of(tag):
    from datetime import timedelta
    return {'p2': timedelta(days=20000), 'p3': timedelta(days=30000)}.get(tag)


class World(object):
    def __init__(self, foreign_kdf=False):
        pgpy = import_pgpy()
        self.pgpy = pgpy
        self.raw = {'P': bytes(K.raw_key('ed25519', created=K.T0)), 'S1': bytes(K.raw_key('ed25519', created=K.T0 + 1)), 'S2': bytes(K.raw_key('cv25519', created=K.T0 + 2))}
        if foreign_kdf:
            # the encryption subkey comes from the independent encoder and carries legal non-default KDF parameters (RFC 6637 section 9)
            from . import build as _build, enc as _enc
            self.raw['S2'] = _build.pkt(5, _enc.Recipient('cv25519', created=K.T0 + 2, kdf=(10, 9)).secret_body())
        self.other = K.new_key('ed25519', name='Third Party', email='tp@x.org')
        self.otherpub = pgpy.PGPKey.from_blob(bytes(self.other.pubkey))[0]
        self.image = bytearray(open('/repo/tests/testdata/simple.jpg', 'rb').read())
        self.tags = tagsets()
        self.subfpr = {}
        for s in ('S1', 'S2'):
            k = pgpy.PGPKey.from_blob(self.raw[s])[0]
            self.subfpr[str(k.fingerprint)] = s
        self.flag2tag = {}
        for t, (fl, _) in self.tags.items():
            self.flag2tag.setdefault(frozenset(fl), []).append(t)

    def fresh(self, what):
        return self.pgpy.PGPKey.from_blob(self.raw[what])[0]


def uname(u):
    if u.is_ua:
        return 'IMG'
    for n, (nm, em) in NAMES.items():
        if u.name == nm:
            return n
    return '?' + (u.name or '')


def seq_of(sig):
    try:
        p = sig.policy_uri
    except Exception:
        p = None
    if p and p.startswith('urn:seq:'):
        return int(p[8:])
    return 0


def find_uid(key, n):
    for u in list(key.userids) + list(key.userattributes):
        if uname(u) == n:
            return u
    return None


def find_sub(W, key, s):
    for sk in key.subkeys.values():
        if W.subfpr.get(str(sk.fingerprint)) == s:
            return sk
    return None


def view(W, key, label, imported, verifier=None):
    """projection of one key object."""
    pgpy = W.pgpy
    from pgpy.constants import SignatureType as T
    vk = key if key.is_public else key.pubkey
    v = {'view': label, 'imported': imported, 'fingerprint': str(key.fingerprint)}
    uids = list(key.userids) + list(key.userattributes)
    v['uids'] = [uname(u) for u in uids]
    v['eff'], v['eff_tag'], v['primary'], v['sigs_on'], v['revoked'] = {}, {}, {}, {}, {}
    ok = True
    kid = key.fingerprint.keyid
    with warnings.catch_warnings():
        warnings.simplefilter('ignore')
        for u in uids:
            n = uname(u)
            ss = u.selfsig
            v['eff'][n] = seq_of(ss) if ss is not None else 0
            tg = '-'
            if ss is not None and ss.type in (T.Positive_Cert, T.Generic_Cert, T.Casual_Cert, T.Persona_Cert):
                tg = (W.flag2tag.get(frozenset(ss.key_flags)) or ['?'])[0]
                hp = [int(h) for h in ss.hashprefs]
                cands = [t for t in W.flag2tag.get(frozenset(ss.key_flags), []) if (W.tags[t][1] is None or [int(h) for h in W.tags[t][1]] == hp)
                         and (W.tags[t][1] is None or ss.key_expiration == expiry_of(t))]
                tg = cands[0] if cands else '?'
            v['eff_tag'][n] = tg
            v['primary'][n] = bool(u.is_primary)
            v['sigs_on'][n] = [seq_of(s) for s in u.__sig__]
            v['revoked'][n] = any(s.type == T.CertRevocation and s.signer == kid for s in u.__sig__)
            for s in u.__sig__:
                ver = vk if s.signer == kid else W.otherpub
                try:
                    if not ver.verify(u, s):
                        ok = False
                except Exception:
                    ok = False
        subs = []
        v['bind_eff'], v['bind_tag'] = {}, {}
        sub_fprs = []
        cross_ok = True
        for sk in key.subkeys.values():
            n = W.subfpr.get(str(sk.fingerprint), '?')
            subs.append(n)
            sub_fprs.append(str(sk.fingerprint))
            sigs_ = [s for s in sk.__sig__ if not s.embedded]
            v['sigs_on'][n] = [seq_of(s) for s in sigs_]
            binds = list(sk.self_signatures)
            eff = binds[-1] if binds else None
            v['bind_eff'][n] = seq_of(eff) if eff is not None else 0
            v['bind_tag'][n] = (W.flag2tag.get(frozenset(eff.key_flags)) or ['?'])[0] if eff is not None else '-'
            v['revoked'][n] = bool(list(sk.revocation_signatures))
            vsub = vk.subkeys.get(sk.fingerprint.keyid)
            for s in sigs_:
                try:
                    if not vk.verify(vsub if vsub is not None else sk, s):
                        ok = False
                except Exception:
                    ok = False
            if n == 'S1':
                embedded = [s for s in sk.__sig__ if s.embedded and s.type == T.PrimaryKey_Binding]
                if not embedded:
                    cross_ok = False
                for s in embedded:
                    try:
                        if not vk.verify(vk, s):
                            cross_ok = False
                    except Exception:
                        cross_ok = False
        v['subs'] = subs
        v['sub_fprs'] = sub_fprs
        v['cross_ok'] = cross_ok
        v['sigs_on']['key'] = [seq_of(s) for s in key.__sig__]
        v['revoked']['key'] = bool(list(key.revocation_signatures))
        for s in key.__sig__:
            try:
                if not vk.verify(vk, s):
                    ok = False
            except Exception:
                ok = False
    for n in ('A', 'B', 'IMG', 'S1', 'S2'):
        v['eff'].setdefault(n, 0)
        v['eff_tag'].setdefault(n, '-')
        v['primary'].setdefault(n, False)
        v['sigs_on'].setdefault(n, [])
        v['revoked'].setdefault(n, False)
        v['bind_eff'].setdefault(n, 0)
        v['bind_tag'].setdefault(n, '-')
    v['verify_all'] = ok
    v['expiry_tag'] = '-'
    # the validity period the KEY reports, as the tag class that sets it
    try:
        ea = key.expires_at
        if ea is None:
            v['key_expiry'] = 'none'
        else:
            v['key_expiry'] = next((t for t in ('p2', 'p3') if ea - key.created == expiry_of(t)), '?')
    except Exception:
        v['key_expiry'] = 'raised'
    try:
        tags = [t for t, b, r in build.read_packets(bytes(key))]
        v['export_ok'] = True
    except Exception:
        # what the key serialises to is not a sequence of packets (headers and bodies do not add up)
        tags = []
        v['export_ok'] = False
    v['tags'] = tags
    v['grammar_ok'] = key_grammar(tags)
    return v


def key_grammar(tags):
    """RFC 4880 11.1 / 11.2 as a small recogniser over the tag sequence (claim; the tag list itself is in the event)."""
    if not tags or tags[0] not in (5, 6):
        return False
    i = 1
    while i < len(tags) and tags[i] == 2:
        i += 1
    nuid = 0
    while i < len(tags) and tags[i] in (13, 17):
        nuid += 1
        i += 1
        while i < len(tags) and tags[i] == 2:
            i += 1
    while i < len(tags) and tags[i] in (7, 14):
        i += 1
        nsig = 0
        while i < len(tags) and tags[i] == 2:
            nsig += 1
            i += 1
        if nsig == 0:
            return False
    return i == len(tags) and all((t in (5, 7)) == (tags[0] == 5) for t in tags if t in (5, 6, 7, 14))


def observe(W, key, extra=None):
    pgpy = W.pgpy
    with warnings.catch_warnings():
        warnings.simplefilter('ignore')
        o = {'priv': view(W, key, 'private key', False),
             'pub': view(W, key.pubkey, 'public twin derived now', False),
             'imp': view(W, pgpy.PGPKey.from_blob(bytes(key))[0], 'export -> import of the private key', True),
             'pubimp': view(W, pgpy.PGPKey.from_blob(bytes(key.pubkey))[0], 'export -> import of the public twin', True)}
    if extra:
        o['priv'].update(extra)
    return o


def replay(W, behaviour, observe_every=True):
    pgpy = W.pgpy
    from pgpy.constants import SignatureType, SymmetricKeyAlgorithm, HashAlgorithm, CompressionAlgorithm
    key = W.fresh('P')
    tick = 0
    seq = 0
    protected = False
    events = []
    held = []          # public twins derived earlier and kept alive by the caller: key.pubkey taken later must still be current
    for n, act in enumerate(behaviour):
        op, a, tag, prim = act['op'], act['a'], act['tag'], act['prim']
        try:
            if key._uids:
                held.append(key.pubkey)
        except Exception:
            pass
        raised = False
        extra = None
        created = K.ts(K.T0 + 100 + tick)

        def run(f):
            if protected:
                with key.unlock(PWD):
                    return f()
            return f()
        with warnings.catch_warnings():
            warnings.simplefilter('ignore')
            try:
                if op == 'add_uid':
                    seq += 1
                    fl, hp = W.tags[tag]
                    uid = pgpy.PGPUID.new(W.image) if a == 'IMG' else pgpy.PGPUID.new(NAMES[a][0], email=NAMES[a][1])
                    kw = dict(usage=set(fl), hashes=list(hp), ciphers=[SymmetricKeyAlgorithm.AES128], compression=[CompressionAlgorithm.Uncompressed],
                              policy_uri='urn:seq:%d' % seq, created=created)
                    if expiry_of(tag) is not None:
                        kw['key_expiration'] = expiry_of(tag)
                    if prim:
                        kw['primary'] = True
                    elif seq % 2 == 1:
                        kw['primary'] = False
                    run(lambda: key.add_uid(uid, **kw))
                elif op == 'recertify':
                    seq += 1
                    fl, hp = W.tags[tag]
                    u = find_uid(key, a)
                    kw = dict(usage=set(fl), hashes=list(hp), policy_uri='urn:seq:%d' % seq, created=created)
                    if expiry_of(tag) is not None:
                        kw['key_expiration'] = expiry_of(tag)
                    if prim:
                        kw['primary'] = True
                    elif seq % 2 == 0:
                        kw['primary'] = False          # an explicit "not primary" (subpacket present with value 0) instead of no subpacket
                    s = run(lambda: key.certify(u, level=SignatureType.Positive_Cert, **kw))
                    u |= s
                elif op in ('third', 'third-local'):
                    seq += 1
                    u = find_uid(key, a)
                    kw = dict(policy_uri='urn:seq:%d' % seq, created=created)
                    if op == 'third-local':
                        kw['exportable'] = False
                    u |= W.other.certify(u, **kw)
                elif op == 'revoke_uid':
                    seq += 1
                    u = find_uid(key, a)
                    s = run(lambda: key.revoke(u, policy_uri='urn:seq:%d' % seq, created=created))
                    u |= s
                elif op == 'del_uid':
                    u = find_uid(key, a)
                    if a == 'IMG':
                        raise MachineryError('del_uid of an attribute is not generated')
                    key.del_uid(NAMES[a][0])
                elif op == 'add_sub':
                    seq += 1
                    sk = W.fresh(a)
                    if protected and seq % 2 == 0:
                        # the plain way: a freshly generated (unprotected) key is added while the protected key is unlocked; leaving the
                        # unlock scope locks what is protected and leaves the new subkey as it is
                        run(lambda: key.add_subkey(sk, usage=set(W.tags[tag][0]), policy_uri='urn:seq:%d' % seq, created=created))
                    elif protected:
                        sk.protect(PWD, SymmetricKeyAlgorithm.AES128, HashAlgorithm.SHA256)
                        with sk.unlock(PWD):
                            run(lambda: key.add_subkey(sk, usage=set(W.tags[tag][0]), policy_uri='urn:seq:%d' % seq, created=created))
                    else:
                        key.add_subkey(sk, usage=set(W.tags[tag][0]), policy_uri='urn:seq:%d' % seq, created=created)
                elif op == 'rebind':
                    seq += 1
                    sk = find_sub(W, key, a)
                    if a == 'S2':
                        # the other way of giving a subkey a new binding: adding the subkey object (which carries its earlier binding) again
                        run(lambda: key.add_subkey(sk, usage=set(W.tags[tag][0]), policy_uri='urn:seq:%d' % seq, created=created))
                    else:
                        s = run(lambda: key.bind(sk, usage=set(W.tags[tag][0]), policy_uri='urn:seq:%d' % seq, created=created))
                        sk |= s
                elif op == 'revoke_sub':
                    seq += 1
                    sk = find_sub(W, key, a)
                    s = run(lambda: key.revoke(sk, policy_uri='urn:seq:%d' % seq, created=created))
                    sk |= s
                elif op == 'revoke_key':
                    seq += 1
                    s = run(lambda: key.revoke(key, policy_uri='urn:seq:%d' % seq, created=created))
                    key |= s
                elif op == 'add_revoker':
                    seq += 1
                    s = run(lambda: key.revoker(W.other, policy_uri='urn:seq:%d' % seq, created=created))
                    key |= s
                elif op == 'tick':
                    tick += 1
                elif op == 'export_import':
                    key = pgpy.PGPKey.from_blob(bytes(key))[0]
                elif op == 'copy':
                    c = copy.copy(key)
                    extra = {'copy_same_export': bytes(c) == bytes(key)}
                    key = c
                elif op == 'protect_unlock':
                    if not protected:
                        key.protect(PWD, SymmetricKeyAlgorithm.AES128, HashAlgorithm.SHA256)
                        protected = True
            except MachineryError:
                raise
            except Exception as ex:
                raised = True
                extra = {'exc': repr(ex)[:120]}
        if n % 3 == 1 and held:
            # ... and the caller lets go of the twins it held (every third step): what the private key holds does not depend on them
            del held[:]
        e = {'act': act, 'raised': raised}
        if raised:
            e['exc'] = (extra or {}).get('exc', '')
            events.append(e)
            break
        if observe_every or n == len(behaviour) - 1:
            e['obs'] = observe(W, key, extra if extra and 'copy_same_export' in extra else None)
        events.append(e)
    return events


def generate(ctx, focus):
    from . import keylife
    W = World()
    g = ctx.model('Gen_Cert', 'Gen_Cert' if ctx.quick else 'Gen_Cert4')
    behs = [p[1] for p in g.prints if isinstance(p, list) and p and p[0] == 'BEH']
    if len(behs) < 1000:
        raise MachineryError('Gen_Cert produced %d behaviours' % len(behs))
    if ctx.quick and focus == 'C07':
        d3 = [b for b in behs if len(b) == 3]
        behs = [b for b in behs if len(b) <= 2] + ctx.rng.sample(d3, 200)
    elif ctx.quick:
        pass                                   # every enabled history to depth 3 (1 078), observed at the end
    else:
        behs = [b for b in behs if len(b) <= 3] + ctx.rng.sample([b for b in behs if len(b) == 4], 3000)
    s = ctx.model('Gen_Cert', 'Gen_CertSim', simulate='num=%d' % (12 if ctx.quick else 150), depth=13, seed=ctx.seed + 3, workers=1)
    sims = [p[1] for p in s.prints if isinstance(p, list) and p and p[0] == 'BEH']
    seen = set()
    sims = [b for b in sims if not (str(b) in seen or seen.add(str(b)))][: (40 if ctx.quick else 400)]
    traces = []
    saved = keylife.fast_s2k()
    try:
        W2 = World(foreign_kdf=True)
        for n_, b in enumerate(behs):
            traces.append(replay(W2 if n_ % 3 == 2 else W, b, observe_every=False))
            ctx.case(('beh', str(b)))
        for n_, b in enumerate(sims):
            traces.append(replay(W2 if n_ % 3 == 2 else W, b, observe_every=True))
            ctx.case(('sim', str(b)))
    finally:
        keylife.restore_s2k(saved)
    ctx.sample({'behaviour': [(a['op'], a['a'], a['tag']) for a in behs[len(behs) // 2]]})
    ctx.sample({'simulated_walk': [(a['op'], a['a'], a['tag']) for a in sims[0]]} if sims else {})
    rej = []
    chunk = 120
    for base in range(0, len(traces), chunk):
        part = traces[base:base + chunk]
        r = ctx.trace('Trace_Cert', {'traces': part}, name='cert-%d' % base, env={'FOCUS': focus})
        done = [p for p in r.prints if isinstance(p, list) and p and p[0] == 'DONE']
        if not done or done[-1][1] != len(part):
            raise MachineryError('Trace_Cert did not finish its batch: %s\n%s' % (done, r.raw[-2500:]))
        for p in r.prints:
            if isinstance(p, list) and p and p[0] == 'REJECT':
                rej.append((base + p[1] - 1, p[2], p[3], p[4]))
    for t, clause, step, vw in rej:
        if clause.startswith('harness'):
            raise MachineryError('trace %d: %s at step %d (%s)' % (t, clause, step, [a['act']['op'] for a in traces[t]]))
    ctx.traces += len(traces) - len({t for t, _, _, _ in rej})
    if not rej:
        import copy as _copy

        def last_obs(t):
            return next((e['obs'] for e in reversed(t) if 'obs' in e), None)
        cands = [t for t in traces if last_obs(t) is not None and len(last_obs(t)['priv']['uids']) >= 1 and not any(e['raised'] for e in t)]
        two = [t for t in cands if len(last_obs(t)['priv']['uids']) >= 2] or cands

        def mut(fn, pool):
            def f():
                for t in pool:
                    c = _copy.deepcopy(t)
                    if fn(last_obs(c)) is not False:
                        return c
                return None
            return f
        if focus == 'C15':
            cor = [('a removed identity still present on the twin', mut(lambda o: o['pub']['uids'].append('B') if 'B' not in o['pub']['uids'] else False, cands)),
                   ('a self-signature that does not verify', mut(lambda o: o['imp'].update(verify_all=False), cands)),
                   ('effective self-signature is an older one', mut(lambda o: o['priv']['eff'].update({o['priv']['uids'][0]: 99}), cands)),
                   ('revocation reported on the wrong identity', mut(lambda o: o['priv']['revoked'].update({o['priv']['uids'][0]: not o['priv']['revoked'][o['priv']['uids'][0]]}), cands))]
        elif focus == 'C14':
            def move(o):
                u = o['imp']['uids']
                if len(u) < 2 or not o['imp']['sigs_on'][u[0]]:
                    return False
                s_ = o['imp']['sigs_on'][u[0]].pop()
                o['imp']['sigs_on'][u[1]].append(s_)
            cor = [('a signature re-attached to the neighbouring identity', mut(move, two)),
                   ('an identity lost by the import', mut(lambda o: o['imp']['uids'].pop(), cands)),
                   ('export not a transferable key', mut(lambda o: o['pub'].update(grammar_ok=False), cands)),
                   ('subkey material differs after import', mut(lambda o: o['imp'].update(fingerprint='0' * 40), cands))]
        else:
            cor = [('public twin lacks a signature', mut(lambda o: (o['pub']['sigs_on'][o['pub']['uids'][0]].pop() if o['pub']['sigs_on'][o['pub']['uids'][0]] else False), cands)),
                   ('public export carries a secret key packet', mut(lambda o: o['pub'].update(tags=[5] + o['pub']['tags'][1:]), cands))]
        batch = []
        for name, f in cor:
            c = f()
            if c is None:
                raise MachineryError('self-test %s: corruption %r applies to no trace' % (focus, name))
            batch.append(c)
        r = ctx.trace('Trace_Cert', {'traces': batch}, name='cert-selftest', env={'FOCUS': focus})
        rejected = {p[1] for p in r.prints if isinstance(p, list) and p and p[0] == 'REJECT'}
        if len(rejected) != len(batch):
            raise MachineryError('self-test %s: Trace_Cert accepted corrupted traces: rejected %s of %s' % (focus, sorted(rejected), [n for n, _ in cor]))
        ctx.extra.setdefault('selftest_corruptions_rejected', []).extend(n for n, _ in cor)
    ctx.extra['behaviours_replayed'] = len(traces)
    ctx.extra['steps'] = sum(len(t) for t in traces)
    ctx.extra['observations'] = sum(1 for t in traces for e in t if 'obs' in e) * 4
    return traces, rej
