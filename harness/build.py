"""Independent OpenPGP encoder / signer / verifier on top of primitives only (cryptography, hashlib).

"Python proposes, TLC disposes": nothing built or parsed here is trusted by itself - every packet, hash input
and parsed value produced here is handed to TLC in the same batch and validated against the wire specification
before a PGPy verdict about it is believed. Nothing in this file imports pgpy.
"""
import hashlib
import struct

from cryptography.hazmat.primitives import hashes, serialization
from cryptography.hazmat.primitives.asymmetric import rsa, ec, ed25519, dsa, padding, utils, x25519

HASH_ID = {'md5': 1, 'sha1': 2, 'ripemd160': 3, 'sha256': 8, 'sha384': 9, 'sha512': 10, 'sha224': 11}
HASH_NAME = {v: k for k, v in HASH_ID.items()}
HASH_CLS = {'md5': hashes.MD5, 'sha1': hashes.SHA1, 'sha256': hashes.SHA256, 'sha384': hashes.SHA384,
            'sha512': hashes.SHA512, 'sha224': hashes.SHA224}
try:
    HASH_CLS['ripemd160'] = hashes.RIPEMD160
except AttributeError:   # pragma: no cover
    pass

OID = {
    'ed25519': bytes.fromhex('2B06010401DA470F01'),
    'cv25519': bytes.fromhex('2B060104019755010501'),
    'p256': bytes.fromhex('2A8648CE3D030107'),
    'p384': bytes.fromhex('2B81040022'),
    'p521': bytes.fromhex('2B81040023'),
    'k256': bytes.fromhex('2B8104000A'),
    'bp256': bytes.fromhex('2B2403030208010107'),
    'bp384': bytes.fromhex('2B240303020801010B'),
    'bp512': bytes.fromhex('2B240303020801010D'),
}
CURVE = {'p256': ec.SECP256R1, 'p384': ec.SECP384R1, 'p521': ec.SECP521R1, 'k256': ec.SECP256K1,
         'bp256': ec.BrainpoolP256R1, 'bp384': ec.BrainpoolP384R1, 'bp512': ec.BrainpoolP512R1}


# ------------------------------------------------------------------ lengths, headers, MPIs
def new_len(n, form=None):
    if form == 5 or (form is None and n >= 8384):
        return b'\xff' + struct.pack('>I', n)
    if form == 2 or (form is None and n >= 192):
        if not 192 <= n < 8384:
            raise ValueError('two-octet new-format length out of range')
        return bytes([((n - 192) >> 8) + 192, (n - 192) & 0xFF])
    if n >= 192:
        raise ValueError('one-octet length out of range')
    return bytes([n])


def pkt(tag, body, fmt='new', form=None, chunks=None):
    """One packet. fmt 'new' (form: 1/2/5 octets, None = shortest; chunks: list of power-of-two exponents for
    partial body lengths) or 'old' (form: length type 0/1/2/3, None = narrowest)."""
    body = bytes(body)
    if fmt == 'new':
        out = bytes([0xC0 | tag])
        if chunks:
            off = 0
            for e in chunks:
                out += bytes([224 + e]) + body[off:off + (1 << e)]
                off += 1 << e
            rest = body[off:]
            return out + new_len(len(rest)) + rest
        return out + new_len(len(body), form) + body
    if tag > 15:
        raise ValueError('old format cannot carry tag > 15')
    lt = form
    if lt is None:
        lt = 0 if len(body) < 256 else 1 if len(body) < 65536 else 2
    w = {0: 1, 1: 2, 2: 4, 3: 0}[lt]
    return bytes([0x80 | (tag << 2) | lt]) + (len(body).to_bytes(w, 'big') if w else b'') + body


def mpi(n):
    n = int(n)
    return struct.pack('>H', n.bit_length()) + n.to_bytes((n.bit_length() + 7) // 8, 'big')


def mpi_bytes(b):
    return mpi(int.from_bytes(b, 'big'))


def sub_len(n, form=None):
    if form == 5 or (form is None and n >= 16320):
        return b'\xff' + struct.pack('>I', n)
    if form == 2 or (form is None and n >= 192):
        if not 192 <= n < 16320:
            raise ValueError('two-octet subpacket length out of range')
        return bytes([((n - 192) >> 8) + 192, (n - 192) & 0xFF])
    return bytes([n])


def subpacket(t, body, critical=False, form=None):
    body = bytes(body)
    return sub_len(len(body) + 1, form) + bytes([t | (0x80 if critical else 0)]) + body


# ------------------------------------------------------------------ keys
class ForeignKey(object):
    """A key pair made with the cryptography package and encoded as OpenPGP packets by this module."""

    def __init__(self, kind, created=1262304000, seed=None):
        self.kind = kind
        self.created = created
        if kind == 'ed25519':
            self.priv = ed25519.Ed25519PrivateKey.generate()
            raw = self.priv.public_key().public_bytes(serialization.Encoding.Raw, serialization.PublicFormat.Raw)
            self.alg = 22
            self.material = bytes([len(OID['ed25519'])]) + OID['ed25519'] + mpi_bytes(b'\x40' + raw)
        elif kind == 'cv25519':
            self.priv = x25519.X25519PrivateKey.generate()
            raw = self.priv.public_key().public_bytes(serialization.Encoding.Raw, serialization.PublicFormat.Raw)
            self.alg = 18
            self.material = bytes([len(OID['cv25519'])]) + OID['cv25519'] + mpi_bytes(b'\x40' + raw) + bytes([3, 1, 8, 7])
        elif kind in CURVE:
            self.priv = ec.generate_private_key(CURVE[kind]())
            nums = self.priv.public_key().public_numbers()
            sz = (self.priv.curve.key_size + 7) // 8
            self.alg = 19
            self.material = bytes([len(OID[kind])]) + OID[kind] + mpi_bytes(b'\x04' + nums.x.to_bytes(sz, 'big') + nums.y.to_bytes(sz, 'big'))
        elif kind.startswith('rsa'):
            # 'rsa2048' is algorithm 1 (encrypt or sign); 'rsa2048#3' the deprecated sign-only id 3 (RFC 4880 9.1: still to be accepted)
            self.priv = rsa.generate_private_key(public_exponent=65537, key_size=int(kind[3:].split('#')[0]))
            nums = self.priv.public_key().public_numbers()
            self.alg = int(kind.split('#')[1]) if '#' in kind else 1
            self.material = mpi(nums.n) + mpi(nums.e)
        elif kind.startswith('dsa'):
            self.priv = dsa.generate_private_key(key_size=int(kind[3:]))
            nums = self.priv.public_key().public_numbers()
            pn = nums.parameter_numbers
            self.alg = 17
            self.material = mpi(pn.p) + mpi(pn.q) + mpi(pn.g) + mpi(nums.y)
        else:
            raise ValueError(kind)

    @property
    def pub_body(self):
        return b'\x04' + struct.pack('>I', self.created) + bytes([self.alg]) + self.material

    @property
    def fingerprint(self):
        b = self.pub_body
        return hashlib.sha1(b'\x99' + struct.pack('>H', len(b)) + b).digest()

    @property
    def keyid(self):
        return self.fingerprint[-8:]

    def secret_mpis(self):
        if self.kind == 'ed25519':
            raw = self.priv.private_bytes(serialization.Encoding.Raw, serialization.PrivateFormat.Raw, serialization.NoEncryption())
            return mpi_bytes(raw)
        if self.kind == 'cv25519':
            raw = self.priv.private_bytes(serialization.Encoding.Raw, serialization.PrivateFormat.Raw, serialization.NoEncryption())
            return mpi_bytes(raw[::-1])          # RFC 6637 / GnuPG: secret scalar stored big-endian
        if self.kind in CURVE:
            return mpi(self.priv.private_numbers().private_value)
        if self.kind.startswith('rsa'):
            n = self.priv.private_numbers()
            return mpi(n.d) + mpi(n.p) + mpi(n.q) + mpi(pow(n.p, -1, n.q))
        if self.kind.startswith('dsa'):
            return mpi(self.priv.private_numbers().x)
        raise ValueError(self.kind)

    def secret_body(self):
        """usage 0 (unprotected): public fields, 00, secret MPIs, two-octet sum."""
        sm = self.secret_mpis()
        return self.pub_body + b'\x00' + sm + struct.pack('>H', sum(sm) & 0xFFFF)

    def sign_digest(self, digest, hname):
        """-> list of integers making up the signature value (RFC 4880 5.2.2 / RFC 6637 / EdDSA draft)."""
        if self.alg in (1, 3):
            s = self.priv.sign(digest, padding.PKCS1v15(), utils.Prehashed(HASH_CLS[hname]()))
            return [int.from_bytes(s, 'big')]
        if self.alg == 19:
            r, s = utils.decode_dss_signature(self.priv.sign(digest, ec.ECDSA(utils.Prehashed(HASH_CLS[hname]()))))
            return [r, s]
        if self.alg == 17:
            r, s = utils.decode_dss_signature(self.priv.sign(digest, utils.Prehashed(HASH_CLS[hname]())))
            return [r, s]
        if self.alg == 22:
            s = self.priv.sign(digest)
            return [int.from_bytes(s[:32], 'big'), int.from_bytes(s[32:], 'big')]
        raise ValueError('cannot sign with %s' % self.kind)


def verify_digest(alg, pub_material, digest, hname, sigints):
    """Primitive verification from *wire values* (public key material octets as in the key packet, signature
    integers). Returns True/False. The parse of pub_material done here is re-checked by TLC (claimed.keybody)."""
    from cryptography.exceptions import InvalidSignature

    def read_mpi(b, p):
        bits = (b[p] << 8) | b[p + 1]
        n = (bits + 7) // 8
        return int.from_bytes(b[p + 2:p + 2 + n], 'big'), p + 2 + n
    try:
        if alg in (1, 3):
            n, p = read_mpi(pub_material, 0)
            e, p = read_mpi(pub_material, p)
            pub = rsa.RSAPublicNumbers(e, n).public_key()
            sig = sigints[0].to_bytes((n.bit_length() + 7) // 8, 'big')
            pub.verify(sig, digest, padding.PKCS1v15(), utils.Prehashed(HASH_CLS[hname]()))
            return True
        if alg == 17:
            pp, p = read_mpi(pub_material, 0)
            q, p = read_mpi(pub_material, p)
            g, p = read_mpi(pub_material, p)
            y, p = read_mpi(pub_material, p)
            pub = dsa.DSAPublicNumbers(y, dsa.DSAParameterNumbers(pp, q, g)).public_key()
            # FIPS 186: leftmost min(N, outlen) bits of the digest; cryptography does this for Prehashed input
            pub.verify(utils.encode_dss_signature(sigints[0], sigints[1]), digest, utils.Prehashed(HASH_CLS[hname]()))
            return True
        if alg in (19, 22):
            ol = pub_material[0]
            oid = bytes(pub_material[1:1 + ol])
            pt, p = read_mpi(pub_material, 1 + ol)
            if alg == 22:
                raw = pt.to_bytes(33, 'big')
                if raw[0] != 0x40:
                    return False
                pub = ed25519.Ed25519PublicKey.from_public_bytes(raw[1:])
                pub.verify(sigints[0].to_bytes(32, 'big') + sigints[1].to_bytes(32, 'big'), digest)
                return True
            kind = next((k for k, v in OID.items() if v == oid and k in CURVE), None)
            if kind is None:
                from .tlc import MachineryError
                raise MachineryError('independent verifier does not know curve OID %s' % oid.hex())
            curve = CURVE[kind]()
            sz = (curve.key_size + 7) // 8
            raw = pt.to_bytes(2 * sz + 1, 'big')
            pub = ec.EllipticCurvePublicNumbers(int.from_bytes(raw[1:1 + sz], 'big'), int.from_bytes(raw[1 + sz:], 'big'), curve).public_key()
            pub.verify(utils.encode_dss_signature(sigints[0], sigints[1]), digest, ec.ECDSA(utils.Prehashed(HASH_CLS[hname]())))
            return True
    except InvalidSignature:
        return False
    except (ValueError, OverflowError, StopIteration):
        return False
    return False


# ------------------------------------------------------------------ RFC 4880 5.2.4 (proposal; validated by TLC)
def key_hash(body):
    return b'\x99' + struct.pack('>H', len(body)) + body


def uid_hash(isuid, data):
    return (b'\xb4' if isuid else b'\xd1') + struct.pack('>I', len(data)) + data


def canon_text(doc):
    out = bytearray()
    for i, c in enumerate(doc):
        if c == 10 and (i == 0 or doc[i - 1] != 13):
            out += b'\r\n'
        else:
            out.append(c)
    return bytes(out)


def subject_octets(sigtype, doc=b'', primary=b'', sub=b'', uid=b'', isuid=True):
    if sigtype == 0x00:
        return bytes(doc)
    if sigtype == 0x01:
        return canon_text(doc)
    if sigtype in (0x02, 0x40):
        return b''
    if sigtype in (0x10, 0x11, 0x12, 0x13, 0x30, 0x16):
        return key_hash(primary) + uid_hash(isuid, uid)
    if sigtype in (0x18, 0x19, 0x28):
        return key_hash(primary) + key_hash(sub)
    if sigtype in (0x1F, 0x20):
        return key_hash(primary)
    raise ValueError(sigtype)


def sig_packet(key, sigtype, hname, hashed, unhashed, subject, fmt='new', form=None, created=None, issuer_in='unhashed',
               left16=None, pad_mpi=0):
    """Build and sign a v4 signature packet. hashed / unhashed: lists of already encoded subpackets (bytes).
    Returns (packet octets, hash input the signature was computed over)."""
    hs = b''.join(hashed)
    if created is not None:
        hs = subpacket(2, struct.pack('>I', created)) + hs
    us = b''.join(unhashed)
    if issuer_in == 'unhashed':
        us += subpacket(16, key.keyid)
    elif issuer_in == 'hashed':
        hs += subpacket(16, key.keyid)
    head = bytes([4, sigtype, key.alg, HASH_ID[hname]]) + struct.pack('>H', len(hs)) + hs
    hin = subject + head + b'\x04\xff' + struct.pack('>I', len(head))
    digest = hashlib.new(hname, hin).digest()
    ints = key.sign_digest(digest, hname)
    vals = b''
    for n in ints:
        m = mpi(n)
        if pad_mpi:
            # foreign, non-canonical but readable: declare more bits and prepend zero octets
            bits = n.bit_length() + 8 * pad_mpi
            m = struct.pack('>H', bits) + b'\x00' * pad_mpi + n.to_bytes((n.bit_length() + 7) // 8, 'big')
        vals += m
    body = head + struct.pack('>H', len(us)) + us + (left16 if left16 is not None else digest[:2]) + vals
    return pkt(2, body, fmt=fmt, form=form), hin


# ------------------------------------------------------------------ a tiny reader (claims only; TLC re-checks)
def read_packets(blob):
    out = []
    p = 0
    blob = bytes(blob)
    while p < len(blob):
        o = blob[p]
        if o & 0x40:
            tag = o & 0x3F
            q = p + 1
            body = b''
            while True:
                f = blob[q]
                if f < 192:
                    n, q = f, q + 1
                    body += blob[q:q + n]
                    q += n
                    break
                if f < 224:
                    n, q = ((f - 192) << 8) + blob[q + 1] + 192, q + 2
                    body += blob[q:q + n]
                    q += n
                    break
                if f == 255:
                    n, q = struct.unpack('>I', blob[q + 1:q + 5])[0], q + 5
                    body += blob[q:q + n]
                    q += n
                    break
                n, q = 1 << (f & 31), q + 1
                body += blob[q:q + n]
                q += n
        else:
            tag = (o & 0x3C) >> 2
            lt = o & 3
            w = {0: 1, 1: 2, 2: 4, 3: 0}[lt]
            if w:
                n = int.from_bytes(blob[p + 1:p + 1 + w], 'big')
                q = p + 1 + w
            else:
                n = len(blob) - p - 1
                q = p + 1
            body = blob[q:q + n]
            q += n
        out.append((tag, body, blob[p:q]))
        p = q
    return out


def read_sig_body(body):
    """-> dict(type, pk, h, hashed, unhashed, left16, ints) of a v4 signature body (claim)."""
    hl = (body[4] << 8) | body[5]
    ul = (body[6 + hl] << 8) | body[7 + hl]
    p = 10 + hl + ul
    ints = []
    while p < len(body):
        bits = (body[p] << 8) | body[p + 1]
        n = (bits + 7) // 8
        ints.append(int.from_bytes(body[p + 2:p + 2 + n], 'big'))
        p += 2 + n
    return {'type': body[1], 'pk': body[2], 'h': body[3], 'hashed': body[6:6 + hl], 'region': body[:6 + hl],
            'unhashed': body[8 + hl:8 + hl + ul], 'left16': body[8 + hl + ul:10 + hl + ul], 'ints': ints}


def pub_portion_len(body):
    """length of the public fields of a v4 key body (claim)."""
    alg = body[5]
    p = 6

    def skip(p, n):
        for _ in range(n):
            bits = (body[p] << 8) | body[p + 1]
            p += 2 + (bits + 7) // 8
        return p
    if alg in (1, 2, 3):
        return skip(p, 2)
    if alg == 17:
        return skip(p, 4)
    if alg in (16, 20):
        return skip(p, 3)
    if alg in (18, 19, 22):
        p = skip(p + 1 + body[p], 1)
        if alg == 18:
            p += 1 + body[p]
        return p
    raise ValueError(alg)


# ------------------------------------------------------------------ transferable keys from foreign material
def transferable_key(primary, uids, subkeys=(), secret=False, hname='sha256', created=None, flags=0x03, extra_hashed=(),
                     fmt='new', trust_packets=False, uid_unhashed=()):
    """primary: ForeignKey; uids: list of bytes; subkeys: list of (ForeignKey, flags).
    Returns octets of a transferable public (or secret, usage 0) key with self-certifications and bindings."""
    created = created if created is not None else primary.created + 1
    out = pkt(5 if secret else 6, primary.secret_body() if secret else primary.pub_body, fmt=fmt)
    trust = pkt(12, b'\x00\x00') if trust_packets else b''
    out += trust
    for n, u in enumerate(uids):
        out += pkt(13, u, fmt=fmt) + trust
        hashed = [subpacket(27, bytes([flags])), subpacket(11, bytes([9, 7])), subpacket(21, bytes([8, 10])), subpacket(22, bytes([2, 0])),
                  subpacket(30, bytes([1]))] + list(extra_hashed)
        if n == 0:
            hashed.append(subpacket(25, b'\x01'))
        hashed.append(subpacket(33, b'\x04' + primary.fingerprint))
        sp, _ = sig_packet(primary, 0x13, hname, hashed, list(uid_unhashed), subject_octets(0x13, primary=primary.pub_body, uid=u), created=created + n, fmt=fmt)
        out += sp + trust
    for n, entry in enumerate(subkeys):
        # (key, hashed flags) or (key, hashed flags or None for "no key-flags subpacket", flags planted in the UNHASHED area)
        sk, sflags = entry[0], entry[1]
        planted = entry[2] if len(entry) > 2 else None
        out += pkt(7 if secret else 14, sk.secret_body() if secret else sk.pub_body, fmt=fmt) + trust
        unh = []
        if planted is not None:
            unh.append(subpacket(27, bytes([planted])))
        if isinstance(sflags, int) and sflags & 0x02:
            cross, _ = sig_packet(sk, 0x19, hname, [], [], subject_octets(0x19, primary=primary.pub_body, sub=sk.pub_body), created=created + 20 + n)
            unh.append(subpacket(32, read_packets(cross)[0][1]))
        sp, _ = sig_packet(primary, 0x18, hname, [subpacket(27, bytes([sflags]) if isinstance(sflags, int) else bytes(sflags))] if sflags is not None else [], unh,
                           subject_octets(0x18, primary=primary.pub_body, sub=sk.pub_body), created=created + 20 + n, fmt=fmt)
        out += sp + trust
    return out
