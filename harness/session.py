"""Whole-session behaviours of spec/Session.tla replayed on real objects (binding G) and validated by
models/Trace_Session.tla (binding V).

Gen_Session (TLC -simulate) produces random walks over two private keys (protect / unlock scopes / export-import),
detached signatures, encrypted (optionally signed, multi-recipient, passphrase) messages and a keyring.  Every walk is
executed on real PGPy objects; after each step the outcome of the call and a probe of the object state are logged.
Trace_Session steps the specification's own actions along the log and names the clause family of the first mismatch:
    C06.session  private operations / protection state        C01.session  signature verification outcomes
    C03.session  encryption / decryption outcomes              C19.session  keyring lookups and contents
The check of each of those properties runs this replay and reports its own family.
"""
import warnings

from . import keys as K
from . import keylife
from .common import MachineryError, import_pgpy

PW = {'p1': 'first session passphrase', 'p2': 'zweites Passwort'}
DOC = {'d1': 'session document one\n', 'd2': 'session document two, the other one\n'}
MSGPW = 'message passphrase'


class World(object):
    def __init__(self):
        pgpy = import_pgpy()
        from pgpy.constants import KeyFlags
        self.pgpy = pgpy
        self.blob = {}
        for k, alg, sub in (('A', 'ed25519', 'cv25519'), ('B', 'p256', 'ecdh256')):
            key = K.new_key(alg, name='Session %s' % k, email='%s@session.org' % k.lower(), subs=[(sub, {KeyFlags.EncryptCommunications})])
            self.blob[k] = bytes(key)


def plain(r, doc='-', signer='-'):
    return {'r': r, 'doc': doc, 'signer': signer}


def replay(W, beh):
    pgpy = W.pgpy
    from pgpy.constants import SymmetricKeyAlgorithm, HashAlgorithm
    keys = {k: pgpy.PGPKey.from_blob(b)[0] for k, b in W.blob.items()}
    fpr = {k: str(keys[k].fingerprint) for k in keys}
    stacks = {k: [] for k in keys}
    sigs, cts = [], []
    ring = pgpy.PGPKeyring()
    ringobj = {}
    events = []
    for act in beh:
        name = act[0]
        out = plain('ok')
        with warnings.catch_warnings():
            warnings.simplefilter('ignore')
            if name == 'protect':
                try:
                    keys[act[1]].protect(PW[act[2]], SymmetricKeyAlgorithm.AES128, HashAlgorithm.SHA256)
                except Exception:
                    out = plain('refused')
            elif name == 'unlock':
                cm = keys[act[1]].unlock(PW[act[2]])
                try:
                    cm.__enter__()
                    stacks[act[1]].append(cm)
                except Exception:
                    out = plain('refused')
            elif name == 'exit':
                cm = stacks[act[1]].pop()
                try:
                    cm.__exit__(None, None, None)
                except Exception:
                    out = plain('refused')
            elif name == 'export-import':
                k = act[1]
                blob = bytes(keys[k])
                while stacks[k]:
                    try:
                        stacks[k].pop().__exit__(None, None, None)
                    except Exception:
                        pass
                keys[k] = pgpy.PGPKey.from_blob(blob)[0]
            elif name == 'sign':
                try:
                    sigs.append(keys[act[1]].sign(DOC[act[2]]))
                except Exception:
                    out = plain('refused')
            elif name == 'verify':
                try:
                    s = pgpy.PGPSignature.from_blob(bytes(sigs[act[2] - 1]))
                    out = plain('truthy' if keys[act[1]].pubkey.verify(DOC[act[3]], s) else 'not-truthy')
                except Exception:
                    out = plain('not-truthy')
            elif name == 'encrypt':
                R = [k for k, bit in zip(('A', 'B'), act[1]) if bit]
                try:
                    msg = pgpy.PGPMessage.new(DOC[act[3]])
                    if act[4] != '-':
                        msg |= keys[act[4]].sign(msg)
                    cipher = SymmetricKeyAlgorithm.AES256
                    sk = cipher.gen_key()
                    for r in R:
                        msg = keys[r].pubkey.encrypt(msg, cipher=cipher, sessionkey=sk)
                    if act[2]:
                        msg = msg.encrypt(MSGPW, sessionkey=sk, cipher=cipher)
                    del sk
                    cts.append(bytes(msg))
                except Exception:
                    out = plain('refused')
            elif name in ('decrypt', 'decrypt-pass'):
                try:
                    m = pgpy.PGPMessage.from_blob(cts[(act[2] if name == 'decrypt' else act[1]) - 1])
                    if name == 'decrypt':
                        dec = keys[act[1]].decrypt(m)
                    else:
                        dec = m.decrypt(MSGPW if act[2] else 'not the message passphrase')
                    if dec is m or dec.is_encrypted:
                        raise ValueError('still encrypted')
                    text = dec.message if isinstance(dec.message, str) else bytes(dec.message).decode('utf-8')
                    doc = next((d for d, t in DOC.items() if t == text), 'other')
                    signer = '-'
                    if dec.signatures:
                        signer = 'nobody'
                        for k in sorted(keys):
                            try:
                                if keys[k].pubkey.verify(dec):
                                    signer = k
                                    break
                            except Exception:
                                pass
                    out = plain('plain', doc, signer)
                except Exception:
                    out = plain('refused')
            elif name == 'ring-load':
                # the keyring holds key OBJECTS (Keyring.tla): the session uses one public object per key, so that Session.tla's set of
                # key names is the set of loaded objects
                if act[1] not in ringobj:
                    ringobj[act[1]] = pgpy.PGPKey.from_blob(bytes(keys[act[1]].pubkey))[0]
                try:
                    ring.load(ringobj[act[1]])
                except Exception:
                    out = plain('refused')
            elif name == 'ring-unload':
                try:
                    ring.unload(ringobj[act[1]])
                except Exception:
                    out = plain('refused')
            elif name == 'ring-verify':
                s = pgpy.PGPSignature.from_blob(bytes(sigs[act[1] - 1]))
                try:
                    with ring.key(s) as kk:
                        out = plain('truthy' if kk.verify(DOC[act[2]], s) else 'not-truthy')
                except KeyError:
                    out = plain('no-key')
                except Exception:
                    out = plain('not-truthy')
            else:
                raise MachineryError('unknown session action %r' % (act,))
            try:
                loaded = {str(f).replace(' ', '') for f in ring.fingerprints()}
            except Exception:
                loaded = set()
            probe = {k: [bool(keys[k].is_protected), bool(keys[k].is_unlocked)] for k in keys}
            probe['ring'] = [1 if fpr[k].replace(' ', '') in loaded else 0 for k in ('A', 'B')]
        events.append({'act': list(act), 'out': out, 'probe': probe})
    for k in stacks:
        while stacks[k]:
            try:
                stacks[k].pop().__exit__(None, None, None)
            except Exception:
                pass
    return {'events': events}


DIRECTED = [
    [['sign', 'A', 'd1'], ['verify', 'A', 1, 'd1'], ['verify', 'A', 1, 'd2'], ['verify', 'B', 1, 'd1'], ['ring-verify', 1, 'd1'], ['ring-load', 'A'],
     ['ring-verify', 1, 'd1'], ['ring-verify', 1, 'd2'], ['ring-load', 'B'], ['ring-unload', 'A'], ['ring-verify', 1, 'd1'], ['ring-load', 'A'], ['ring-verify', 1, 'd1']],
    [['protect', 'A', 'p1'], ['sign', 'A', 'd1'], ['unlock', 'A', 'p2'], ['sign', 'A', 'd1'], ['unlock', 'A', 'p1'], ['sign', 'A', 'd2'], ['unlock', 'A', 'p1'],
     ['exit', 'A'], ['sign', 'A', 'd1'], ['exit', 'A'], ['export-import', 'A'], ['sign', 'A', 'd1'], ['verify', 'A', 1, 'd2'], ['protect', 'A', 'p2']],
    [['encrypt', [1, 1], True, 'd1', 'B'], ['decrypt', 'A', 1], ['decrypt', 'B', 1], ['decrypt-pass', 1, True], ['decrypt-pass', 1, False], ['protect', 'B', 'p2'],
     ['decrypt', 'B', 1], ['encrypt', [1, 0], False, 'd2', 'B'], ['encrypt', [1, 0], False, 'd2', '-'], ['decrypt', 'B', 2], ['decrypt', 'A', 2], ['decrypt-pass', 2, True],
     ['unlock', 'B', 'p2'], ['decrypt', 'B', 1], ['encrypt', [0, 1], False, 'd1', 'B'], ['exit', 'B'], ['decrypt', 'B', 3]],
]


def generate(ctx, family):
    """-> list of (behaviour, step index, clause, detail) for rejects of `family` (e.g. 'C06.session')."""
    if family == 'C06.session' or not ctx.quick:
        # the design-level runs (invariants, action properties, refinement of KeyProtect by every key, one spec mutation) belong to
        # the C06 check in the quick tier; the thorough tier of every family repeats them
        ctx.model('MC_Session')
        ctx.model('MC_Session', 'MC_Session_refine')
    ctx.model('MC_Session', 'MC_Session_mut', must_hold=False)
    n = 300 if ctx.quick else 4000
    g = ctx.model('Gen_Session', simulate='num=%d' % n, depth=16, seed=1000 + ctx.seed, workers=1)
    behs, seen = [], set()
    for p in g.prints:
        if isinstance(p, list) and p and p[0] == 'BEH' and str(p[1]) not in seen:
            seen.add(str(p[1]))
            behs.append(p[1])
    behs = behs[:n]
    if len(behs) < n // 2:
        raise MachineryError('Gen_Session produced %d behaviours' % len(behs))
    # directed sessions (validated by Trace_Session like every other walk): every outcome class occurs in every run whatever the seed
    behs = DIRECTED + behs
    W = K.pooled('session-world', World)
    saved = keylife.fast_s2k()
    try:
        traces = [replay(W, b) for b in behs]
    finally:
        keylife.restore_s2k(saved)

    def judge(batch):
        rej = []
        chunk = 400
        for base in range(0, len(batch), chunk):
            part = batch[base:base + chunk]
            r = ctx.trace('Trace_Session', {'traces': part}, name='session-%d' % base)
            done = [p for p in r.prints if isinstance(p, list) and p and p[0] == 'DONE']
            if not done or done[-1][1] != len(part):
                raise MachineryError('Trace_Session did not finish its batch (a logged action the specification does not enable?): %s\n%s' % (done, r.raw[-2500:]))
            rej += [(base + p[1] - 1, p[2], p[3], p[4]) for p in r.prints if isinstance(p, list) and p and p[0] == 'REJECT']
        return rej
    rej = judge(traces)
    acts = {}
    for t in traces:
        for e in t['events']:
            acts[e['act'][0]] = acts.get(e['act'][0], 0) + 1
    need = {'protect', 'unlock', 'exit', 'export-import', 'sign', 'verify', 'encrypt', 'decrypt', 'decrypt-pass', 'ring-load', 'ring-unload', 'ring-verify'}
    if need - set(acts):
        raise MachineryError('session walks never took %s' % sorted(need - set(acts)))
    outs = {}
    for t in traces:
        for e in t['events']:
            key = '%s:%s' % (e['act'][0], e['out']['r'])
            outs[key] = outs.get(key, 0) + 1
    for must in ('sign:refused', 'sign:ok', 'verify:truthy', 'verify:not-truthy', 'decrypt:plain', 'decrypt:refused', 'decrypt-pass:plain',
                 'ring-verify:no-key', 'ring-verify:truthy', 'unlock:refused'):
        if not outs.get(must):
            raise MachineryError('session walks never observed %s' % must)
    ctx.extra['session_walks'] = len(traces)
    ctx.extra['session_steps'] = sum(len(t['events']) for t in traces)
    ctx.extra['session_outcomes'] = outs
    ctx.traces += len(traces) - len({r[0] for r in rej})
    for b in behs:
        ctx.case(('session', str(b)))
    if not rej:
        import copy
        cor = []
        fam = family

        def first(pred, fn):
            for t in traces:
                for j, e in enumerate(t['events']):
                    if pred(e):
                        c = copy.deepcopy(t)
                        fn(c['events'][j])
                        return c
            raise MachineryError('session self-test: no event for a corruption')
        cor.append(('a locked key signs', first(lambda e: e['act'][0] == 'sign' and e['out']['r'] == 'refused', lambda e: e['out'].update(r='ok'))))
        cor.append(('a signature verifies over the other document', first(lambda e: e['act'][0] == 'verify' and e['out']['r'] == 'not-truthy', lambda e: e['out'].update(r='truthy'))))
        cor.append(('decryption yields the other document', first(lambda e: e['act'][0] == 'decrypt' and e['out']['r'] == 'plain', lambda e: e['out'].update(doc='d1' if e['out']['doc'] == 'd2' else 'd2'))))
        cor.append(('the keyring finds an unloaded key', first(lambda e: e['act'][0] == 'ring-verify' and e['out']['r'] == 'no-key', lambda e: e['out'].update(r='truthy'))))
        cor.append(('a key reports unlocked after its scope', first(lambda e: e['probe']['A'] == [True, False], lambda e: e['probe'].update(A=[True, True]))))
        r2 = judge([c for _, c in cor])
        if {r[0] for r in r2} != set(range(len(cor))):
            raise MachineryError('session self-test: Trace_Session accepted corrupted sessions: rejected %s of %s' % (sorted({r[0] for r in r2}), [n_ for n_, _ in cor]))
        ctx.extra['session_selftest_corruptions_rejected'] = [n_ for n_, _ in cor]
    ctx.extra['session_rejects_all_families'] = sorted({(c, d) for _, c, _, d in rej})
    return [(behs[t], step, clause, detail) for t, clause, step, detail in rej if clause == family], len(rej)
