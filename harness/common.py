"""Shared plumbing for the per-property drivers: context, evidence, verdict rule, known findings."""
import hashlib
import json
import os
import random
import shutil
import sys
import tempfile
import time

from . import tlc
from .tlc import MachineryError  # noqa: F401

VERIF = tlc.VERIF
EVIDENCE_DIR = os.path.join(VERIF, 'evidence')
REPLAY_DIR = os.path.join(VERIF, 'replays')
KNOWN_FILE = os.path.join(VERIF, 'known_findings.jsonl')
REPO = os.environ.get('VERIF_REPO', '/repo')


def octets(b):
    return list(bytes(b))


def codepoints(s):
    return [ord(c) for c in s]


def q32(n):
    """a 32-bit quantity as an octet quadruple (TLC integers are 32-bit signed)."""
    return list(int(n).to_bytes(4, 'big'))


def _nonull(o):
    """TLC's Json module cannot read null: send the string "null" instead."""
    if o is None:
        return 'null'
    if isinstance(o, dict):
        return {k: _nonull(v) for k, v in o.items()}
    if isinstance(o, (list, tuple)):
        return [_nonull(v) for v in o]
    return o


def load_known():
    out = []
    if os.path.exists(KNOWN_FILE):
        with open(KNOWN_FILE) as f:
            for ln in f:
                ln = ln.strip()
                if ln.startswith('{'):
                    out.append(json.loads(ln))
    return out


def _approx_size(o):
    """rough size of the JSON text of o (octet lists dominate: ~4 characters per element)."""
    if isinstance(o, dict):
        return sum(_approx_size(v) + len(k) + 4 for k, v in o.items())
    if isinstance(o, (list, tuple)):
        if o and isinstance(o[0], int):
            return 4 * len(o)
        return sum(_approx_size(v) for v in o) + 2
    if isinstance(o, str):
        return len(o) + 2
    return 8


class Ctx(object):
    """One run of one property check."""

    def __init__(self, pid, tier, seed):
        self.pid = pid
        self.tier = tier
        self.seed = seed
        self.rng = random.Random(seed * 1000003 + int(pid[1:]))
        self.t0 = time.time()
        self.work = tempfile.mkdtemp(prefix='pgpyverif-%s-' % pid)
        self.states = 0
        self.transitions = 0
        self.traces = 0            # behaviours replayed (G) + traces/events accepted (V/O)
        self.evaluations = 0
        self.samples = []
        self.violations = []       # (clause, key, detail)
        self.known_hits = {}       # (clause,key) -> count
        self.notes = []
        self.models = []           # per TLC run summary
        self.coverage = {}
        self.assumptions = []
        self.extra = {}
        self.distinct_cases = set()
        self.known = [k for k in load_known() if k.get('property') == pid and k.get('status', 'open') == 'open']
        self.quick = (tier == 'quick')

    # ---- TLC helpers -------------------------------------------------------------------------
    def model(self, module, cfg=None, must_hold=True, **kw):
        """Run an exhaustive / simulation model. A violated model is a machinery failure unless
        must_hold is False (spec-mutation runs that *expect* a counterexample)."""
        r = tlc.run(module, cfg, workdir=self.work, **kw)
        self.states += r.distinct
        self.transitions += r.generated
        self.models.append({'module': module, 'cfg': cfg or module, 'distinct': r.distinct, 'generated': r.generated,
                            'depth': r.depth, 'wall_s': round(r.wall, 2), 'violated': r.violated})
        for k, v in r.coverage.items():
            od, ot = self.coverage.get(k, (0, 0))
            self.coverage[k] = (od + v[0], ot + v[1])
        if must_hold and r.violated:
            raise MachineryError('design-level model %s/%s violated %s:\n%s' % (module, cfg, r.violated_name, r.raw[-5000:]))
        if (not must_hold) and not r.violated:
            raise MachineryError('spec-mutation model %s/%s was expected to produce a counterexample but did not'
                                 % (module, cfg))
        return r

    def trace(self, module, doc, cfg=None, name=None, **kw):
        """Validate a batch (python object -> JSON file -> Trace module). Returns TLCResult; the
        driver interprets r.prints."""
        name = name or ('trace-%d' % len(self.models))
        path = os.path.join(self.work, name + '.json')
        with open(path, 'w') as f:
            json.dump(_nonull(doc), f, separators=(',', ':'))
        kw.setdefault('workers', 1)
        env = dict(kw.pop('env', {}) or {})
        env['TRACE_FILE'] = path
        r = tlc.run(module, cfg, workdir=self.work, env=env, **kw)
        self.states += r.distinct
        self.transitions += r.generated
        self.models.append({'module': module, 'trace_file_bytes': os.path.getsize(path), 'distinct': r.distinct,
                            'generated': r.generated, 'wall_s': round(r.wall, 2)})
        if r.violated:
            raise MachineryError('trace spec %s stopped with %s:\n%s' % (module, r.violated_name, r.raw[-5000:]))
        try:
            os.unlink(path)
        except OSError:
            pass
        return r

    def judge(self, module, events, cfg=None, name=None, chunk=None, **kw):
        """O-binding helper: `events` is a list of dicts; the Trace module prints
        <<"REJECT", idx, clause>> for every rejected event and <<"DONE", n>> at the end.
        Returns list of (idx0, clause)."""
        rejects = []
        chunk = chunk or len(events) or 1
        base = 0
        max_bytes = kw.pop('max_bytes', 24 << 20)        # bound the JSON one TLC run has to deserialise
        while base < len(events) or (base == 0 and not events):
            part = events[base:base + chunk]
            if len(part) > 1:
                tot, keep = 0, 0
                for e_ in part:
                    tot += _approx_size(e_)
                    if keep and tot > max_bytes:
                        break
                    keep += 1
                part = part[:keep]
            r = self.trace(module, {'events': part}, cfg=cfg, name=name, **kw)
            done = [p for p in r.prints if isinstance(p, list) and p and p[0] == 'DONE']
            if not done or done[-1][1] != len(part):
                raise MachineryError('trace spec %s did not consume the whole batch (%s of %d)\n%s'
                                     % (module, done[-1][1] if done else None, len(part), r.raw[-3000:]))
            for p in r.prints:
                if isinstance(p, list) and p and p[0] == 'REJECT':
                    rejects.append((base + p[1] - 1, p[2]) + tuple(p[3:]))
            base += len(part) if part else chunk
            if not events:
                break
        return rejects

    def selftest(self, judge_fn, good_events, corruptions, what):
        """Binding demonstration: take accepted events, corrupt ONE recorded field each, and require the trace spec to reject
        every corrupted copy. judge_fn(list of events) -> list of (idx, clause, ...). A corruption is (name, fn) where fn gets a deep
        copy of an event and returns the corrupted event or None if it does not apply to that event."""
        import copy as _copy
        batch, names = [], []
        for name, fn in corruptions:
            for e in good_events:
                c = fn(_copy.deepcopy(e))
                if c is not None:
                    batch.append(c)
                    names.append(name)
                    break
            else:
                raise MachineryError('self-test %s: corruption %r applies to no recorded event' % (what, name))
        rej = {r[0] for r in judge_fn(batch)}
        missed = [names[i] for i in range(len(batch)) if i not in rej]
        if missed:
            raise MachineryError('self-test %s: the trace spec ACCEPTED corrupted events: %s' % (what, missed))
        self.extra.setdefault('selftest_corruptions_rejected', []).extend(names)

    # ---- verdicts ----------------------------------------------------------------------------
    def case(self, key):
        self.evaluations += 1
        self.distinct_cases.add(key if isinstance(key, (str, int, tuple)) else json.dumps(key, sort_keys=True))

    def sample(self, obj, limit=6):
        if len(self.samples) < limit:
            self.samples.append(obj)

    def violation(self, clause, key, detail):
        """Report a failed clause. `key` is the discriminating input class (string) matched against
        known_findings.jsonl; `detail` is a JSON-able replay description."""
        for k in self.known:
            if k.get('clause') == clause and k.get('key') == key:
                self.known_hits[(clause, key)] = self.known_hits.get((clause, key), 0) + 1
                return False
        self.violations.append((clause, key, detail))
        return True

    def note(self, text):
        if text not in self.notes:
            self.notes.append(text)

    # ---- finish ------------------------------------------------------------------------------
    def finish(self, level='model_checking', rule='', exhaustive=False):
        os.makedirs(EVIDENCE_DIR, exist_ok=True)
        wall = time.time() - self.t0
        for (clause, key), n in sorted(self.known_hits.items()):
            what = next((k.get('what', '') for k in self.known if k.get('clause') == clause and k.get('key') == key), '')
            print('KNOWN-FINDING: property=%s clause=%s key=%s hits=%d %s' % (self.pid, clause, key, n, what))
        replay_paths = []
        seen = set()
        for clause, key, detail in self.violations:
            if (clause, key) in seen and len(replay_paths) >= 5:
                continue
            seen.add((clause, key))
            os.makedirs(REPLAY_DIR, exist_ok=True)
            blob = json.dumps({'property': self.pid, 'clause': clause, 'key': key, 'detail': detail,
                               'tier': self.tier, 'seed': self.seed}, sort_keys=True, default=str)
            h = hashlib.sha256(blob.encode()).hexdigest()[:12]
            path = os.path.join(REPLAY_DIR, '%s-%s.json' % (self.pid, h))
            with open(path, 'w') as f:
                f.write(blob)
            replay_paths.append(path)
            print('VIOLATION property=%s replay=%s clause=%s key=%s' % (self.pid, path, clause, key))
            if len(replay_paths) >= 25:
                break
        cov = {
            'states': max(self.states, 0),
            'transitions': max(self.transitions, 0),
            'traces_validated_against_impl': self.traces,
            'samples': self.samples[:8] or ['(no sample recorded)'],
            'evaluations': self.evaluations,
            'distinct_nontrivial': len(self.distinct_cases),
            'rule': rule,
            'exhaustive': bool(exhaustive),
            'tlc_runs': self.models,
            'action_coverage': {k: {'distinct': v[0], 'total': v[1]} for k, v in sorted(self.coverage.items())},
            'known_findings_hit': [{'clause': c, 'key': k, 'hits': n} for (c, k), n in sorted(self.known_hits.items())],
            'notes': self.notes,
        }
        vc = {}
        for clause, key, _ in self.violations:
            vc[clause + ' | ' + key] = vc.get(clause + ' | ' + key, 0) + 1
        cov['violation_classes'] = vc
        cov.update(self.extra)
        ev = {
            'property_id': self.pid,
            'tier': self.tier,
            'seed': int(self.seed),
            'level': level,
            'coverage': cov,
            'assumptions': self.assumptions,
            'wall_s': round(wall, 2),
            'violations': len(self.violations),
        }
        with open(os.path.join(EVIDENCE_DIR, self.pid + '.json'), 'w') as f:
            json.dump(ev, f, indent=1, default=str)
        shutil.rmtree(self.work, ignore_errors=True)
        print('%s tier=%s seed=%d states=%d transitions=%d traces=%d evaluations=%d violations=%d known=%d wall=%.1fs'
              % (self.pid, self.tier, self.seed, self.states, self.transitions, self.traces, self.evaluations,
                 len(self.violations), sum(self.known_hits.values()), wall))
        return 1 if self.violations else 0

    def abort(self):
        shutil.rmtree(self.work, ignore_errors=True)


def import_pgpy():
    """Import pgpy from the tree under verification (VERIF_REPO, default /repo) - never from
    whatever happens to be installed."""
    if REPO not in sys.path:
        sys.path.insert(0, REPO)
    import pgpy
    got = os.path.dirname(os.path.dirname(os.path.abspath(pgpy.__file__)))
    if os.path.realpath(got) != os.path.realpath(REPO):
        raise MachineryError('pgpy imported from %s, expected %s' % (got, REPO))
    os.environ.setdefault('PGPY_VERIF', '1')
    return pgpy
