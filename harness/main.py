import argparse
import logging
import importlib
import json
import os
import sys
import traceback

from . import common


def main():
    ap = argparse.ArgumentParser()
    ap.add_argument('pid')
    ap.add_argument('--tier', default=os.environ.get('VERIF_TIER', 'quick'), choices=['quick', 'thorough'])
    ap.add_argument('--seed', type=int, default=int(os.environ.get('VERIF_SEED', '0') or 0))
    ap.add_argument('--replay', default=None)
    a = ap.parse_args()
    logging.disable(logging.CRITICAL)
    pid = a.pid.upper()
    try:
        mod = importlib.import_module('harness.props.' + pid.lower())
    except ImportError:
        traceback.print_exc()
        print('MACHINERY-FAILURE: no driver for %s' % pid)
        return 2
    ctx = common.Ctx(pid, a.tier, a.seed)
    # watchdog: a check that does not come to an end (an endless loop in the code under test, a TLC run that never finishes) is a machinery
    # failure with a message, not a silent hang. Limits are several times the slowest run observed (quick 5 min, thorough 35 min).
    limit = int(os.environ.get('VERIF_WATCHDOG', '3600' if a.tier == 'quick' else '21600'))

    def _watchdog():
        print('MACHINERY-FAILURE: watchdog - %s (%s tier) did not finish within %d s' % (pid, a.tier, limit), flush=True)
        try:
            import subprocess
            subprocess.run(['pkill', '-9', '-P', str(os.getpid())])      # a TLC run still going on
            ctx.abort()
        finally:
            os._exit(2)
    import threading
    wd = threading.Timer(limit, _watchdog)
    wd.daemon = True
    wd.start()
    try:
        if a.replay:
            with open(a.replay) as f:
                rep = json.load(f)
            print('replaying %s: clause=%s key=%s' % (a.replay, rep.get('clause'), rep.get('key')))
            rc = mod.replay(ctx, rep)
            if rc in (0, 1) and getattr(mod, 'REPLAY_EXACT', False):
                ctx.abort()
                return rc
            # generic replay: re-run the recorded tier / seed of the check against the current tree and report whether the same
            # (clause, key) is reported again
            ctx.abort()
            ctx2 = common.Ctx(pid, rep.get('tier', 'quick'), int(rep.get('seed', 0)))
            ctx2.known = []                      # known findings do not hide anything in a replay
            mod.run(ctx2)
            same = [v for v in ctx2.violations if v[0] == rep.get('clause') and v[1] == rep.get('key')]
            print('REPLAY %s: clause=%s key=%s (%d matching violation(s) on the current tree)' % ('REPRODUCED' if same else 'not reproduced', rep.get('clause'), rep.get('key'), len(same)))
            return 1 if same else 0
        return mod.run(ctx)
    except common.MachineryError as ex:
        ctx.abort()
        print('MACHINERY-FAILURE: %s' % ex)
        return 2
    except Exception:
        ctx.abort()
        traceback.print_exc()
        print('MACHINERY-FAILURE: harness exception')
        return 2


if __name__ == '__main__':
    sys.exit(main())
