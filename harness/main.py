import argparse
import logging
import importlib
import json
import os
import sys
import traceback

from . import common


def main():
    ap = argparse.ArgumentParser()
    ap.add_argument('pid')
    ap.add_argument('--tier', default=os.environ.get('VERIF_TIER', 'quick'), choices=['quick', 'thorough'])
    ap.add_argument('--seed', type=int, default=int(os.environ.get('VERIF_SEED', '0') or 0))
    ap.add_argument('--replay', default=None)
    a = ap.parse_args()
    logging.disable(logging.CRITICAL)
    pid = a.pid.upper()
    try:
        mod = importlib.import_module('harness.props.' + pid.lower())
    except ImportError:
        traceback.print_exc()
        print('MACHINERY-FAILURE: no driver for %s' % pid)
        return 2
    ctx = common.Ctx(pid, a.tier, a.seed)
    try:
        if a.replay:
            with open(a.replay) as f:
                rep = json.load(f)
            rc = mod.replay(ctx, rep)
            ctx.abort()
            return rc
        return mod.run(ctx)
    except common.MachineryError as ex:
        ctx.abort()
        print('MACHINERY-FAILURE: %s' % ex)
        return 2
    except Exception:
        ctx.abort()
        traceback.print_exc()
        print('MACHINERY-FAILURE: harness exception')
        return 2


if __name__ == '__main__':
    sys.exit(main())
