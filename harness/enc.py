"""Independent RFC 4880 / RFC 6637 encryptor and decryptor on primitives only (cryptography, hashlib).
Every step logs the primitive inputs / outputs it used so that TLC can check them against the layout
specification (spec/Encrypt.tla). Nothing here imports pgpy."""
import hashlib
import os
import struct

from cryptography.hazmat.primitives import hashes, serialization
from cryptography.hazmat.primitives.asymmetric import ec, padding, rsa, x25519
from cryptography.hazmat.primitives.ciphers import Cipher, algorithms, modes
from cryptography.hazmat.primitives.keywrap import aes_key_unwrap, aes_key_wrap

from . import build

SYM = {2: ('TripleDES', algorithms.TripleDES, 24, 8), 3: ('CAST5', algorithms.CAST5, 16, 8), 4: ('Blowfish', algorithms.Blowfish, 16, 8),
       7: ('AES128', algorithms.AES, 16, 16), 8: ('AES192', algorithms.AES, 24, 16), 9: ('AES256', algorithms.AES, 32, 16),
       11: ('Camellia128', algorithms.Camellia, 16, 16), 12: ('Camellia192', algorithms.Camellia, 24, 16), 13: ('Camellia256', algorithms.Camellia, 32, 16)}
HASHN = {1: 'md5', 2: 'sha1', 3: 'ripemd160', 8: 'sha256', 9: 'sha384', 10: 'sha512', 11: 'sha224'}


def cfb(alg, key, data, decrypt, iv=None):
    name, cls, kl, bs = SYM[alg]
    iv = iv if iv is not None else b'\x00' * bs
    c = Cipher(cls(bytes(key)), modes.CFB(iv))
    op = c.decryptor() if decrypt else c.encryptor()
    return op.update(bytes(data)) + op.finalize()


def s2k_derive(spec, hid, salt, c, pw, keylen):
    """proposal (validated separately by C12)."""
    h = HASHN[hid]
    unit = pw if spec == 0 else salt + pw
    n = len(unit)
    if spec == 3:
        n = max((16 + (c & 15)) << ((c >> 4) + 6), len(unit))
    stream = (unit * (n // max(len(unit), 1) + 1))[:n] if unit else b''
    out = b''
    i = 0
    while len(out) < keylen:
        out += hashlib.new(h, b'\x00' * i + stream).digest()
        i += 1
    return out[:keylen]


def mpi_at(b, p):
    bits = (b[p] << 8) | b[p + 1]
    n = (bits + 7) // 8
    return bytes(b[p + 2:p + 2 + n]), p + 2 + n


class Recipient(object):
    """a foreign key pair that can decrypt (RSA, X25519, NIST ECDH)."""

    def __init__(self, kind, created=1262304000, kdf=None, raw_private=None):
        """kdf: (hash id, cipher id) of the RFC 6637 KDF parameter field; default: the per-curve values GnuPG / PGPy generate."""
        self.kind = kind
        self.created = created
        if kind.startswith('rsa'):
            self.priv = rsa.generate_private_key(public_exponent=65537, key_size=int(kind[3:]))
            n = self.priv.public_key().public_numbers()
            self.alg = 1
            self.material = build.mpi(n.n) + build.mpi(n.e)
        elif kind == 'cv25519':
            # raw_private: the 32 octets of the secret as stored (not necessarily clamped: readers clamp when they use it)
            self.priv = x25519.X25519PrivateKey.generate() if raw_private is None else x25519.X25519PrivateKey.from_private_bytes(raw_private)
            raw = self.priv.public_key().public_bytes(serialization.Encoding.Raw, serialization.PublicFormat.Raw)
            self.alg = 18
            self.oid = build.OID['cv25519']
            self.kdf = kdf or (8, 7)
            self.material = bytes([len(self.oid)]) + self.oid + build.mpi_bytes(b'\x40' + raw) + bytes([3, 1, self.kdf[0], self.kdf[1]])
        else:
            curve = {'ecdh256': ('p256', (8, 7)), 'ecdh384': ('p384', (9, 8)), 'ecdh521': ('p521', (10, 9))}[kind]
            self.priv = ec.generate_private_key(build.CURVE[curve[0]]()) if raw_private is None else ec.derive_private_key(int.from_bytes(raw_private, 'big'), build.CURVE[curve[0]]())
            nums = self.priv.public_key().public_numbers()
            sz = (self.priv.curve.key_size + 7) // 8
            self.alg = 18
            self.oid = build.OID[curve[0]]
            self.kdf = kdf or curve[1]
            self.material = bytes([len(self.oid)]) + self.oid + build.mpi_bytes(b'\x04' + nums.x.to_bytes(sz, 'big') + nums.y.to_bytes(sz, 'big')) + bytes([3, 1, self.kdf[0], self.kdf[1]])

    @property
    def pub_body(self):
        return b'\x04' + struct.pack('>I', self.created) + bytes([self.alg]) + self.material

    @property
    def fingerprint(self):
        b = self.pub_body
        return hashlib.sha1(b'\x99' + struct.pack('>H', len(b)) + b).digest()

    @property
    def keyid(self):
        return self.fingerprint[-8:]

    def secret_body(self):
        if self.alg == 1:
            n = self.priv.private_numbers()
            sm = build.mpi(n.d) + build.mpi(n.p) + build.mpi(n.q) + build.mpi(pow(n.p, -1, n.q))
        elif self.kind == 'cv25519':
            raw = self.priv.private_bytes(serialization.Encoding.Raw, serialization.PrivateFormat.Raw, serialization.NoEncryption())
            sm = build.mpi_bytes(raw[::-1])
        else:
            sm = build.mpi(self.priv.private_numbers().private_value)
        return self.pub_body + b'\x00' + sm + struct.pack('>H', sum(sm) & 0xFFFF)

    # ---- unwrap a PKESK body; returns (m, log)
    def unwrap(self, body):
        rest = body[10:]
        log = {}
        if self.alg == 1:
            c, _ = mpi_at(rest, 0)
            k = (self.priv.key_size + 7) // 8
            m = self.priv.decrypt(b'\x00' * (k - len(c)) + c, padding.PKCS1v15())
            log['kind'] = 'rsa'
            return m, log
        pt, p = mpi_at(rest, 0)
        n = rest[p]
        wrapped = bytes(rest[p + 1:p + 1 + n])
        if self.kind == 'cv25519':
            shared = self.priv.exchange(x25519.X25519PublicKey.from_public_bytes(pt[1:]))
        else:
            sz = (self.priv.curve.key_size + 7) // 8
            pubn = ec.EllipticCurvePublicNumbers(int.from_bytes(pt[1:1 + sz], 'big'), int.from_bytes(pt[1 + sz:], 'big'), self.priv.curve)
            shared = self.priv.exchange(ec.ECDH(), pubn.public_key())
        param = bytes([len(self.oid)]) + self.oid + bytes([18, 3, 1, self.kdf[0], self.kdf[1]]) + b'Anonymous Sender    ' + self.fingerprint
        kin = b'\x00\x00\x00\x01' + shared + param
        z = hashlib.new(HASHN[self.kdf[0]], kin).digest()[:SYM[self.kdf[1]][2]]
        padded = aes_key_unwrap(z, wrapped)
        log.update({'kind': 'ecdh', 'shared': list(shared), 'param': list(param), 'kdf_input': list(kin), 'z': list(z), 'padded': list(padded)})
        return padded, log


def decrypt_message(blob, recipient=None, passphrase=None):
    """Independent decryption of an encrypted message. Returns (inner packet octets, log) or raises ValueError.
    log carries every value TLC needs to check the layout. Every ESK packet that could belong to the caller is tried;
    the first whose session key opens the container with a valid integrity check is used (and is the only one logged)."""
    pk = build.read_packets(blob)
    container = pk[-1]
    if container[0] != 18:
        raise ValueError('no SEIPD container')
    candidates = []
    for tag, body, raw in pk[:-1]:
        try:
            if tag == 1 and recipient is not None and bytes(body[1:9]) == recipient.keyid:
                m, l = recipient.unwrap(body)
                l.update({'wire': list(body), 'm': list(m)})
                if l['kind'] == 'ecdh':
                    pad = m[-1]
                    m = m[:-pad]
                    l['m'] = list(m)
                candidates.append((l, m[0], bytes(m[1:-2])))
            elif tag == 3 and passphrase is not None:
                alg = body[1]
                spec = body[2]
                hid = body[3]
                salt = bytes(body[4:12]) if spec in (1, 3) else b''
                c = body[12] if spec == 3 else 0
                sl = {0: 2, 1: 10, 3: 11}[spec]
                esk = bytes(body[2 + sl:])
                key = s2k_derive(spec, hid, salt, c, passphrase, SYM[alg][2])
                l = {'kind': 'skesk', 'wire': list(body), 's2k_key': list(key)}
                if esk:
                    m = cfb(alg, key, esk, True)
                    l['m'] = list(m)
                    candidates.append((l, m[0], bytes(m[1:])))
                else:
                    l['m'] = []
                    candidates.append((l, alg, key))
        except Exception:
            continue
    if not candidates:
        raise ValueError('no usable session key packet')
    ct = bytes(container[1][1:])
    for l, alg, sk in candidates:
        if alg not in SYM or len(sk) != SYM[alg][2]:
            continue
        pt = cfb(alg, sk, ct, True)
        bs = SYM[alg][3]
        if len(pt) < bs + 24 or pt[bs:bs + 2] != pt[bs - 2:bs] or pt[-22:-20] != b'\xd3\x14' or hashlib.sha1(pt[:-20]).digest() != pt[-20:]:
            continue
        log = {'esk': [l], 'seipd': {'alg': alg, 'bs': bs, 'version': container[1][0], 'pt': list(pt), 'sk': list(sk),
                                      'sha1_over_all_but_last_20': list(hashlib.sha1(pt[:-20]).digest())}}
        return pt[bs + 2:-22], log
    raise ValueError('integrity check failed for every candidate session key')


def encrypt_message(inner, alg, recipients=(), passphrases=(), sk=None, s2k=(3, 8, 96), fmt='new', partial=False, esk_plain_session=False,
                    zero_lead_shared=False, pad40=False, skesk_alg=None, final_len=None):
    """Independent encryption. recipients: list of dicts describing public keys:
       {'kind': 'rsa', 'keyid': b8, 'n': int, 'e': int} or {'kind': 'ecdh', 'keyid', 'oid', 'curve': name|'cv25519', 'point': bytes, 'kdf': (h, k), 'fpr': b20}.
    Returns (blob, log)."""
    name, cls, kl, bs = SYM[alg]
    sk = sk if sk is not None else os.urandom(kl)
    log = {'sk': list(sk), 'alg': alg, 'esk': []}
    out = b''
    block = bytes([alg]) + sk + struct.pack('>H', sum(sk) & 0xFFFF)
    for r in recipients:
        if r['kind'] == 'rsa':
            pub = rsa.RSAPublicNumbers(r['e'], r['n']).public_key()
            c = pub.encrypt(block, padding.PKCS1v15())
            if zero_lead_shared:
                # the RSA integer begins with a zero octet (about one encryption in 256): its MPI is shorter than the modulus
                for _try in range(20000):
                    if c[0] == 0:
                        break
                    c = pub.encrypt(block, padding.PKCS1v15())
            body = b'\x03' + r['keyid'] + b'\x01' + build.mpi(int.from_bytes(c, 'big'))
            log['esk'].append({'kind': 'rsa', 'wire': list(body), 'm': list(block)})
        else:
            pad = (40 - len(block)) if (pad40 and len(block) < 40) else (8 - len(block) % 8)
            padded = block + bytes([pad]) * pad
            for _try in range(20000):
                if r['curve'] == 'cv25519':
                    eph = x25519.X25519PrivateKey.generate()
                    shared = eph.exchange(x25519.X25519PublicKey.from_public_bytes(r['point'][1:]))
                    vb = b'\x40' + eph.public_key().public_bytes(serialization.Encoding.Raw, serialization.PublicFormat.Raw)
                else:
                    curve = build.CURVE[r['curve']]()
                    sz = (curve.key_size + 7) // 8
                    eph = ec.generate_private_key(curve)
                    pubn = ec.EllipticCurvePublicNumbers(int.from_bytes(r['point'][1:1 + sz], 'big'), int.from_bytes(r['point'][1 + sz:], 'big'), curve)
                    shared = eph.exchange(ec.ECDH(), pubn.public_key())
                    en = eph.public_key().public_numbers()
                    vb = b'\x04' + en.x.to_bytes(sz, 'big') + en.y.to_bytes(sz, 'big')
                if not zero_lead_shared or shared[0] == 0:
                    break                      # (optionally) an ephemeral key whose shared secret starts with a zero octet
            param = bytes([len(r['oid'])]) + r['oid'] + bytes([18, 3, 1, r['kdf'][0], r['kdf'][1]]) + b'Anonymous Sender    ' + r['fpr']
            kin = b'\x00\x00\x00\x01' + shared + param
            z = hashlib.new(HASHN[r['kdf'][0]], kin).digest()[:SYM[r['kdf'][1]][2]]
            wrapped = aes_key_wrap(z, padded)
            body = b'\x03' + r['keyid'] + b'\x12' + build.mpi_bytes(vb) + bytes([len(wrapped)]) + wrapped
            log['esk'].append({'kind': 'ecdh', 'wire': list(body), 'm': list(block), 'padded': list(padded), 'shared': list(shared), 'param': list(param),
                               'kdf_input': list(kin), 'z': list(z)})
        out += build.pkt(1, body, fmt=fmt)
    for pw in passphrases:
        spec, hid, c = s2k
        salt = os.urandom(8) if spec in (1, 3) else b''
        # the cipher of the SKESK packet (under which the session key is wrapped) may differ from the cipher of the data (RFC 4880 5.3)
        walg = skesk_alg if (skesk_alg is not None and not (esk_plain_session and len(passphrases) == 1 and not recipients)) else alg
        key = s2k_derive(spec, hid, salt, c, pw, SYM[walg][2])
        spec_bytes = bytes([spec, hid]) + salt + (bytes([c]) if spec == 3 else b'')
        if esk_plain_session and len(passphrases) == 1 and not recipients:
            # the S2K output IS the session key (no encrypted session key field)
            sk = key
            log['sk'] = list(sk)
            body = bytes([4, alg]) + spec_bytes
            log['esk'].append({'kind': 'skesk', 'wire': list(body), 's2k_key': list(key), 'm': []})
        else:
            m = bytes([alg]) + sk
            body = bytes([4, walg]) + spec_bytes + cfb(walg, key, m, False)
            log['esk'].append({'kind': 'skesk', 'wire': list(body), 's2k_key': list(key), 'm': list(m)})
        out += build.pkt(3, body, fmt=fmt)
    prefix = os.urandom(bs)
    pt = prefix + prefix[-2:] + inner + b'\xd3\x14'
    pt += hashlib.sha1(pt).digest()
    ct = cfb(alg, sk, pt, False)
    log['seipd'] = {'alg': alg, 'bs': bs, 'version': 1, 'pt': list(pt), 'sk': list(sk), 'sha1_over_all_but_last_20': list(pt[-20:])}
    body = b'\x01' + ct
    chunks = [9, 9] if partial and len(body) > 1100 else None
    if final_len is not None and len(body) - final_len >= 512:
        # partial body lengths such that the FINAL (definite) length is exactly final_len: the rest in decreasing powers of two, first >= 512
        rest = len(body) - final_len
        chunks = [k for k in range(30, -1, -1) if rest & (1 << k)]
    out += build.pkt(18, body, fmt='new', chunks=chunks)
    return out, log
