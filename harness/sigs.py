"""Shared recording helpers for the signature properties (C01, C02, C05): blob table, subject descriptors,
verification attempts on real PGPy objects."""
import hashlib
import struct
import warnings

from . import build
from .common import import_pgpy, octets


class Blobs(object):
    def __init__(self):
        self.table = []
        self.index = {}

    def add(self, b):
        b = bytes(b)
        if b not in self.index:
            self.table.append(octets(b))
            self.index[b] = len(self.table)
        return self.index[b]

    def doc(self, events):
        return {'blobs': self.table, 'events': events}


def judge(ctx, blobs, events, chunk=4000):
    """Run Trace_Sig over the events (blob table shared by all chunks). Returns [(idx, clause)]."""
    from .common import MachineryError
    rej = []
    base = 0
    while base < len(events):
        part = events[base:base + chunk]
        # only ship the blobs this chunk needs (renumbered)
        used = {}
        tab = []

        def ren(v):
            if v == 0:
                return 0
            if v not in used:
                tab.append(blobs.table[v - 1])
                used[v] = len(tab)
            return used[v]

        def walk(o):
            if isinstance(o, dict):
                return {k: (ren(v) if k in BLOBKEYS and isinstance(v, int) else walk(v)) for k, v in o.items()}
            if isinstance(o, list):
                return [walk(x) for x in o]
            return o
        part2 = [walk(e) for e in part]
        r = ctx.trace('Trace_Sig', {'blobs': tab, 'events': part2}, name='sig-%d' % base)
        done = [p for p in r.prints if isinstance(p, list) and p and p[0] == 'DONE']
        if not done or done[-1][1] != len(part):
            raise MachineryError('Trace_Sig did not consume its batch: %s\n%s' % (done, r.raw[-3000:]))
        for p in r.prints:
            if isinstance(p, list) and p and p[0] == 'REJECT':
                rej.append((base + p[1] - 1, p[2]))
        base += chunk
    for idx, clause in rej:
        if clause.startswith('harness.'):
            raise MachineryError('TLC rejected harness-built material (%s): %r' % (clause, {k: v for k, v in events[idx].items() if k != 'blobs'}))
    return rej


BLOBKEYS = {'sig', 'osig', 'asig', 'doc', 'kb', 'skb', 'ukb', 'vkb', 'hashdata', 'hashinput', 'signed_over'}


def fpr_of_body(body):
    return hashlib.sha1(b'\x99' + struct.pack('>H', len(body)) + body).digest()


def key_index(blob, fingerprint_hex):
    """1-based index, among the key packets (tags 5,6,7,14) of an exported key, of the component with this fingerprint."""
    n = 0
    want = bytes.fromhex(str(fingerprint_hex).replace(' ', ''))
    for tag, body, raw in build.read_packets(blob):
        if tag in (5, 6, 7, 14):
            n += 1
            pl = build.pub_portion_len(body)
            if fpr_of_body(body[:pl]) == want:
                return n
    raise KeyError('component %s not in blob' % fingerprint_hex)


def uid_index(blob, uid_bytes):
    n = 0
    for tag, body, raw in build.read_packets(blob):
        if tag in (13, 17):
            n += 1
            if body == bytes(uid_bytes):
                return n
    raise KeyError('uid not in blob')


def subj_doc(blobs, doc):
    return {'doc': blobs.add(doc)}


def subj_cert(blobs, keyblob, primary_fpr, uid_bytes):
    kb = blobs.add(keyblob)
    return {'kb': kb, 'p': key_index(keyblob, primary_fpr), 'ukb': kb, 'u': uid_index(keyblob, uid_bytes)}


def subj_keys(blobs, keyblob, primary_fpr, sub_fpr, subblob=None):
    kb = blobs.add(keyblob)
    sb = blobs.add(subblob) if subblob is not None else kb
    return {'kb': kb, 'p': key_index(keyblob, primary_fpr), 'skb': sb, 's': key_index(subblob if subblob is not None else keyblob, sub_fpr)}


def subj_key(blobs, keyblob, primary_fpr):
    return {'kb': blobs.add(keyblob), 'p': key_index(keyblob, primary_fpr)}


def verify_outcome(pub, subject, sig):
    """truthy / falsy / raised for one PGPy verification."""
    with warnings.catch_warnings():
        warnings.simplefilter('ignore')
        try:
            r = pub.verify(subject, sig)
            return 'truthy' if r else 'falsy'
        except Exception:
            return 'raised'


def parse_sig(blob):
    pgpy = import_pgpy()
    with warnings.catch_warnings():
        warnings.simplefilter('ignore')
        try:
            s = pgpy.PGPSignature.from_blob(bytes(blob))
            if s._signature is None:
                return None
            return s
        except Exception:
            return None
