"""C07 - public export never carries or exercises secret material.

Spec: spec/KeyProtect.tla + spec/Packets.tla (KeyBodies / PubPortion / IsPublicKeyBody), models/Trace_KeyLife (FOCUS=C07).
Rides on the C06 life-cycle behaviours: at EVERY step of every replayed behaviour (unprotected, locked, unlocked, after
exceptions...) the public counterpart is derived afresh, exported binary and armored, and TLC checks: only tags
{6, 14, 13, 17, 2}; every key packet body is exactly the public portion of the private one (same fingerprints); same user
ids / attributes and exportable signatures; no secret integer in the binary or de-armored export; every private
operation on the derived and on the re-loaded public key refuses.
"""
import warnings

from .. import keylife
from ..common import import_pgpy


def run(ctx):
    import_pgpy()
    ctx.assumptions += ['TLC/SANY', 'JSON marshalling', 'secret integers are taken from the unprotected export of the same key (harness packet reader)',
                        'public twins derived earlier and kept are not required to follow later changes (only key.pubkey taken now is)']
    warnings.simplefilter('ignore')
    ctx.model('MC_KeyProtect')
    traces, rej = keylife.generate(ctx, 'C07')
    for tid, clause, step in rej:
        t = traces[tid]
        b = t['behaviour'][:step]
        o = t['events'][step - 1]['obs']['pub']
        ctx.violation(clause, 'alg=%s protection-state-after=%s' % (t['meta']['alg'], b[-1][0]), {'behaviour': b, 'pub': {k: v for k, v in o.items() if k not in ('blob', 'uids')}})
    # ---- public counterparts along key-management histories (identities added / removed / re-certified, subkeys added, revocations),
    #      with earlier twins kept alive by the caller: key.pubkey taken NOW must reflect the key as it is now
    from .. import certlife
    ctraces, crej = certlife.generate(ctx, 'C07')
    for t, clause, step, vw in crej:
        tr = ctraces[t]
        hist = [(e['act']['op'], e['act']['a'], e['act']['tag']) for e in tr[:step]]
        ctx.violation(clause, 'key-management history, last-op=%s view=%s' % (hist[-1][0], vw), {'history': hist, 'view': vw})
    return ctx.finish(level='model_checking',
                      rule='the public counterpart observed after every step of every life-cycle behaviour of C06 (all action sequences to depth 3-5 on Ed25519, '
                           'samples on RSA / ECDSA+ECDH / DSA keys with subkeys, user attributes absent, third-party and non-exportable certifications present)',
                      exhaustive=not ctx.quick)


def replay(ctx, rep):
    print(rep['detail'])
    return 0
