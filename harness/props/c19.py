"""C19 - keyring index stays consistent over any load / unload history.

Spec: spec/Keyring.tla (property), spec/KeyringImpl.tla (algorithm, one operator per Python branch).
  MC_KeyringImpl          KeyringImpl implements Keyring (Consistent, NoDangling, Complete) exhaustively;
                          spec mutation Fixed=FALSE (the code as found) must give a counterexample
  Gen_Keyring             every behaviour of Keyring up to depth D + simulated deep walks (binding G),
                          replayed on a real pgpy.PGPKeyring with real keys
  Trace_C19               every replayed / random history recorded and validated by TLC (binding V)
"""
import os
import tempfile
from datetime import datetime, timezone

from ..common import MachineryError, import_pgpy


def spaced(fp):
    s = str(fp)
    return ' '.join(s[i:i + 4] for i in range(0, len(s), 4))


class Universe(object):
    """Real keys: four primaries x two halves; K0/K1 share name+e-mail, K3 shares name+comment with K0,
    K2 shares only the comment and has an encryption subkey and a signing subkey; K0 and K3 are created in the same second."""

    def __init__(self, extra=0):
        pgpy = import_pgpy()
        from pgpy.constants import PubKeyAlgorithm, KeyFlags, HashAlgorithm, SymmetricKeyAlgorithm, CompressionAlgorithm, EllipticCurveOID
        self.pgpy = pgpy
        # K0's comment differs from the others' only by a space: an identifier is looked up as it is before any space-insensitive form
        spec = [('K0', 'Alice', 'c 1', 'a@x.org', 1000), ('K1', 'Alice', 'dead beef 01', 'a@x.org', 2000),       # a comment of hex digits in groups: looked up as it is, like any other text
                ('K2', 'Bob', 'c1', 'b@x.org', 3000), ('K3', 'Alice', 'c1', 'c@x.org', 1000)]
        for j in range(extra):
            spec.append(('K%d' % (4 + j), ['Alice', 'Bob', 'Carol'][j % 3], ['c1', '', 'c3'][j % 3], ['a@x.org', 'd%d@x.org' % j][j % 2], 1000 * (j % 3) + 500))
        self.priv = {}
        self.comp = {}     # component class id -> {'aliases': [...], 'fpr': str}
        self.inst = {}     # instance id -> [component class ids]
        self.obj = {}      # instance id -> PGPKey object
        self.blob = {}
        for name, pn, comment, email, t in spec:
            k = pgpy.PGPKey.new(PubKeyAlgorithm.EdDSA, EllipticCurveOID.Ed25519, created=datetime.fromtimestamp(t, timezone.utc))
            uid = pgpy.PGPUID.new(pn, comment=comment, email=email)
            k.add_uid(uid, usage={KeyFlags.Sign, KeyFlags.Certify}, hashes=[HashAlgorithm.SHA256],
                      ciphers=[SymmetricKeyAlgorithm.AES128], compression=[CompressionAlgorithm.Uncompressed])
            if name == 'K2':
                sk = pgpy.PGPKey.new(PubKeyAlgorithm.ECDH, EllipticCurveOID.Curve25519, created=datetime.fromtimestamp(t + 5, timezone.utc))
                k.add_subkey(sk, usage={KeyFlags.EncryptCommunications})
                sk2 = pgpy.PGPKey.new(PubKeyAlgorithm.EdDSA, EllipticCurveOID.Ed25519, created=datetime.fromtimestamp(t + 6, timezone.utc))
                k.add_subkey(sk2, usage={KeyFlags.Sign})
            if name == 'K1':
                # a second key with an encryption subkey: messages to two recipients
                sk = pgpy.PGPKey.new(PubKeyAlgorithm.ECDH, EllipticCurveOID.Curve25519, created=datetime.fromtimestamp(t + 5, timezone.utc))
                k.add_subkey(sk, usage={KeyFlags.EncryptCommunications})
            self.priv[name] = k
            for half, key in (('s', k), ('p', k.pubkey)):
                cid = name + half
                ids = [cid]
                self._comp(cid, key, [pn, comment, email])
                for n, sub in enumerate(key.subkeys.values()):
                    scid = '%s/%d' % (cid, n + 1)
                    self._comp(scid, sub, [])
                    ids.append(scid)
                self.inst[cid] = ids
                self.obj[cid] = key
                self.blob[cid] = (bytes(key), str(key))
        # special identifiers: a signature issued by K1, by K2's signing subkey; a message encrypted to K2's subkey
        self.special = {}
        s1 = self.priv['K1'].sign('hello')
        self.special['sig:K1'] = s1
        for c in ('K1s', 'K1p'):
            self.comp[c]['aliases'].append('sig:K1')
        k2 = self.priv['K2']
        s2 = k2.sign('hello')            # uses the primary (it can sign)
        self.special['sig:K2'] = s2
        signer = s2.signer
        for c, v in self.comp.items():
            if v['keyid'] == signer:
                v['aliases'].append('sig:K2')
        msg = pgpy.PGPMessage.new('secret')
        enc = k2.pubkey.encrypt(msg)
        self.special['msg:K2'] = enc
        tgt = set(enc.encrypters)
        for c, v in self.comp.items():
            if v['keyid'] in tgt:
                v['aliases'].append('msg:K2')
        # a message encrypted to K1 and to K2 (two recipients): with the public half of one and the secret half of the other loaded, the
        # selection is the one that can decrypt; built in both recipient orders
        for tag_, (ka, kb) in (('msg:K1+K2', ('K1', 'K2')), ('msg:K2+K1', ('K2', 'K1'))):
            m2 = self.priv[ka].pubkey.encrypt(pgpy.PGPMessage.new('for two'), sessionkey=bytes(range(32)), cipher=SymmetricKeyAlgorithm.AES256)
            m2 = self.priv[kb].pubkey.encrypt(m2, sessionkey=bytes(range(32)), cipher=SymmetricKeyAlgorithm.AES256)
            self.special[tag_] = m2
            for c, v in self.comp.items():
                if v['keyid'] in set(m2.encrypters):
                    v['aliases'].append(tag_)
        self.decrypt_idents = ['msg:K2', 'msg:K1+K2', 'msg:K2+K1']
        # a message signed by K1 and by K2 (two issuers): selected by whichever of them is loaded
        sm = pgpy.PGPMessage.new('signed by two')
        sm |= self.priv['K1'].sign(sm)
        sm |= k2.sign(sm)
        self.special['smsg:K1+K2'] = sm
        for c, v in self.comp.items():
            if v['keyid'] in set(sm.signers):
                v['aliases'].append('smsg:K1+K2')
        self.idents = sorted({a for v in self.comp.values() for a in v['aliases']})
        # absent identifiers (belong to no key of the universe)
        self.idents += ['Nobody', 'zz@nowhere', 'DEADBEEFDEADBEEF', 'deadbeef01']
        self.by_fpr_half = {(v['fpr'], c.split('/')[0][-1] == 'p'): c for c, v in self.comp.items()}

    def _comp(self, cid, key, words):
        fp = key.fingerprint
        al = [str(fp), fp.keyid, fp.shortid, spaced(fp)] + [w for w in words if w]
        self.comp[cid] = {'aliases': al, 'fpr': str(fp), 'keyid': fp.keyid, 'secret': not key.is_public}

    def doc_universe(self, instances):
        sub = {x: x.rsplit('/', 1)[0] for x in instances if '/' in x}
        if sub:
            return {'inst': {x: ([x] if '/' in x else self.inst[x.split('#')[0]]) for x in instances}, 'owner': sub,
                    'comp': {c: {'aliases': v['aliases'], 'fpr': v['fpr'], 'secret': v['secret']} for c, v in self.comp.items()}, 'idents': self.idents,
                    'decrypt_idents': self.decrypt_idents}
        return {'inst': {x: self.inst[x.split('#')[0]] for x in instances},
                'comp': {c: {'aliases': v['aliases'], 'fpr': v['fpr'], 'secret': v['secret']} for c, v in self.comp.items()},
                'idents': self.idents, 'decrypt_idents': self.decrypt_idents}

    def observe(self, kr):
        sel, has = [], []
        for a in self.idents:
            ident = self.special.get(a, a)
            try:
                with kr.key(ident) as k:
                    got = self.by_fpr_half.get((str(k.fingerprint), k.is_public), 'unknown')
            except KeyError:
                got = 'none'                       # the documented way of selecting nothing
            except Exception:
                got = 'error'                      # anything else is neither a key nor "nothing"
            sel.append(got)
            if a in self.special:
                # membership of a message / signature is defined through selection
                has.append(got not in ('none', 'error'))
            else:
                try:
                    has.append(bool(a in kr))
                except Exception:
                    has.append(False)
        try:
            fprs = sorted(str(f) for f in kr.fingerprints())
        except Exception:
            fprs = ['error']
        return {'fprs': fprs, 'sel': sel, 'has': has, 'len': len(kr)}


def replay_behaviour(U, beh, tmpdir, rng=None, forms=False):
    """Execute one behaviour on a fresh PGPKeyring; returns the trace (obs only after the last step,
    or after every step when forms=True)."""
    kr = U.pgpy.PGPKeyring()
    trace = []
    objs = {}
    for n, (op, x) in enumerate(beh):
        try:
            _one_step(U, kr, objs, n, op, x, tmpdir, rng, forms)
        except MachineryError:
            raise
        except Exception as ex:
            trace.append({'op': op, 'x': x, 'raised': True, 'exc': repr(ex)[:120]})
            break
        ev = {'op': op, 'x': x}
        if forms or n == len(beh) - 1:
            ev['obs'] = U.observe(kr)
        trace.append(ev)
    return trace


def _one_step(U, kr, objs, n, op, x, tmpdir, rng, forms):
    if True:
        base = x.split('#')[0]
        if '/' in x:
            # a subkey object of the universe's key object
            o = list(U.obj[x.rsplit('/', 1)[0]].subkeys.values())[int(x.rsplit('/', 1)[1]) - 1]
            (kr.load if op == 'load' else kr.unload)(o)
            return
        if op == 'load':
            form = 'obj'
            if forms:
                form = rng.choice(['obj', 'obj', 'bin', 'asc', 'file', 'list', 'bytearray', 'armored bytearray'])
            if x in objs:
                form = 'obj'
            if form == 'obj':
                o = objs.get(x)
                if o is None and '#' not in x:
                    o = U.obj[base]
                if o is None:
                    o = U.pgpy.PGPKey.from_blob(U.blob[base][0])[0]
                objs[x] = o
                kr.load(o)
            else:
                before = set(kr._keys)
                if form == 'bin':
                    kr.load(U.blob[base][0])
                elif form == 'asc':
                    kr.load(U.blob[base][1])
                elif form == 'bytearray':
                    kr.load(bytearray(U.blob[base][0]))
                elif form == 'armored bytearray':
                    kr.load([bytearray(U.blob[base][1].encode('ascii'))])
                elif form == 'file':
                    p = os.path.join(tmpdir, 'k-%s.%s' % (base, 'asc' if n % 2 else 'gpg'))
                    with open(p, 'wb') as f:
                        f.write(U.blob[base][1].encode() if n % 2 else U.blob[base][0])
                    kr.load(p)
                else:
                    kr.load([U.blob[base][0]])
                new = [k for i_, k in kr._keys.items() if i_ not in before and k.is_primary]
                if len(new) != 1:
                    raise MachineryError('cannot identify the key object created by load(%s)' % form)
                objs[x] = new[0]
        else:
            o = objs.get(x)
            if o is None:
                o = U.obj[base]
            kr.unload(o)


def validate(ctx, U, traces, instances, label):
    doc = {'universe': U.doc_universe(instances), 'traces': traces}
    r = ctx.trace('Trace_C19', doc, name=label)
    done = [p for p in r.prints if isinstance(p, list) and p and p[0] == 'DONE']
    if not done or done[-1][1] != len(traces):
        raise MachineryError('Trace_C19 did not reach the end of the batch: %s\n%s' % (done, r.raw[-2000:]))
    rej = [p for p in r.prints if isinstance(p, list) and p and p[0] == 'REJECT']
    ctx.traces += len(traces) - len(rej)
    for p in rej:
        tid, clause, step, ident = p[1], p[2], p[3], p[4]
        tr = traces[tid - 1]
        hist = [[e['op'], e['x']] for e in tr[:step]]
        kind = 'special' if str(ident).split(':')[0] in ('sig', 'msg', 'smsg') else 'plain'
        ctx.violation(clause, 'history-class len=%d ident=%s' % (len(hist), kind), {'history': hist, 'ident': ident, 'obs': tr[step - 1].get('obs')})
    return rej


REPLAY_EXACT = True      # replay() re-executes exactly the stored case


def run(ctx):
    ctx.assumptions += ['TLC/SANY and CommunityModules', 'JSON marshalling between Python and TLC',
                        'the projection (kr.key / in / fingerprints / len through the public API; selected keys identified by (fingerprint, half))']
    # 1. design level: the algorithm spec implements the property spec
    depth = 7 if ctx.quick else 9
    cfg = open(os.path.join(os.path.dirname(__file__), '..', '..', 'models', 'MC_KeyringImpl.cfg')).read().replace('MaxDepth = 6', 'MaxDepth = %d' % depth)
    r = ctx.model('MC_KeyringImpl', constants_text=cfg, coverage=True)
    for act in ('Load', 'Unload', 'Reload', 'LoadSub', 'UnloadSub'):
        if r.coverage.get(act, (0, 0))[0] == 0:
            raise MachineryError('KeyringImpl action %s never taken' % act)
    # the algorithm as found, one switch at a time, must each be refuted: layer choice in _add_alias (Complete), the space-free fallback for
    # every kind of identifier (QueryOK), load() of a loaded key object doing nothing (LoadHoldsAll), key(message) taking any loaded
    # recipient (MsgOK)
    for mcfg in ('MC_KeyringImpl_asfound', 'MC_KeyringImpl_fallback', 'MC_KeyringImpl_reload', 'MC_KeyringImpl_anyrecipient'):
        ctx.model('MC_KeyringImpl', mcfg, must_hold=False)
    # 2. behaviours of the property spec (exhaustive to depth D, simulated deep walks)
    g = ctx.model('Gen_Keyring', 'Gen_Keyring' if ctx.quick else 'Gen_Keyring5')
    behs = [tuple(tuple(s) for s in p[1]) for p in g.prints if isinstance(p, list) and p and p[0] == 'BEH']
    want = sum(8 ** k for k in range(1, (4 if ctx.quick else 5) + 1))
    if len(set(behs)) != want:
        raise MachineryError('Gen_Keyring produced %d behaviours, expected %d' % (len(set(behs)), want))
    sims = []
    s = ctx.model('Gen_Keyring', 'Gen_KeyringSim', simulate='num=%d' % (300 if ctx.quick else 3000), depth=26, seed=ctx.seed + 1, workers=1)
    sims = sorted({tuple(tuple(st) for st in p[1]) for p in s.prints if isinstance(p, list) and p and p[0] == 'BEH'})
    # one shortest history to every distinct state of the ALGORITHM spec (every reachable alias-layer configuration)
    sc = ctx.model('Gen_KeyringImpl', workers=1)
    cover = sorted({tuple(tuple(st) for st in p[1]) for p in sc.prints if isinstance(p, list) and p and p[0] == 'BEH'})
    cover = [b for b in cover if len(b) >= 5 and (len(b) <= 5 or not ctx.quick)]
    if len(cover) > 25000:
        cover = [b for b in cover if len(b) == 5] + ctx.rng.sample([b for b in cover if len(b) > 5], 20000)
    ctx.extra['state_coverage_histories'] = len(cover)
    U = Universe()
    tmp = tempfile.mkdtemp(prefix='kr-', dir=ctx.work)
    traces = []
    # the algorithm spec's histories include subkey objects loaded / unloaded on their own and key objects loaded again
    ctraces = []
    for b in cover:
        ctraces.append(replay_behaviour(U, b, tmp))
        ctx.case(('cover', b))
    validate(ctx, U, ctraces, sorted(U.inst) + sorted(x for x in U.comp if '/' in x), 'cover')
    for b in sorted(set(behs)):
        traces.append(replay_behaviour(U, b, tmp))
        ctx.case(('beh', b))
    # deep walks: observe after every step
    for b in sims:
        traces.append(replay_behaviour(U, b, tmp, rng=ctx.rng, forms=False)[:])
        ctx.case(('sim', b))
    ctx.sample({'behaviour': [list(x) for x in behs[len(behs) // 2]], 'last_obs': traces[len(behs) // 2][-1]['obs']})
    ctx.sample({'simulated_walk': [list(x) for x in sims[0]]} if sims else {})
    validate(ctx, U, traces, sorted(U.inst), 'gen')
    # deep walks again with an observation after *every* step (prefix-closedness on long histories)
    tr2 = []
    for b in sims[:(60 if ctx.quick else 600)]:
        kr_tr = []
        kr = U.pgpy.PGPKeyring()
        for op, x in b:
            (kr.load if op == 'load' else kr.unload)(U.obj[x])
            kr_tr.append({'op': op, 'x': x, 'obs': U.observe(kr)})
        tr2.append(kr_tr)
    validate(ctx, U, tr2, sorted(U.inst), 'simsteps')
    # 3. V: random histories on a larger universe, keys loaded from objects / binary / armor / files / lists,
    #    several objects of the same key coexisting
    U2 = Universe(extra=2)
    instances = []
    for x in sorted(U2.inst):
        instances += [x, x + '#2']
    U2.inst.update({x: U2.inst[x.split('#')[0]] for x in instances})
    rtraces = []
    for t in range(40 if ctx.quick else 600):
        n = ctx.rng.randrange(3, 14)
        loaded = set()
        beh = []
        for _ in range(n):
            if loaded and ctx.rng.random() < 0.4:
                x = ctx.rng.choice(sorted(loaded))
                loaded.discard(x)
                beh.append(('unload', x))
            else:
                x = ctx.rng.choice([i for i in instances if i not in loaded])
                loaded.add(x)
                beh.append(('load', x))
        rtraces.append(replay_behaviour(U2, beh, tmp, rng=ctx.rng, forms=True))
        ctx.case(('rand', tuple(beh)))
    ctx.sample({'random_history_with_forms': [[e['op'], e['x']] for e in rtraces[0]]})
    validate(ctx, U2, rtraces, instances, 'random')
    # 4. subkey OBJECTS loaded and unloaded on their own (what `with kr.key(msg) as k: kr.unload(k)` does for a message encrypted to a
    #    subkey): the keyring holds key objects; fingerprints / selection / len follow the objects held
    subinst = sorted(x for x in U.comp if '/' in x)
    whole = sorted(U.inst)
    straces = []
    directed = [[('load', 'K2s'), ('unload', 'K2s/1'), ('load', 'K2s')], [('load', 'K1p'), ('unload', 'K1p/1'), ('load', 'K1p'), ('unload', 'K1p')],
                [('load', 'K2p'), ('load', 'K2s'), ('unload', 'K2s/2'), ('load', 'K2s'), ('unload', 'K2p')],
                # one recipient's public half with the other recipient's secret half: selection by the message is the half that can decrypt
                [('load', 'K1p'), ('load', 'K2s')], [('load', 'K2p'), ('load', 'K1s')], [('load', 'K1s'), ('load', 'K2p'), ('load', 'K1p')],
                [('load', 'K2s/1'), ('load', 'K1p/1')], [('load', 'K1s/1'), ('load', 'K2p/1'), ('load', 'K2s/1'), ('unload', 'K1s/1')]]
    for t in range(len(directed) + (30 if ctx.quick else 400)):
        held, beh = set(), list(directed[t]) if t < len(directed) else []
        for _ in range(0 if t < len(directed) else ctx.rng.randrange(3, 10)):
            r = ctx.rng.random()
            if r < 0.35:
                x = ctx.rng.choice(whole)
                beh.append(('load', x))
                held |= {x} | {c for c in U.inst[x] if '/' in c}
            elif r < 0.55 and held:
                x = ctx.rng.choice(sorted(held))
                beh.append(('unload', x))
                held -= {x} | ({c for c in U.inst[x] if '/' in c} if '/' not in x else set())
            elif r < 0.8:
                x = ctx.rng.choice(subinst)
                beh.append(('load', x))
                held.add(x)
            else:
                x = ctx.rng.choice(subinst)
                beh.append(('unload', x))
                held.discard(x)
        kr = U.pgpy.PGPKeyring()
        tr = []
        for op, x in beh:
            obj = U.obj[x] if '/' not in x else list(U.obj[x.rsplit('/', 1)[0]].subkeys.values())[int(x.rsplit('/', 1)[1]) - 1]
            try:
                (kr.load if op == 'load' else kr.unload)(obj)
            except Exception as ex:
                tr.append({'op': op, 'x': x, 'raised': True, 'exc': repr(ex)[:120]})
                break
            tr.append({'op': op, 'x': x, 'obs': U.observe(kr)})
        straces.append(tr)
        ctx.case(('subobj', tuple(beh)))
    validate(ctx, U, straces, whole + subinst, 'subkey-objects')
    # ---- binding demonstration: corrupt one recorded field of accepted histories; every copy must be rejected
    if not ctx.violations:
        import copy as _copy
        base = [t for t in tr2 if len(t) >= 4][:4]
        cor = []
        c = _copy.deepcopy(base[0]); c[-1]['obs']['sel'][0] = 'K3p/9'; cor.append(('selection returns a key that is not in the universe', c))
        c = _copy.deepcopy(base[1]); c[-1]['obs']['has'][0] = not c[-1]['obs']['has'][0]; cor.append(('membership flipped', c))
        c = _copy.deepcopy(base[2]); c[-1]['obs']['fprs'] = c[-1]['obs']['fprs'][1:] if c[-1]['obs']['fprs'] else ['00']; cor.append(('one fingerprint missing', c))
        c = _copy.deepcopy(base[3]); del c[0]; cor.append(('first load event dropped', c))
        saved_v, saved_t = list(ctx.violations), ctx.traces
        rj = validate(ctx, U, [x for _, x in cor], sorted(U.inst), 'selftest')
        ctx.violations[:] = saved_v
        ctx.traces = saved_t
        if len({p[1] for p in rj}) != len(cor):
            raise MachineryError('self-test C19: Trace_C19 accepted corrupted histories: rejected %s of %s' % (sorted({p[1] for p in rj}), [n for n, _ in cor]))
        ctx.extra['selftest_corruptions_rejected'] = [n for n, _ in cor]
    ctx.extra['behaviours_exhaustive'] = len(set(behs))
    ctx.extra['behaviours_simulated'] = len(sims)
    ctx.extra['random_histories'] = len(rtraces)
    # whole-session walks of spec/Session.tla (protection scopes x signatures x encryption x keyring), this property's clause family
    from .. import session as _session
    for _b, _step, _clause, _detail in _session.generate(ctx, 'C19.session')[0]:
        ctx.violation(_clause, 'session: %s at %s' % (_detail, _b[_step - 1][0]), {'behaviour': [list(x) for x in _b[:_step]]})
    return ctx.finish(level='model_checking',
                      rule='G: every behaviour of Keyring.tla (8 key objects) to depth %d plus TLC-simulated walks of depth 25, replayed on a real '
                           'PGPKeyring; V: random histories over 12 keys x 2 objects each, five load forms; each history is distinct; '
                           'non-trivial = at least one step' % (4 if ctx.quick else 5),
                      exhaustive=True)


def replay(ctx, rep):
    U = Universe(extra=2)
    for x in list(U.inst):
        U.inst[x + '#2'] = U.inst[x]
    hist = [tuple(h) for h in rep['detail']['history']]
    tmp = tempfile.mkdtemp(prefix='kr-', dir=ctx.work)
    tr = replay_behaviour(U, hist, tmp, rng=ctx.rng, forms=False)
    rej = validate(ctx, U, [tr], sorted(U.inst), 'replay')
    print('history', hist, '->', 'REJECTED %s' % rej if rej else 'accepted')
    return 1 if rej else 0
