"""C16 - key-usage policy: operations use a component allowed to perform them, or refuse.

Spec: spec/Usage.tla (property Allowed/MustRefuse + algorithm ImplOutcome of KeyAction.usage).
  MC_Usage     ImplOutcome refines Allowed over ~4*10^5 scenarios (all 32 primary flag sets, 0-2 subkeys with
               binding histories, 5 ops, 4 forms, enforce, hasid); spec mutation ReadLatest=FALSE (oldest
               binding read, the code as found) must give a counterexample
  Gen_Usage    covering scenario set printed by TLC, built with real keys (binding G)
  Trace_C16    every real outcome judged by TLC (binding V)
"""
import warnings

from ..common import MachineryError, import_pgpy
from .. import keys as K

PW = 'correct horse'


def _flags(fs):
    import_pgpy()
    from pgpy.constants import KeyFlags as F
    m = {'C': F.Certify, 'S': F.Sign, 'EC': F.EncryptCommunications, 'ES': F.EncryptStorage, 'A': F.Authentication}
    return {m[x] for x in fs}


class Pool(object):
    """raw key material, generated once per run, re-parsed for every key structure."""

    def __init__(self, thorough):
        self.blobs = {}
        self.thorough = thorough

    def fresh(self, alg, slot):
        pgpy = import_pgpy()
        tag = (alg, slot)
        if tag not in self.blobs:
            self.blobs[tag] = bytes(K.raw_key(alg, created=K.T0 + 17 * slot))
        return pgpy.PGPKey.from_blob(self.blobs[tag])[0]


def sub_alg(hist, variant):
    """pick subkey material so that the most recent flags are usually also algorithmically possible,
    and sometimes not (flag says yes, algorithm says no)."""
    allf = set().union(*[set(h) for h in hist])
    wants_sign = bool(allf & {'S', 'C'})
    wants_enc = bool(allf & {'EC', 'ES'})
    if wants_sign and wants_enc:
        return 'rsa2048'
    if wants_enc:
        return 'cv25519' if variant % 3 != 2 else 'rsa2048'
    return 'ed25519'


def build(pool, pflags, subs, hasid, variant=0, ident=None):
    """ident = (other flags, mode): a second identity 'Second Identity' exists; mode decides which identity carries pflags."""
    pgpy = import_pgpy()
    palg = 'ed25519'
    if ident is not None and ({'EC', 'ES'} & (set(pflags) | set(ident[0]))):
        palg = 'rsa2048'                     # a primary that can also be encrypted to
    k = pool.fresh(palg, 0)
    if not hasid:
        return k
    from pgpy.constants import HashAlgorithm, SymmetricKeyAlgorithm, CompressionAlgorithm
    common = dict(hashes=[HashAlgorithm.SHA256], ciphers=[SymmetricKeyAlgorithm.AES128], compression=[CompressionAlgorithm.Uncompressed])
    if ident is None:
        k.add_uid(pgpy.PGPUID.new('Usage Test', email='u@x.org'), usage=_flags(pflags), created=K.ts(K.T0 + 1), **common)
    else:
        other, mode = ident
        # which identity PGPy treats as the default is its business; find out, then give the flags accordingly
        first, second = (pflags, other) if mode != 'named-other' else (other, pflags)
        for attempt_ in (0, 1):
            k = pool.fresh(palg, 0)
            fa, fb = (first, second) if attempt_ == 0 else (second, first)
            k.add_uid(pgpy.PGPUID.new('Alpha Identity', email='a@x.org'), usage=_flags(fa), created=K.ts(K.T0 + 1), **common)
            k.add_uid(pgpy.PGPUID.new('Beta Identity', email='b@x.org'), usage=_flags(fb), created=K.ts(K.T0 + 2), **common)
            default_is_alpha = k.userids[0].name == 'Alpha Identity'
            if (attempt_ == 0) == default_is_alpha:
                break
        # now: default identity carries `first`, the other carries `second`
        k._verif_default = k.userids[0].name
        k._verif_other = [u.name for u in k.userids if u.name != k._verif_default][0]
    for n, hist in enumerate(subs):
        sk = pool.fresh(sub_alg(hist, variant + n), n + 1)
        k.add_subkey(sk, usage=_flags(hist[0]), created=K.ts(K.T0 + 20 + n))
        for j, fs in enumerate(hist[1:]):
            bs = k.bind(sk, usage=_flags(fs), created=K.ts(K.T0 + 100 + 10 * n + j))
            sk |= bs
    return k


def comp_index(key, keyid):
    if keyid == key.fingerprint.keyid:
        return 0
    for n, kid in enumerate(key.subkeys):
        if kid == keyid:
            return n + 1
    return -3


def do_op(pgpy, op, actor, priv, pub, other, enforce, user=None, address=None):
    """returns (out, verified, info)"""
    actor._require_usage_flags = enforce
    for sk in actor.subkeys.values():
        sk._require_usage_flags = enforce
    try:
        if op == 'sign':
            s = actor.sign('usage text', created=K.ts(K.T0 + 500), **({'user': user} if user else {}))
            named = comp_index(priv, s.signer)
            try:
                ok = bool(pub.verify('usage text', s))
            except Exception:
                ok = False                    # a signature WAS returned: that is the outcome, whoever can or cannot verify it
            fpr = s.signer_fingerprint
            if fpr and named >= 0:
                comp = priv if named == 0 else list(priv.subkeys.values())[named - 1]
                ok = ok and str(fpr) == str(comp.fingerprint)
            return named, ok, ''
        if op == 'certify':
            # (a key without an identity has no preferences to take the hash algorithm from: name one, so that a refusal is the policy's and
            # not a missing default)
            kw_ = {'hash': pgpy.constants.HashAlgorithm.SHA256} if not list(actor.userids) else {}
            s = actor.certify(other.userids[0], created=K.ts(K.T0 + 500), **kw_)
            return comp_index(priv, s.signer), bool(pub.verify(other.userids[0], s)), ''
        if op == 'revoke':
            s = actor.revoke(actor.userids[0], created=K.ts(K.T0 + 500))
            return comp_index(priv, s.signer), bool(pub.verify(pub.userids[0], s)), ''
        if op == 'revoker':
            s = actor.revoker(other, created=K.ts(K.T0 + 500))
            return comp_index(priv, s.signer), bool(pub.verify(pub, s)), ''
        if op == 'bind':
            if not actor.subkeys:
                return None, None, 'no subkey to bind'
            sub = list(actor.subkeys.values())[0]
            from pgpy.constants import KeyFlags
            s = actor.bind(sub, usage={KeyFlags.Authentication}, created=K.ts(K.T0 + 500), crosssign=False)
            psub = list(pub.subkeys.values())[0]
            return comp_index(priv, s.signer), bool(pub.verify(psub, s)), ''
        if op == 'encrypt':
            msg = pgpy.PGPMessage.new('usage secret', compression=pgpy.constants.CompressionAlgorithm.Uncompressed)
            enc = actor.encrypt(msg, **({'user': user} if user else {}))
            ids = list(enc.encrypters)
            if len(ids) != 1:
                return -3, False, 'encrypters=%s' % ids
            named = comp_index(priv, ids[0])
            try:
                priv._require_usage_flags = False
                dec = priv.decrypt(pgpy.PGPMessage.from_blob(bytes(enc)))
                ok = dec.message == 'usage secret'
            except Exception as ex:
                ok = False
            return named, ok, ''
        if op == 'decrypt':
            # a message addressed to the first component that can be encrypted to at all
            msg = pgpy.PGPMessage.new('usage secret', compression=pgpy.constants.CompressionAlgorithm.Uncompressed)
            enc = None
            comps_ = [pub] + list(pub.subkeys.values())
            if address is not None:
                comps_ = [comps_[address]]
            for comp in comps_:
                try:
                    comp._require_usage_flags = False
                    if comp.key_algorithm.can_encrypt:
                        e_ = comp.encrypt(msg)
                        if comp.fingerprint.keyid in e_.encrypters:
                            enc = e_
                            break
                except Exception:
                    continue
            if enc is None:
                return None, None, 'no component can be encrypted to'
            enc = pgpy.PGPMessage.from_blob(bytes(enc))
            dec = actor.decrypt(enc)
            # the same with a passphrase recipient next to the key (its session-key packet names no key and comes first): the addressed
            # component is still found
            from pgpy.constants import SymmetricKeyAlgorithm
            sk_ = SymmetricKeyAlgorithm.AES256.gen_key()
            mixed = comp.encrypt(msg.encrypt('a passphrase too', sessionkey=sk_, cipher=SymmetricKeyAlgorithm.AES256), sessionkey=sk_, cipher=SymmetricKeyAlgorithm.AES256)
            mixed = pgpy.PGPMessage.from_blob(bytes(mixed))
            dec2 = actor.decrypt(mixed)
            return comp_index(priv, list(enc.encrypters)[0]), dec.message == 'usage secret' and dec2.message == 'usage secret', ''
    except Exception as ex:
        return -1, False, repr(ex)[:160]
    return None, None, 'unknown op'


def planted_flag_events(ctx):
    """capabilities are what the most recent self-signature GRANTS, i.e. what it signs: keys from the independent encoder whose binding
    signature has no key-flags subpacket in its hashed area and one planted in the unhashed area (not covered by the signature) must behave
    like the same key without the planted subpacket."""
    pgpy = import_pgpy()
    from .. import build, enc
    other = K.new_key('ed25519', name='Other Party', email='other@x.org')
    ev = []
    for label, mk_sub, planted, op, form, hashed in (('encrypt', lambda c: enc.Recipient('cv25519', created=c), 0x0C, 'encrypt', 'public', None),
                                                      ('sign', lambda c: build.ForeignKey('ed25519', created=c), 0x02, 'sign', 'private-unprotected', None),
                                                      # a two-octet flags field whose FIRST octet grants nothing: bits of the second octet are other flags
                                                      ('encrypt-2nd-octet', lambda c: enc.Recipient('cv25519', created=c), None, 'encrypt', 'public', b'\x00\x04'),
                                                      ('encrypt-2nd-octet-0c', lambda c: enc.Recipient('cv25519', created=c), None, 'encrypt', 'public', b'\x00\x0c')):
        fk = build.ForeignKey('ed25519')
        sk = mk_sub(fk.created + 1)
        sblob = build.transferable_key(fk, [b'Planted <planted@example.org>'], subkeys=[(sk, hashed, planted)], secret=True, flags=0x01)
        with warnings.catch_warnings():
            warnings.simplefilter('ignore')
            try:
                sec = pgpy.PGPKey.from_blob(sblob)[0]
                pub = pgpy.PGPKey.from_blob(bytes(sec.pubkey))[0]
            except Exception as ex:
                ctx.note('planted-flags key not loadable: %s' % repr(ex)[:100])
                continue
            actor = pub if form == 'public' else sec
            out, verified, info = do_op(pgpy, op, actor, sec, pub, other, True)
        if out is None:
            continue
        core = {'pflags': ['C'], 'subs': [[[]]], 'op': op, 'form': form, 'enforce': True, 'hasid': True}
        ev.append({'sc': core, 'out': out, 'verified': bool(verified), 'predicted': -1, 'info': ('key flags %02x planted in the unhashed area: %s' % (planted, info)) if planted is not None else ('two-octet key flags %s: %s' % (hashed.hex(), info)), 'identity': None,
                   'planted': True})
    # the most recent self-signature of the (only) identity is its REVOCATION: it grants nothing, so the primary keeps only what the
    # format gives it (certify); with a signing subkey present that subkey must act
    from pgpy.constants import KeyFlags
    for label, subs_, op, form in (('revoked identity, no subkey', [], 'sign', 'private-unprotected'),
                                   ('revoked identity, signing subkey', [('ed25519', {KeyFlags.Sign})], 'sign', 'private-unprotected'),
                                   ('revoked identity, no encryption subkey', [], 'encrypt', 'public')):
        with warnings.catch_warnings():
            warnings.simplefilter('ignore')
            try:
                k = K.new_key('rsa2048' if op == 'encrypt' else 'ed25519', name='Revoked Identity', email='rev@x.org', usage={KeyFlags.Sign, KeyFlags.Certify, KeyFlags.EncryptCommunications}, subs=subs_)
                k.userids[0] |= k.revoke(k.userids[0], created=K.ts(K.T0 + 300))
                sec = pgpy.PGPKey.from_blob(bytes(k))[0]
                pub = pgpy.PGPKey.from_blob(bytes(sec.pubkey))[0]
            except Exception as ex:
                ctx.note('revoked-identity key not constructible: %s' % repr(ex)[:100])
                continue
            out, verified, info = do_op(pgpy, op, pub if form == 'public' else sec, sec, pub, other, True)
        if out is None:
            continue
        core = {'pflags': ['C'], 'subs': [[['S']]] if subs_ else [], 'op': op, 'form': form, 'enforce': True, 'hasid': True}
        ev.append({'sc': core, 'out': out, 'verified': bool(verified), 'predicted': -1 if not subs_ else 1, 'info': label + ': ' + str(info), 'identity': None, 'planted': True})
    return ev


def run_scenarios(ctx, scen):
    pgpy = import_pgpy()
    pool = Pool(not ctx.quick)
    other = K.new_key('ed25519', name='Other Party', email='other@x.org')
    ev = []
    by_struct = {}
    for sc, predicted, must in scen:
        st = (tuple(sorted(sc['pflags'])), tuple(tuple(tuple(sorted(f)) for f in h) for h in sc['subs']), sc['hasid'],
              (tuple(sorted(sc['other'])), sc['mode']) if 'other' in sc else None)
        by_struct.setdefault(st, []).append((sc, predicted, must))
    skipped = 0
    for n, (st, items) in enumerate(sorted(by_struct.items(), key=lambda kv: repr(kv[0]))):
        pflags, subs, hasid, ident = st
        try:
            priv = build(pool, pflags, subs, hasid, variant=n, ident=ident)
        except Exception as ex:
            # PGPy refused to construct the key (e.g. signing flag on a subkey that cannot cross-sign): not a scenario
            skipped += len(items)
            ctx.note('construction refused for %s: %s' % (st, repr(ex)[:120]))
            continue
        pub = pgpy.PGPKey.from_blob(bytes(priv.pubkey))[0]
        forms = {f for sc, _, _ in items for f in [sc['form']]}
        locked = None
        if forms & {'private-locked', 'private-unlocked'}:
            locked = pgpy.PGPKey.from_blob(bytes(priv))[0]
            locked.protect(PW, pgpy.constants.SymmetricKeyAlgorithm.AES128, pgpy.constants.HashAlgorithm.SHA256)

        # "locked" also after a history: components under different passphrases (as GnuPG >= 2.1 exports them) and unlock attempts that
        # failed half-way (the primary's passphrase opens the primary only) or entirely
        locked_hist = locked
        if locked is not None and len(priv.subkeys) and n % 2 == 1:
            try:
                lh = pgpy.PGPKey.from_blob(bytes(locked))[0]
                with lh.unlock(PW):
                    for sk_ in lh.subkeys.values():
                        sk_.protect(PW + ' (subkeys only)', pgpy.constants.SymmetricKeyAlgorithm.AES128, pgpy.constants.HashAlgorithm.SHA256)
                for attempt_pw in (PW, 'entirely wrong', PW):
                    try:
                        with lh.unlock(attempt_pw):
                            pass
                    except Exception:
                        pass
                locked_hist = lh
            except Exception as ex:
                ctx.note('split-passphrase history not constructible: %s' % repr(ex)[:100])

        def record(sc, predicted, actor):
            user = None
            if ident is not None:
                user = {'default': None, 'named-default': priv._verif_default, 'named-other': priv._verif_other}[sc['mode']]
            core = {k_: sc[k_] for k_ in ('pflags', 'subs', 'op', 'form', 'enforce', 'hasid')}
            if sc['op'] == 'decrypt' and len(sc['subs']) >= 1:
                done = False
                for address in range(0, len(sc['subs']) + 1):
                    out, verified, info = do_op(pgpy, sc['op'], actor, priv, pub, other, sc['enforce'], address=address)
                    if out is not None:
                        ev.append({'sc': core, 'out': out, 'verified': bool(verified), 'predicted': predicted, 'info': info, 'addressed': address})
                        done = True
                return done
            out, verified, info = do_op(pgpy, sc['op'], actor, priv, pub, other, sc['enforce'], user=user)
            if out is None:
                return False
            ev.append({'sc': core, 'out': out, 'verified': bool(verified), 'predicted': predicted, 'info': info,
                       'identity': (sc.get('mode'), sc.get('other')) if ident is not None else None})
            return True
        for sc, predicted, must in items:
            if sc['form'] == 'public':
                if not record(sc, predicted, pub):
                    skipped += 1
            elif sc['form'] == 'private-unprotected':
                if not record(sc, predicted, priv):
                    skipped += 1
            elif sc['form'] == 'private-locked':
                if not record(sc, predicted, locked_hist):
                    skipped += 1
                if sc['op'] == 'sign' and hasid and locked is not None and 'S' not in sc['pflags'] and not any('S' in f for h in sc['subs'] for f in h):
                    # locked, with a component that is NOT protected: a freshly generated signing / encryption subkey added inside an
                    # unlock block. The key is locked all the same: whatever component would do the work, the operation is refused
                    try:
                        lm = pgpy.PGPKey.from_blob(bytes(locked))[0]
                        with lm.unlock(PW):
                            lm.add_subkey(K.raw_key('ed25519', K.T0 + 300), usage={pgpy.constants.KeyFlags.Sign}, created=K.ts(K.T0 + 300))
                        record(sc, predicted, lm)
                    except Exception as ex:
                        ctx.note('locked key with an unprotected subkey not constructible: %s' % repr(ex)[:80])
        unl = [it for it in items if it[0]['form'] == 'private-unlocked']
        if unl:
            with locked.unlock(PW):
                for sc, predicted, must in unl:
                    if not record(sc, predicted, locked):
                        skipped += 1
    return ev, skipped


REPLAY_EXACT = True      # replay() re-executes exactly the stored case


def run(ctx):
    ctx.assumptions += ['TLC/SANY', 'JSON marshalling', 'the cryptography package (primitives)',
                        'flag enforcement is switched with the documented key._require_usage_flags attribute']
    warnings.simplefilter('ignore')
    ctx.model('MC_Usage')
    ctx.model('MC_Usage', 'MC_Usage_asfound', must_hold=False)
    g = ctx.model('Gen_Usage')
    scen = [(p[1], p[2], p[3]) for p in g.prints if isinstance(p, list) and p and p[0] == 'SCN']
    if len(scen) < 3000:
        raise MachineryError('Gen_Usage produced %d scenarios' % len(scen))
    for s in scen:   # TLC prints sets as lists; normalise
        s[0]['pflags'] = sorted(s[0]['pflags'])
        s[0]['subs'] = [[sorted(f) for f in h] for h in s[0]['subs']]
        if 'other' in s[0]:
            s[0]['other'] = sorted(s[0]['other'])
    if ctx.quick:
        keep = []
        for s in scen:
            sc = s[0]
            base = len(sc['subs']) <= 1 and all(len(h) == 1 for h in sc['subs']) and sc['form'] in ('public', 'private-unprotected') and 'other' not in sc
            if not base or len(sc['pflags']) <= 1 or sc['pflags'] in (['EC', 'S'], ['A', 'C', 'EC', 'ES', 'S']) or ctx.rng.random() < 0.25:
                keep.append(s)
        scen = keep
    ev, skipped = run_scenarios(ctx, scen)
    ev += planted_flag_events(ctx)
    for e in ev:
        ctx.case(repr(e['sc']) + str(e.get('info', ''))[:0] + ('planted' if e.get('planted') else ''))
    for j in (0, len(ev) // 3, 2 * len(ev) // 3, len(ev) - 1):
        ctx.sample(ev[j])
    drift = sum(1 for e in ev if e['out'] != e['predicted'])
    ctx.extra['algorithm_spec_drift_cases'] = drift
    ctx.extra['scenarios_executed'] = len(ev)
    ctx.extra['scenarios_not_realisable'] = skipped
    ctx.extra['outcomes'] = {'refuse': sum(1 for e in ev if e['out'] == -1), 'used': sum(1 for e in ev if e['out'] >= 0)}
    if drift:
        ctx.note('%d outcomes differ from the algorithm spec prediction (e.g. algorithm cannot perform the operation although the flag allows it); drift only' % drift)
    rej = ctx.judge('Trace_C16', ev)
    ctx.traces += len(ev) - len(rej)
    bad = {i for i, _ in rej}
    good = [e for i, e in enumerate(ev) if i not in bad]
    ctx.selftest(lambda b: ctx.judge('Trace_C16', b), good,
                 [('signature does not verify under the named component', lambda e: dict(e, verified=False) if e['out'] >= 0 else None),
                  ('an unqualified component used under enforcement', lambda e: dict(e, out=1) if e['sc']['op'] == 'sign' and e['sc']['enforce'] and e['out'] == 0 and len(e['sc']['subs']) == 1 and 'S' not in e['sc']['subs'][0][-1] and e['sc']['form'] == 'private-unprotected' else None),
                  ('operation performed on a public key', lambda e: dict(e, out=0, verified=True) if e['sc']['op'] == 'sign' and e['sc']['form'] == 'public' else None),
                  ('a component that does not exist named', lambda e: dict(e, out=3) if e['out'] >= 0 and len(e['sc']['subs']) < 3 else None)], 'C16')
    for idx, clause in rej:
        e = ev[idx]
        sc = e['sc']
        hist = 'rebind' if any(len(h) > 1 for h in sc['subs']) else 'single'
        key = 'op=%s form=%s enforce=%s hasid=%s nsubs=%d bindings=%s%s%s' % (sc['op'], sc['form'], sc['enforce'], sc['hasid'], len(sc['subs']), hist, ' identity=%s' % e['identity'][0] if e.get('identity') else '', ' addressed=%s' % e['addressed'] if 'addressed' in e else '')
        ctx.violation(clause, key, {'event': e})
    return ctx.finish(level='model_checking',
                      rule='scenarios enumerated by TLC from Usage.tla (base: 32 primary flag sets x 0/1 subkey x 4 ops x enforce; forms x hasid; '
                           're-binding histories; 2-3 subkeys), each built with real keys (Ed25519/Curve25519/RSA-2048 material) and executed; '
                           'distinct = distinct scenario',
                      exhaustive=not ctx.quick)


def replay(ctx, rep):
    e = rep['detail']['event']
    ev, _ = run_scenarios(ctx, [(e['sc'], e.get('predicted', -1), False)])
    rej = ctx.judge('Trace_C16', ev)
    print('re-executed scenario:', ev, '->', rej or 'accepted')
    return 1 if rej else 0
