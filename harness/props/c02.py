"""C02 - signatures conform to RFC 4880 section 5.2.4: independent verifier and signer agree with PGPy.

Spec: spec/SigHash.tla, spec/Subpackets.tla (SigWF, SigValue), spec/SigOpts.tla (option space and covering set).
  Gen_SigOpts   covering set (none / singles / pairs / all) of the optional signing parameters per call kind (binding G)
  Trace_Sig     'indep'  : a signature made by PGPy, exported and re-imported; the harness's independent verifier
                           CLAIMS hash input, digest, signature integers, key body and a primitive verdict; TLC checks
                           every claim against its own parse of the wire (so the Python verifier is not trusted) and
                           requires well-formedness, left-16 and a positive primitive verdict
                'foreign': a signature made by the independent signer over the same kinds of subject; TLC validates
                           the packet and the octets it was signed over; PGPy must verify it
"""
import hashlib
import struct
import warnings
from datetime import timedelta

from .. import build, sigs, keys as K
from ..common import MachineryError, import_pgpy

HNAME = {1: 'md5', 2: 'sha1', 3: 'ripemd160', 8: 'sha256', 9: 'sha384', 10: 'sha512', 11: 'sha224'}


def option_kwargs(opts, ctxobj):
    pgpy = import_pgpy()
    from pgpy import constants as C
    kw = {}
    for o in opts:
        if o == 'expires':
            kw['expires'] = timedelta(days=30)
        elif o == 'notation':
            kw['notation'] = {'note@example.org': 'value ünï', 'bin@example.org': bytearray(b'\x00\x01\xff')}
        elif o == 'policy_uri':
            kw['policy_uri'] = 'https://example.org/policy?a=1'
        elif o == 'not_revocable':
            kw['revocable'] = False
        elif o == 'intended_recipients':
            kw['intended_recipients'] = [ctxobj['other_pub']]
        elif o == 'no_issuer_fpr':
            kw['include_issuer_fingerprint'] = False
        elif o == 'user':
            kw['user'] = ctxobj['username']
        elif o == 'usage':
            kw['usage'] = {C.KeyFlags.Sign, C.KeyFlags.Authentication}
        elif o == 'ciphers':
            kw['ciphers'] = [C.SymmetricKeyAlgorithm.AES256, C.SymmetricKeyAlgorithm.Camellia128, C.SymmetricKeyAlgorithm.TripleDES]
        elif o == 'hashes':
            kw['hashes'] = [C.HashAlgorithm.SHA512, C.HashAlgorithm.SHA256]
        elif o == 'compression':
            kw['compression'] = [C.CompressionAlgorithm.BZ2, C.CompressionAlgorithm.Uncompressed]
        elif o == 'key_expiration':
            kw['key_expiration'] = timedelta(days=3650)
        elif o == 'keyserver':
            kw['keyserver'] = 'hkps://keys.example.org'
        elif o == 'keyserver_flags':
            kw['keyserver_flags'] = {C.KeyServerPreferences.NoModify}
        elif o == 'primary':
            kw['primary'] = True
        elif o == 'trust':
            kw['trust'] = (1, 60)
        elif o == 'trust_regex':
            kw['trust'] = (2, 120)
            kw['regex'] = '<[^>]+[@.]example\\.org>$'
        elif o == 'exportable_true':
            kw['exportable'] = True
        elif o == 'exportable_false':
            kw['exportable'] = False
        elif o == 'reason':
            kw['reason'] = C.RevocationReason.Superseded
        elif o == 'comment':
            kw['comment'] = 'replaced by a new key — ünï'
    return kw


class Env(object):
    def __init__(self, alg):
        pgpy = import_pgpy()
        from pgpy.constants import KeyFlags, HashAlgorithm
        self.alg = alg
        subalg = 'ed25519'
        self.k = K.new_key(alg, name='Conformer %s' % alg, comment='c', email='conf@x.org', subs=[(subalg, {KeyFlags.Sign})],
                           hashes=[HashAlgorithm.SHA256, HashAlgorithm.SHA512, HashAlgorithm.SHA384, HashAlgorithm.SHA224, HashAlgorithm.SHA1,
                                   HashAlgorithm.MD5, HashAlgorithm.RIPEMD160])
        self.other = K.new_key('ed25519', name='Other Party', email='other@x.org')
        ua = pgpy.PGPUID.new(bytearray(open('/repo/tests/testdata/simple.jpg', 'rb').read()))
        self.k.add_uid(ua, created=K.ts(K.T0 + 7))
        # identities whose packets need two- and five-octet lengths
        for n_, ln in enumerate((191, 192, 300, 9000)):
            self.k.add_uid(pgpy.PGPUID.new('L%d ' % ln + 'ü' * ((ln - 6) // 2) + 'x' * ((ln - 6) % 2), email=''), created=K.ts(K.T0 + 8 + n_))
        self.other.add_uid(pgpy.PGPUID.new('Other Long ' + 'y' * 400), created=K.ts(K.T0 + 9))
        self.t = K.T0 + 2000

    def now(self):
        self.t += 1
        return K.ts(self.t)


def make_signature(env, kind, opts):
    """-> (sig, subject object for PGPy verify, lambda building the TLC subject descriptor from blobs)"""
    pgpy = import_pgpy()
    from pgpy.constants import SignatureType
    k = env.k
    kw = option_kwargs(opts, {'other_pub': env.other.pubkey, 'username': 'Conformer %s' % env.alg})
    kw['created'] = env.now()
    if kind == 'doc':
        doc = b'binary \x00\x01\xfe document\r\nwith lines\n'
        return k.sign(doc, **kw), ('doc', doc)
    if kind == 'text':
        text = 'text document\nsecond line \t\nthird — ünï\n'
        return k.sign(pgpy.PGPMessage.new(text, cleartext=True), **kw), ('text', text)
    if kind == 'timestamp':
        return k.sign(None, **kw), ('none', None)
    if kind == 'selfcert':
        return k.certify(k.userids[0], level=SignatureType.Positive_Cert, **kw), ('cert', k, 0)
    if kind == 'thirdparty':
        return k.certify(env.other.userids[0], level=SignatureType.Casual_Cert, **kw), ('cert', env.other, 0)
    if kind == 'directkey':
        return k.certify(env.other, **kw), ('key', env.other)
    if kind == 'revoke':
        return k.revoke(k.userids[0], **kw), ('cert', k, 0)
    if kind == 'bind':
        sub = list(k.subkeys.values())[0]
        if 'usage' not in kw:
            from pgpy.constants import KeyFlags
            kw['usage'] = {KeyFlags.Sign}
        return k.bind(sub, **kw), ('keys', k, sub)
    raise ValueError(kind)


def uid_octets(u):
    return bytes(u._uid.__bytearray__()[len(u._uid.header):]) if u.is_uid else bytes(u._uid.__bytearray__()[len(u._uid.header):])


def describe_subject(blobs, subj, pubcache):
    """-> (TLC subject descriptor, PGPy verify subject factory given a re-imported public key set, harness hash-input components)"""
    pgpy = import_pgpy()
    kind = subj[0]
    if kind == 'doc':
        return sigs.subj_doc(blobs, subj[1]), subj[1], {'doc': subj[1]}
    if kind == 'text':
        tb_ = subj[1].encode('utf-8')
        canon_ = b'\r\n'.join(l.rstrip(b' \t') for l in tb_.replace(b'\r\n', b'\n').split(b'\n'))     # proposal for the independent verifier (TLC: CanonCleartext)
        return dict(sigs.subj_doc(blobs, tb_), cleartext=True), subj[1], {'doc': canon_}
    if kind == 'inline':
        # subject = the content octets of the literal packet of the exported message (harness reader; the spec hashes them as they are)
        return sigs.subj_doc(blobs, subj[2]), subj[2], {'doc': subj[2]}
    if kind == 'none':
        return {}, None, {}

    def pub_of(key):
        if id(key) not in pubcache:
            blob = bytes(key.pubkey)
            pubcache[id(key)] = (blob, pgpy.PGPKey.from_blob(blob)[0])
        return pubcache[id(key)]
    if kind == 'cert':
        blob, pub = pub_of(subj[1])
        u = (pub.userids + pub.userattributes)[subj[2]] if subj[2] < len(pub.userids) else pub.userattributes[subj[2] - len(pub.userids)]
        ub = uid_octets(u)
        pbody = next(b for t, b, r in build.read_packets(blob) if t == 6)
        return sigs.subj_cert(blobs, blob, str(pub.fingerprint), ub), u, {'primary': pbody, 'uid': ub, 'isuid': u.is_uid}
    if kind == 'key':
        blob, pub = pub_of(subj[1])
        pbody = next(b for t, b, r in build.read_packets(blob) if t == 6)
        return sigs.subj_key(blobs, blob, str(pub.fingerprint)), pub, {'primary': pbody}
    if kind == 'keys':
        blob, pub = pub_of(subj[1])
        sfp = str(subj[2].fingerprint)
        psub = next(s for s in pub.subkeys.values() if str(s.fingerprint) == sfp)
        bodies = [b for t, b, r in build.read_packets(blob) if t in (6, 14)]
        sbody = next(b for b in bodies if sigs.fpr_of_body(b).hex().upper() == sfp)
        return sigs.subj_keys(blobs, blob, str(pub.fingerprint), sfp), psub, {'primary': bodies[0], 'sub': sbody}
    raise ValueError(kind)


def indep_event(blobs, sig, subj, env, pubcache, label):
    """export, re-import, verify with PGPy; then the independent verifier's claims."""
    pgpy = import_pgpy()
    pkt = bytes(sig)
    desc, vsubj, comps = describe_subject(blobs, subj, pubcache)
    blob = bytes(env.k.pubkey)
    if 'self' not in pubcache:
        pubcache['self'] = pgpy.PGPKey.from_blob(blob)[0]
    pub = pubcache['self']
    s2 = sigs.parse_sig(pkt)
    if subj[0] == 'inline' and s2 is not None:
        with warnings.catch_warnings():
            warnings.simplefilter('ignore')
            try:
                reimport_ok = bytes(s2) == pkt and bool(pub.verify(pgpy.PGPMessage.from_blob(subj[1])))
            except Exception:
                reimport_ok = False
    elif subj[0] == 'text' and s2 is not None:
        # the signature of a cleartext signed message is verified as part of that message (the 7.1 form of the text is what it covers)
        with warnings.catch_warnings():
            warnings.simplefilter('ignore')
            try:
                cm = pgpy.PGPMessage.new(subj[1], cleartext=True)
                cm |= s2
                cm = pgpy.PGPMessage.from_blob(str(cm)) if all(ord(ch) < 128 for ch in subj[1]) and '\r' not in subj[1] else cm
                reimport_ok = bytes(s2) == pkt and bool(pub.verify(cm))
            except Exception:
                reimport_ok = False
    else:
        reimport_ok = s2 is not None and bytes(s2) == pkt and sigs.verify_outcome(pub, vsubj, s2) == 'truthy'
    # ---- independent verifier (claims)
    tag, body, raw = build.read_packets(pkt)[0]
    f = build.read_sig_body(body)
    signer_fp = None
    for comp in [env.k] + list(env.k.subkeys.values()):
        if comp.fingerprint.keyid == sig.signer:
            signer_fp = str(comp.fingerprint)
    kidx = sigs.key_index(blob, signer_fp)
    kbody = [b for t, b, r in build.read_packets(blob) if t in (6, 14)][kidx - 1]
    try:
        hin = build.subject_octets(f['type'], **comps) + bytes(f['region']) + b'\x04\xff' + struct.pack('>I', len(f['region']))
        hname = HNAME.get(f['h'])
        digest = hashlib.new(hname, hin).digest()
        ok = build.verify_digest(f['pk'], kbody[6:], digest, hname, f['ints'])
    except Exception:
        hin, digest, ok = b'', b'\x00\x00', False
    return {'k': 'indep', 'sig': blobs.add(pkt), 'subj': desc, 'signer': {'kb': blobs.add(blob), 'idx': kidx}, 'reimport_ok': bool(reimport_ok),
            'claimed': {'hashinput': blobs.add(hin), 'digest': list(digest), 'sigmags': [list(n.to_bytes((n.bit_length() + 7) // 8, 'big')) for n in f['ints']],
                        'keybody': list(kbody), 'halg': f['h'], 'pk': f['pk'], 'primitive_ok': bool(ok)},
            'label': label}


def pgpy_side(ctx, blobs, combos):
    ev = []
    algs = ['ed25519', 'rsa2048', 'p256', 'dsa1024'] if ctx.quick else ['ed25519', 'rsa2048', 'rsa3072', 'p256', 'p384', 'p521', 'k256', 'dsa1024', 'dsa2048']
    from pgpy.constants import HashAlgorithm
    for ai, alg in enumerate(algs):
        try:
            env = Env(alg)
        except Exception as ex:
            ctx.note('algorithm %s unavailable: %s' % (alg, repr(ex)[:120]))
            continue
        pubcache = {}
        my = combos if (alg == 'ed25519' or not ctx.quick) else [c for j, c in enumerate(combos) if len(c[1]) <= 1 or (j + ai) % 6 == 0]
        for kind, opts in my:
            try:
                with warnings.catch_warnings():
                    warnings.simplefilter('ignore')
                    sig, subj = make_signature(env, kind, opts)
            except Exception as ex:
                ctx.note('signing refused kind=%s opts=%s: %s' % (kind, sorted(opts), repr(ex)[:100]))
                continue
            e = indep_event(blobs, sig, subj, env, pubcache, '%s %s %s' % (alg, kind, '+'.join(sorted(opts)) or '-'))
            e['alg'], e['kind'], e['opts'] = alg, kind, sorted(opts)
            ev.append(e)
            if len(opts) <= 1 and subj[0] not in ('inline', 'text'):
                # the same signature as a COPY of the object (what key.pubkey hands out for everything attached to a key): every field of the
                # packet - the left 16 bits of the hash included - is what was made
                import copy as _copy
                try:
                    e2 = indep_event(blobs, _copy.copy(sig), subj, env, pubcache, '%s %s %s (copy of the signature object)' % (alg, kind, '+'.join(sorted(opts)) or '-'))
                    e2['alg'], e2['kind'], e2['opts'] = alg, kind, sorted(opts) + ['copied']
                    ev.append(e2)
                except Exception as ex:
                    ctx.note('copy of a signature: %s' % repr(ex)[:80])
        # certifications over identities of every packet-length class (self and third party), incl. the stored self-signatures
        for ui, u in enumerate(env.k.userids):
            try:
                with warnings.catch_warnings():
                    warnings.simplefilter('ignore')
                    sig = env.k.certify(u, created=env.now())
                for s_, lab in ((sig, 'new certification'), (u.selfsig, 'stored self-signature')):
                    e = indep_event(blobs, s_, ('cert', env.k, ui), env, pubcache, '%s uid #%d (%d octets) %s' % (alg, ui, len(uid_octets(u)), lab))
                    e['alg'], e['kind'], e['opts'] = alg, 'cert-uidlen', ['uidlen=%d' % len(uid_octets(u))]
                    ev.append(e)
            except Exception as ex:
                ctx.note('certify uid #%d refused: %s' % (ui, repr(ex)[:80]))
        try:
            lu = [u for u in env.other.userids if len(uid_octets(u)) > 300][0]
            sig = env.k.certify(lu, created=env.now())
            e = indep_event(blobs, sig, ('cert', env.other, env.other.userids.index(lu)), env, pubcache, '%s third-party long uid' % alg)
            e['alg'], e['kind'], e['opts'] = alg, 'cert-uidlen', ['uidlen=%d' % len(uid_octets(lu))]
            ev.append(e)
        except Exception as ex:
            ctx.note('third-party long uid: %s' % repr(ex)[:80])
        # signatures made over a message object (inline-signed literal data of every format, with and without compression): the subject is
        # the content of the literal packet as exported
        from pgpy.constants import CompressionAlgorithm as _CA
        for fmt in ('b', 't', 'u'):
            for cname, content in (('ascii', 'plain ascii text\nsecond line\r\nthird'), ('non-ascii', 'Andr\xe9 \u2014 \xfcn\xef c\u0153ur\n'), ('octets', b'\x00\xff\xe9 octets\r\n')):
                if fmt != 'b' and isinstance(content, bytes):
                    continue
                for comp in (_CA.Uncompressed, _CA.ZLIB):
                    try:
                        with warnings.catch_warnings():
                            warnings.simplefilter('ignore')
                            import pgpy as _pgpy
                            m_ = _pgpy.PGPMessage.new(content, format=fmt, compression=comp)
                            sig = env.k.sign(m_, created=env.now())
                            m_ |= sig
                            mblob = bytes(m_)
                            plain = _pgpy.PGPMessage.new(content, format=fmt, compression=_CA.Uncompressed)
                            lit = next(b for t_, b, r_ in build.read_packets(bytes(plain)) if t_ == 11)
                            raw = bytes(lit[2 + lit[1] + 4:])
                    except Exception as ex:
                        ctx.note('inline %s/%s: %s' % (fmt, cname, repr(ex)[:80]))
                        continue
                    e = indep_event(blobs, sig, ('inline', mblob, raw), env, pubcache, '%s inline format=%s content=%s comp=%s' % (alg, fmt, cname, comp.name))
                    e['alg'], e['kind'], e['opts'] = alg, 'inline', ['format=%s' % fmt, 'content=%s' % cname]
                    ev.append(e)
        # every hash on document, text and certification
        for h in ('MD5', 'SHA1', 'RIPEMD160', 'SHA224', 'SHA256', 'SHA384', 'SHA512'):
            for kind in ('doc', 'text', 'thirdparty'):
                try:
                    kw_h = getattr(HashAlgorithm, h)
                    with warnings.catch_warnings():
                        warnings.simplefilter('ignore')
                        if kind == 'doc':
                            sig, subj = env.k.sign(b'', hash=kw_h, created=env.now()), ('doc', b'')
                        elif kind == 'text':
                            import pgpy
                            # every line-ending style, with and without trailing blanks before them (7.1: the blanks are not signed)
                            t_ = ['a\r\nb\rc\n\nd', 'a \t\r\nb\t\r\n\r\nc  ', 'blanks then lf \nlf\t\n- dash \r\n', ' \r\n\t\r\nx\r\n', 'mixed \r\nlf \nend \t',
                                  # lines that END in white space other than SP / TAB: only those two are not signed (7.1)
                                  'form feed\x0c\nno-break space\xa0\r\nideographic space\u3000\nunit separator\x1f\nvertical tab\x0b'][
                                      {'MD5': 0, 'SHA1': 1, 'RIPEMD160': 2, 'SHA224': 3, 'SHA256': 5, 'SHA384': 4, 'SHA512': 5}[h]]
                            sig, subj = env.k.sign(pgpy.PGPMessage.new(t_, cleartext=True), hash=kw_h, created=env.now()), ('text', t_)
                        else:
                            sig, subj = env.k.certify(env.k.userattributes[0], hash=kw_h, created=env.now()), ('cert', env.k, len(env.k.userids))
                except Exception as ex:
                    ctx.note('signing refused %s/%s/%s: %s' % (alg, h, kind, repr(ex)[:80]))
                    continue
                e = indep_event(blobs, sig, subj, env, pubcache, '%s %s hash=%s' % (alg, kind, h))
                e['alg'], e['kind'], e['opts'] = alg, kind, ['hash=' + h]
                ev.append(e)
    return ev


def foreign_side(ctx, blobs):
    """the independent signer: foreign keys, foreign encoding choices; PGPy must verify."""
    pgpy = import_pgpy()
    ev = []
    # 'rsa2048#3': an RSA key with the deprecated sign-only algorithm id 3 (RFC 4880 9.1 / 13.5: not generated any more, still accepted)
    kinds = ['ed25519', 'rsa2048', 'p256', 'p384', 'rsa2048#3'] + ([] if ctx.quick else ['p521', 'dsa2048', 'rsa3072', 'k256'])
    target = K.new_key('ed25519', name='Target', email='target@x.org')
    tblob = bytes(target.pubkey)
    tpub = pgpy.PGPKey.from_blob(tblob)[0]
    tuid = uid_octets(tpub.userids[0])
    tbody = next(b for t, b, r in build.read_packets(tblob) if t == 6)
    for kind in kinds:
        fk = build.ForeignKey(kind)
        sk = build.ForeignKey('ed25519', created=fk.created + 50)
        uid = ('Foreign %s <f@example.org>' % kind).encode() + ' ünï'.encode('utf-8') + (b' ' + b'z' * {'ed25519': 0, 'rsa2048': 170, 'p256': 300}.get(kind, 9000))
        kblob = build.transferable_key(fk, [uid], subkeys=[(sk, 0x02)])
        with warnings.catch_warnings():
            warnings.simplefilter('ignore')
            try:
                pub = pgpy.PGPKey.from_blob(kblob)[0]
                if len(pub.subkeys) != 1 or len(pub.userids) != 1:
                    raise ValueError('components lost on import')
            except Exception:
                # a well-formed transferable key of the independent encoder is refused as a whole: reported through its self-certification
                ev.append({'k': 'foreign', 'sig': blobs.add(next(r for t_, b, r in build.read_packets(kblob) if t_ == 2)),
                           'subj': sigs.subj_cert(blobs, kblob, fk.fingerprint.hex(), uid),
                           'signed_over': blobs.add(build.subject_octets(0x13, primary=fk.pub_body, uid=uid) + _region_trailer(next(b for t_, b, r in build.read_packets(kblob) if t_ == 2))),
                           'clause': 'C02.indep-signer', 'label': '%s whole foreign key cannot be loaded completely' % kind, 'accepted': True, 'result': 'raised'})
                continue
        hashes = ['sha256', 'sha512', 'sha384', 'sha224', 'sha1', 'md5'] + (['ripemd160'] if 'ripemd160' in build.HASH_CLS else [])
        # the issuer named by its fingerprint only (no 8-octet key id subpacket), hashed - as newer implementations write version 4 signatures
        fpr_only = dict(issuer_in='none', extra=[build.subpacket(33, b'\x04' + fk.fingerprint)])
        variants = [dict(), dict(issuer_in='hashed'), fpr_only, dict(fmt='old'), dict(form=5), dict(pad_mpi=1), dict(created=None, extra=[build.subpacket(2, struct.pack('>I', 1262309999), form=5)]),
                    dict(extra=[build.subpacket(100, b'unknown-but-legal'), build.subpacket(27, b'\x43'), build.subpacket(20, bytes([0x80, 0, 0, 0]) + struct.pack('>HH', 3, 2) + b'n@xvv', form=5)])]
        docs = [b'', b'foreign document \xff\x00', b'x' * 70000 if not ctx.quick else b'x' * 3000]
        t = [fk.created + 100]

        def one(sigtype, subject_comps, vsubj, desc, label, hname='sha256', **v):
            t[0] += 1
            extra = v.pop('extra', [])
            created = v.pop('created', t[0])
            pkt, hin = build.sig_packet(fk, sigtype, hname, extra, [], build.subject_octets(sigtype, **subject_comps), created=created, **v)
            s = sigs.parse_sig(pkt)
            e = {'k': 'foreign', 'sig': blobs.add(pkt), 'subj': desc, 'signed_over': blobs.add(hin), 'clause': 'C02.indep-signer',
                 'label': '%s %s' % (kind, label), 'accepted': s is not None}
            if s is None:
                e['result'] = 'raised'
                e['accepted'] = True       # a well-formed foreign signature must at least be readable
            else:
                try:
                    e['hashdata'] = blobs.add(s.hashdata(vsubj))
                except Exception:
                    pass
                e['result'] = sigs.verify_outcome(pub, vsubj, s)
            ev.append(e)
            if s is not None and e['result'] == 'truthy' and (v.get('form') or extra):
                # the same valid signature after its object has been copied (keys, identities and messages copy their signatures)
                import copy as _copy
                e2 = dict(e, label=e['label'] + ' (copied object)')
                try:
                    e2['result'] = sigs.verify_outcome(pub, vsubj, _copy.copy(s))
                except Exception:
                    e2['result'] = 'raised'
                e2.pop('hashdata', None)
                ev.append(e2)
        for h in hashes:
            if kind.startswith('dsa') and h in ('md5',):
                continue
            one(0x00, {'doc': docs[1]}, docs[1], sigs.subj_doc(blobs, docs[1]), 'doc hash=%s' % h, hname=h)
        for vi, v in enumerate(variants):
            one(0x00, {'doc': docs[vi % len(docs)]}, docs[vi % len(docs)], sigs.subj_doc(blobs, docs[vi % len(docs)]), 'doc variant %d' % vi, **dict(v))
            text = 'foreign text\nwith bare LF\r\nand CRLF\n'
            one(0x01, {'doc': text.encode()}, text, sigs.subj_doc(blobs, text.encode()), 'text variant %d' % vi, **dict(v))
            one(0x10 + (vi % 4), {'primary': tbody, 'uid': tuid, 'isuid': True}, tpub.userids[0], sigs.subj_cert(blobs, tblob, str(tpub.fingerprint), tuid),
                'third-party cert variant %d' % vi, **dict(v))
            one(0x1F, {'primary': tbody}, tpub, sigs.subj_key(blobs, tblob, str(tpub.fingerprint)), 'direct-key variant %d' % vi, **dict(v))
        one(0x40, {}, None, {}, 'timestamp')
        one(0x13, {'primary': fk.pub_body, 'uid': uid, 'isuid': True}, pub.userids[0], sigs.subj_cert(blobs, kblob, fk.fingerprint.hex(), uid), 'self-cert')
        one(0x18, {'primary': fk.pub_body, 'sub': sk.pub_body}, list(pub.subkeys.values())[0], sigs.subj_keys(blobs, kblob, fk.fingerprint.hex(), sk.fingerprint.hex()), 'subkey binding')
        one(0x28, {'primary': fk.pub_body, 'sub': sk.pub_body}, list(pub.subkeys.values())[0], sigs.subj_keys(blobs, kblob, fk.fingerprint.hex(), sk.fingerprint.hex()), 'subkey revocation',
            extra=[build.subpacket(29, b'\x01superseded')])
        one(0x20, {'primary': fk.pub_body}, pub, sigs.subj_key(blobs, kblob, fk.fingerprint.hex()), 'key revocation', extra=[build.subpacket(29, b'\x00')])
        one(0x30, {'primary': fk.pub_body, 'uid': uid, 'isuid': True}, pub.userids[0], sigs.subj_cert(blobs, kblob, fk.fingerprint.hex(), uid), 'cert revocation',
            extra=[build.subpacket(29, b'\x20no longer valid')])
        # a certification over a user ATTRIBUTE of the key whose image subpacket uses a private-use encoding octet (100): the attribute is hashed
        # as it is in the key (0xD1 || len4 || subpackets)
        try:
            imgdata = bytes(range(64)) * 2
            # ... and image headers as other producers may write them: reserved octets that are not zero, a longer header of another version,
            # the subpacket length in its five-octet form - whatever it looks like, the attribute is certified as the octets it consists of
            for enc_octet, ihdr, lform in ((1, None, None), (100, None, None), (1, b'\x10\x00\x01\x01' + bytes(range(1, 13)), None), (1, b'\x14\x00\x02\x01' + bytes(16), None),
                                           (1, None, 5), (1, b'\x10\x00\x01\x01' + b'\xff' * 12, 2)):
                ihdr_ = ihdr if ihdr is not None else b'\x10\x00\x01' + bytes([enc_octet]) + bytes(12)
                img_ = imgdata if lform != 2 else imgdata * 2
                ua = build.sub_len(1 + len(ihdr_) + len(img_), lform) + b'\x01' + ihdr_ + img_
                enc_octet = '%d%s%s' % (enc_octet, ', image header %s' % ihdr_[:4].hex() + ('' if ihdr is None else ' (unusual)'), '' if lform is None else ', %d-octet subpacket length' % lform)
                t[0] += 1
                cert, hin = build.sig_packet(fk, 0x13, 'sha256', [], [], build.subject_octets(0x13, primary=fk.pub_body, uid=ua, isuid=False), created=t[0])
                kb2 = kblob + build.pkt(17, ua) + cert
                with warnings.catch_warnings():
                    warnings.simplefilter('ignore')
                    pub2 = pgpy.PGPKey.from_blob(kb2)[0]
                    uao = pub2.userattributes[0]
                    so = next(x for x in uao.__sig__)
                    res = sigs.verify_outcome(pub2, uao, so)
                ev.append({'k': 'foreign', 'sig': blobs.add(cert), 'subj': sigs.subj_cert(blobs, kb2, fk.fingerprint.hex(), ua), 'signed_over': blobs.add(hin),
                           'clause': 'C02.indep-signer', 'label': '%s self-certification of a user attribute, image encoding %s' % (kind, enc_octet), 'accepted': True, 'result': res})
        except Exception as ex:
            ctx.note('user attribute certification (%s): %s' % (kind, repr(ex)[:100]))
        # the self-signatures built into the foreign key itself: the whole key must verify under PGPy
        res = sigs.verify_outcome(pub, pub, None)
        ev.append({'k': 'foreign', 'sig': blobs.add(next(r for t_, b, r in build.read_packets(kblob) if t_ == 2)),
                   'subj': sigs.subj_cert(blobs, kblob, fk.fingerprint.hex(), uid),
                   'signed_over': blobs.add(build.subject_octets(0x13, primary=fk.pub_body, uid=uid) + _region_trailer(next(b for t_, b, r in build.read_packets(kblob) if t_ == 2))),
                   'clause': 'C02.indep-signer', 'label': '%s whole foreign key verifies with itself' % kind, 'accepted': True, 'result': res})
    # a foreign key whose self-certification carries a key expiration time of ZERO (RFC 4880 5.2.3.6: "if this is not present or has a value
    # of zero, the key never expires") and, for comparison, one far in the future: documents signed by them verify
    for label, secs in (('zero (never expires)', 0), ('one hundred years', 86400 * 36500)):
        fk = build.ForeignKey('ed25519')
        uid = b'Never Expires <ne@example.org>'
        kblob = build.transferable_key(fk, [uid], extra_hashed=[build.subpacket(9, struct.pack('>I', secs))])
        doc = b'signed by a key with a key expiration time of ' + label.encode()
        pkt, hin = build.sig_packet(fk, 0x00, 'sha256', [], [], build.subject_octets(0x00, doc=doc), created=fk.created + 3600)
        with warnings.catch_warnings():
            warnings.simplefilter('ignore')
            try:
                pub = pgpy.PGPKey.from_blob(kblob)[0]
                res = sigs.verify_outcome(pub, doc, sigs.parse_sig(pkt))
            except Exception:
                res = 'raised'
        ev.append({'k': 'foreign', 'sig': blobs.add(pkt), 'subj': sigs.subj_doc(blobs, doc), 'signed_over': blobs.add(hin), 'clause': 'C02.indep-signer',
                   'label': 'document signed by a foreign key whose key expiration time is %s' % label, 'accepted': True, 'result': res})
    return ev


def _region_trailer(body):
    f = build.read_sig_body(body)
    return bytes(f['region']) + b'\x04\xff' + struct.pack('>I', len(f['region']))


def _as_text_subject(pgpy, text):
    return pgpy.PGPMessage.new(text, cleartext=True)


def run(ctx):
    ctx.assumptions += ['TLC/SANY', 'JSON marshalling', 'hashlib digests and the cryptography package as signature primitives',
                        '"independent implementation" = TLA+ composition rules + trusted primitives; every value the Python side parses or builds is re-checked by TLC']
    warnings.simplefilter('ignore')
    ctx.model('MC_SigHash', 'MC_SigHash_small')
    g = ctx.model('Gen_SigOpts')
    combos = sorted({(p[1], tuple(sorted(p[2]))) for p in g.prints if isinstance(p, list) and p and p[0] == 'OPT'})
    if len(combos) < 300:
        raise MachineryError('Gen_SigOpts produced %d combinations' % len(combos))
    blobs = sigs.Blobs()
    pev = pgpy_side(ctx, blobs, combos)
    fev = foreign_side(ctx, blobs)
    ev = pev + fev
    for e in pev:
        ctx.case(('pgpy', e['alg'], e['kind'], tuple(e['opts'])))
    for e in fev:
        ctx.case(('foreign', e['label']))
    ctx.sample({k: v for k, v in pev[5].items() if k != 'claimed'})
    ctx.sample({k: v for k, v in pev[len(pev) // 2].items() if k != 'claimed'})
    ctx.sample({k: v for k, v in fev[3].items()})
    ctx.sample({k: v for k, v in fev[-1].items()})
    rej = sigs.judge(ctx, blobs, ev, chunk=1500)
    ctx.traces += len(ev) - len(rej)
    bad = {i for i, _ in rej}
    good = [e for i, e in enumerate(ev) if i not in bad]

    def c_claim(field, fn):
        def f(e):
            if e['k'] != 'indep':
                return None
            e['claimed'] = dict(e['claimed'])
            e['claimed'][field] = fn(e['claimed'][field])
            return e
        return f
    ctx.selftest(lambda b: sigs.judge(ctx, blobs, b), good,
                 [('claimed digest does not start with the left-16 field', c_claim('digest', lambda d: [d[0] ^ 1] + d[1:])),
                  ('claimed signature integers differ from the wire', c_claim('sigmags', lambda m: [[m[0][0] ^ 1] + m[0][1:]] + m[1:])),
                  ('primitive verdict negative', c_claim('primitive_ok', lambda v: False)),
                  ('claimed hash input is that of another signature', lambda e: dict(e, claimed=dict(e['claimed'], hashinput=next(x['claimed']['hashinput'] for x in good if x['k'] == 'indep' and x['claimed']['hashinput'] != e['claimed']['hashinput']))) if e['k'] == 'indep' else None),
                  ('re-import failed', lambda e: dict(e, reimport_ok=False) if e['k'] == 'indep' else None),
                  ('PGPy rejects a valid foreign signature', lambda e: dict(e, result='falsy') if e['k'] == 'foreign' and e['result'] == 'truthy' else None)], 'C02')
    ctx.extra['pgpy_signatures_checked_by_independent_verifier'] = len(pev)
    ctx.extra['foreign_signatures_given_to_pgpy'] = len(fev)
    ctx.extra['option_combinations'] = len(combos)
    if len(pev) < 300 or len(fev) < 100:
        raise MachineryError('too few events: %d / %d' % (len(pev), len(fev)))
    for idx, clause in rej:
        e = ev[idx]
        if e['k'] == 'indep':
            key = 'kind=%s opts=%s' % (e['kind'], '+'.join(o.split('=')[0] for o in e['opts']) or '-')
        else:
            key = 'foreign %s' % ' '.join(e['label'].split(' ')[1:]).split(' hash=')[0]
        ctx.violation(clause, key, {'event': {k: v for k, v in e.items() if k != 'claimed'}, 'sig': blobs.table[e['sig'] - 1]})
    return ctx.finish(level='model_checking',
                      rule='PGPy side: covering set (none/singles/pairs/all) of the optional parameters per call kind from SigOpts.tla x algorithms, '
                           'plus every hash x {document, text, user-attribute certification}; foreign side: independent signer x 4-7 key kinds x '
                           '7 hashes x encoding variants (hashed issuer, old format, 5-octet lengths, padded MPIs, extra subpackets) x signature types',
                      exhaustive=False)


def replay(ctx, rep):
    print('stored event:', rep['detail']['event'])
    print('signature packet:', bytes(rep['detail']['sig']).hex())
    print('re-run ./check C02 to re-record with fresh keys')
    return 0
