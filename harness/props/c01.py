"""C01 - signature soundness: verification never accepts what was not signed.

Spec: spec/Sound.tla (ideal-primitive model of sign / mutate / verify), spec/SigHash.tla (what is signed),
      models/MC_SigHash (injectivity of the hash input on semantic classes).
  MC_Sound         Sound + NeutralOK for every sequence of <= 2 field mutations; four spec mutations (a hashed
                   field omitted from what the primitive sees) must each give a counterexample
  MC_SigHash       distinct semantic configurations have distinct hash inputs (tiny alphabets, all 15 types)
  Gen_Sound        (signature type x mutated field) scenarios with their semantic / neutral classification (binding G)
  Trace_Sig        every verification attempt on the real library (original + mutated signature packet octets,
                   subject octets cut from exported keys, verifying key export, result) judged by TLC:
                   truthy => the signer's key is among the verifying key's components, the hash input and the
                   signature value are those that were signed (binding O)
"""
import struct
import warnings

from .. import build, sigs, keys as K
from ..common import MachineryError, import_pgpy

ALGS_QUICK = ['ed25519', 'p256', 'rsa2048', 'dsa1024']
ALGS_THOROUGH = ['ed25519', 'p256', 'p384', 'p521', 'k256', 'rsa2048', 'rsa3072', 'dsa1024', 'dsa2048']
HASHES = ['MD5', 'SHA1', 'RIPEMD160', 'SHA224', 'SHA256', 'SHA384', 'SHA512']


class SigLayout(object):
    """offsets of the fields of an exported v4 signature packet."""

    def __init__(self, pkt):
        tag, body, raw = build.read_packets(pkt)[0]
        self.hdr = len(raw) - len(body)
        self.hl = (body[4] << 8) | body[5]
        self.ul = (body[6 + self.hl] << 8) | body[7 + self.hl]
        h = self.hdr
        self.f = {
            'type': (h + 1, 1), 'pk': (h + 2, 1), 'h': (h + 3, 1), 'hashedLen': (h + 4, 2), 'hashed': (h + 6, self.hl),
            'unhashedLen': (h + 6 + self.hl, 2), 'unhashed': (h + 8 + self.hl, self.ul), 'left16': (h + 8 + self.hl + self.ul, 2),
            'sigval': (h + 10 + self.hl + self.ul, len(body) - (10 + self.hl + self.ul)),
        }
        self.body = body


def flip(pkt, off, bit):
    m = bytearray(pkt)
    m[off] ^= 1 << bit
    return bytes(m)


def setb(pkt, off, val):
    m = bytearray(pkt)
    m[off] = val
    return bytes(m)


def rewrap(pkt, body):
    """re-encode a signature packet with a new body (new-format header)."""
    return build.pkt(2, body)


class Case(object):
    """one original signature: PGPy objects + descriptors for TLC."""

    def __init__(self, name, sig, subject, subj_desc, signer_desc, pub, vkb, alt_subjects):
        self.name = name
        self.sig = sig
        self.pkt = bytes(sig) if sig is not None else b""
        self.subject = subject          # object handed to PGPKey.verify
        self.subj_desc = subj_desc
        self.signer = signer_desc
        self.pub = pub                  # verifying key (public, re-imported)
        self.vkb = vkb
        self.alt = alt_subjects         # [(label, subject object, subj_desc)] subjects that differ semantically


def make_cases(ctx, alg, blobs):
    pgpy = import_pgpy()
    from pgpy.constants import SignatureType, KeyFlags, HashAlgorithm, CompressionAlgorithm
    subalg = alg if alg in ('ed25519', 'p256') else 'ed25519'
    k = K.new_key(alg, name='Signer %s' % alg, email='signer@x.org', subs=[(subalg, {KeyFlags.Sign}), ('cv25519', {KeyFlags.EncryptCommunications})],
                  hashes=[getattr(HashAlgorithm, h) for h in HASHES])
    k.add_uid(pgpy.PGPUID.new('Signer Alt', email='alt@x.org'), usage={KeyFlags.Sign, KeyFlags.Certify}, created=K.ts(K.T0 + 3))
    k2 = K.new_key(alg if alg not in ('rsa3072', 'dsa2048') else 'ed25519', name='Other', email='other@x.org', subs=[(subalg, {KeyFlags.Sign})])
    k3 = K.new_key('ed25519', name='Signer %s' % alg, email='signer@x.org')      # same user id text on another key
    kblob, k2blob, k3blob = bytes(k.pubkey), bytes(k2.pubkey), bytes(k3.pubkey)
    pub = pgpy.PGPKey.from_blob(kblob)[0]
    pub2 = pgpy.PGPKey.from_blob(k2blob)[0]
    pub3 = pgpy.PGPKey.from_blob(k3blob)[0]
    vkb = blobs.add(kblob)
    kfp, k2fp = str(k.fingerprint), str(k2.fingerprint)
    primary = {'kb': vkb, 'idx': sigs.key_index(kblob, kfp)}
    subs = list(k.subkeys.values())
    subfp = str(subs[0].fingerprint)
    signsub = {'kb': vkb, 'idx': sigs.key_index(kblob, subfp)}
    cases = []
    t = [K.T0 + 1000]
    comp_by_id = {k.fingerprint.keyid: primary}
    for sk_ in k.subkeys.values():
        comp_by_id[sk_.fingerprint.keyid] = {'kb': vkb, 'idx': sigs.key_index(kblob, str(sk_.fingerprint))}

    class _C(Case):
        """the signer descriptor is taken from the key id the signature itself names"""

        def __init__(self, name, sig, subject, subj_desc, signer_desc, pub_, vkb_, alt):
            Case.__init__(self, name, sig, subject, subj_desc, comp_by_id.get(sig.signer, signer_desc), pub_, vkb_, alt)
            if getattr(sig, 'embedded', False):
                raw = bytes(sig)                         # an embedded signature is exported as a subpacket: length, type 32, body
                self.pkt = build.pkt(2, raw[(2 if raw[0] < 192 else 3 if raw[0] < 255 else 6):])

    def now():
        t[0] += 1
        return K.ts(t[0])

    def uidb(u):
        return str(u).encode('utf-8') if not isinstance(u, bytes) else u

    def uid_bytes(key, n):
        return bytes(key.userids[n]._uid.__bytearray__()[len(key.userids[n]._uid.header):])
    # --- documents: one signature per hash
    doc = b'The quick brown fox\njumps over the lazy dog.\n\x00\xff binary tail'
    docs_alt = [('doc-flip', doc[:5] + bytes([doc[5] ^ 1]) + doc[6:]), ('doc-extend', doc + b'\x00'), ('doc-truncate', doc[:-1]), ('doc-empty', b'')]
    hashes = HASHES if alg in ('ed25519', 'rsa2048') or not ctx.quick else ['SHA256', 'SHA512']
    for h in hashes:
        try:
            s = k.sign(doc, hash=getattr(HashAlgorithm, h), created=now())
        except Exception as ex:
            ctx.note('sign with %s/%s refused: %s' % (alg, h, repr(ex)[:80]))
            continue
        alts = [(l, d, sigs.subj_doc(blobs, d)) for l, d in docs_alt] if h in ('SHA256', 'SHA1') else [(docs_alt[0][0], docs_alt[0][1], sigs.subj_doc(blobs, docs_alt[0][1]))]
        cases.append(_C('doc-%s' % h, s, doc, sigs.subj_doc(blobs, doc), primary, pub, vkb, alts))
    # --- document signed by the signing subkey (enforce the subkey by removing the primary's signing flag? no: sign with the subkey object)
    s = subs[0].sign(doc, created=now())
    cases.append(_C('doc-by-subkey', s, doc, sigs.subj_doc(blobs, doc), signsub, pub, vkb, [(docs_alt[0][0], docs_alt[0][1], sigs.subj_doc(blobs, docs_alt[0][1]))]))
    # --- canonical text (cleartext message)
    text = 'line one\nline two with trailing space \n-dash line\nlast'
    cm = pgpy.PGPMessage.new(text, cleartext=True)
    s = k.sign(cm, created=now())
    tb = text.encode('utf-8')
    cases.append(_C('text', s, text, sigs.subj_doc(blobs, tb), primary, pub, vkb,
                      [('text-flip', text.replace('two', 'twO'), sigs.subj_doc(blobs, text.replace('two', 'twO').encode())),
                       ('text-extra-line', text + '\nmore', sigs.subj_doc(blobs, (text + '\nmore').encode()))]))
    # --- timestamp and standalone
    s = k.sign(None, created=now())
    cases.append(_C('timestamp', s, None, {}, primary, pub, vkb, []))
    s = k.sign(None, notation={'n@example.org': 'v'}, created=now())
    cases.append(_C('standalone', s, None, {}, primary, pub, vkb, []))
    # --- certifications over another key's user id (third party), all four levels
    u2 = k2.userids[0]
    u2b = uid_bytes(k2, 0)
    pu2 = pub2.userids[0]
    cert_desc = sigs.subj_cert(blobs, k2blob, k2fp, u2b)
    # same text on k3 (subject differs in the primary key only), other uid of k (subject differs in the uid only)
    alt_cert = [('cert-same-uid-other-key', pub3.userids[0], sigs.subj_cert(blobs, k3blob, str(k3.fingerprint), uid_bytes(k3, 0))),
                ('cert-other-uid', pub.userids[0], sigs.subj_cert(blobs, kblob, kfp, uid_bytes(k, 0)))]
    for lvl in (SignatureType.Generic_Cert, SignatureType.Persona_Cert, SignatureType.Casual_Cert, SignatureType.Positive_Cert):
        s = k.certify(u2, level=lvl, created=now())
        cases.append(_C('cert-%02x' % int(lvl), s, pu2, cert_desc, primary, pub, vkb, alt_cert if lvl == SignatureType.Generic_Cert else alt_cert[:1]))
    # --- self-certification (as stored in the key), attestation, certification revocation
    su = pub.userids[0]
    sdesc = sigs.subj_cert(blobs, kblob, kfp, uid_bytes(k, 0))
    alt_self = [('selfcert-other-uid', pub.userids[1], sigs.subj_cert(blobs, kblob, kfp, uid_bytes(k, 1))),
                ('selfcert-uid-of-other-key', pub3.userids[0], sigs.subj_cert(blobs, k3blob, str(k3.fingerprint), uid_bytes(k3, 0)))]
    cases.append(_C('selfcert', k.userids[0].selfsig, su, sdesc, primary, pub, vkb, alt_self))
    try:
        s = k.certify(k.userids[0], level=SignatureType.Attestation, attested_certifications=[], created=now())
        cases.append(_C('attestation', s, su, sdesc, primary, pub, vkb, alt_self))
    except Exception as ex:
        ctx.note('attestation refused: %s' % repr(ex)[:80])
    s = k.revoke(k.userids[0], created=now())
    cases.append(_C('cert-revocation', s, su, sdesc, primary, pub, vkb, alt_self[:1]))
    # --- direct-key signature over another key, key revocation of own key
    s = k.certify(k2, created=now())
    dk_desc = sigs.subj_key(blobs, k2blob, k2fp)
    cases.append(_C('direct-key', s, pub2, dk_desc, primary, pub, vkb, [('key-other', pub3, sigs.subj_key(blobs, k3blob, str(k3.fingerprint)))]))
    s = k.revoke(k, created=now())
    cases.append(_C('key-revocation', s, pub, sigs.subj_key(blobs, kblob, kfp), primary, pub, vkb, [('key-other', pub2, sigs.subj_key(blobs, k2blob, k2fp))]))
    # --- subkey binding (as stored), embedded primary-key binding, subkey revocation
    psubs = list(pub.subkeys.values())
    bind = next(s_ for s_ in subs[0].__sig__ if s_.type == SignatureType.Subkey_Binding)
    kdesc = sigs.subj_keys(blobs, kblob, kfp, subfp)
    other_sub = sigs.subj_keys(blobs, kblob, kfp, str(subs[1].fingerprint))
    cases.append(_C('subkey-binding', bind, psubs[0], kdesc, primary, pub, vkb, [('other-subkey', psubs[1], other_sub)]))
    back = next((s_ for s_ in subs[0].__sig__ if s_.type == SignatureType.PrimaryKey_Binding), None)
    if back is not None:
        # the embedded back signature (0x19) is issued by the subkey over (primary, subkey); as subject PGPy takes the primary key.
        # alternative subject: the same subkey transplanted under another primary key (k3 + k's subkey packet and binding)
        kp_ = build.read_packets(kblob)
        si_ = next(i for i, p_ in enumerate(kp_) if p_[0] == 14 and sigs.fpr_of_body(p_[1]).hex().upper() == subfp)
        k3p_ = build.read_packets(k3blob)
        forged_blob = b''.join(p_[2] for p_ in k3p_) + kp_[si_][2] + kp_[si_ + 1][2]
        alts_ = []
        try:
            forged = pgpy.PGPKey.from_blob(forged_blob)[0]
            alts_.append(('subkey transplanted under another primary', forged, sigs.subj_keys(blobs, forged_blob, str(k3.fingerprint), subfp)))
        except Exception as ex:
            ctx.note('could not build transplanted key: %s' % repr(ex)[:80])
        cases.append(_C('primary-binding', back, pub, kdesc, signsub, pub, vkb, alts_))
    s = k.revoke(subs[0], created=now())
    cases.append(_C('subkey-revocation', s, psubs[0], kdesc, primary, pub, vkb, [('other-subkey', psubs[1], other_sub)]))
    return cases, {'k': k, 'k2': k2, 'pub': pub, 'pub2': pub2, 'kblob': kblob, 'k2blob': k2blob, 'vkb': vkb, 'vkb2': blobs.add(k2blob),
                   'primary': primary, 'signsub': signsub}


def attempt(ev, blobs, case, label, apkt, subject, asubj, pub=None, vkb=None, field=None, semantic=None):
    pub = pub or case.pub
    vkb = vkb or case.vkb
    if apkt is None:
        s, asig = case.sig, blobs.add(case.pkt)
        s = sigs.parse_sig(case.pkt)
    else:
        s = sigs.parse_sig(apkt)
        asig = blobs.add(apkt) if s is not None else 0
    res = 'raised' if s is None else sigs.verify_outcome(pub, subject, s)
    ev.append({'k': 'attempt', 'osig': blobs.add(case.pkt), 'osubj': case.subj_desc, 'signer': case.signer, 'asig': asig,
               'asubj': asubj, 'vkb': vkb, 'result': res, 'case': case.name, 'mut': label, 'field': field, 'expect_semantic': semantic})
    if apkt is None:
        # the verdict is a function of (key, subject, signature), not of the history of the objects: present the same signature OBJECT
        # again after it has been accepted once by its own key over its own subject
        warm = getattr(case, 'warm', None)
        if warm is None:
            warm = sigs.parse_sig(case.pkt)
            if warm is not None:
                sigs.verify_outcome(case.pub, case.subject, warm)
            case.warm = warm
        if warm is not None:
            res2 = sigs.verify_outcome(pub, subject, warm)
            ev.append({'k': 'attempt', 'osig': blobs.add(case.pkt), 'osubj': case.subj_desc, 'signer': case.signer, 'asig': asig,
                       'asubj': asubj, 'vkb': vkb, 'result': res2, 'case': case.name, 'mut': label + ' [signature object accepted once before]', 'field': field,
                       'expect_semantic': semantic})
    return res


def mutate_case(ctx, ev, blobs, case, env, scen):
    """concretise every (field) scenario of Gen_Sound on one original signature."""
    L = SigLayout(case.pkt)
    rng = ctx.rng
    # 0. the unmodified signature must verify (sanity of the case; a falsy here is not a C01 matter but makes the case useless)
    r0 = attempt(ev, blobs, case, 'unmodified', None, case.subject, case.subj_desc, field='none', semantic=False)
    if r0 != 'truthy':
        ctx.note('case %s does not verify unmodified (%s): mutations on it are vacuous' % (case.name, r0))
        return False
    for field in sorted(scen):
        if field in ('type', 'pk', 'h'):
            off, _ = L.f[field]
            for bit in range(8):
                attempt(ev, blobs, case, '%s bit %d' % (field, bit), flip(case.pkt, off, bit), case.subject, case.subj_desc, field=field, semantic=True)
            if field == 'pk' and case.pkt[off] == 1:
                attempt(ev, blobs, case, 'pk RSA 1->3', setb(case.pkt, off, 3), case.subject, case.subj_desc, field=field, semantic=True)
            if field == 'type':
                for v in (0x00, 0x01, 0x10, 0x13, 0x18, 0x19, 0x1F, 0x20, 0x28, 0x30, 0x40, 0x02, 0x16):
                    if v != case.pkt[off]:
                        attempt(ev, blobs, case, 'type -> %02x' % v, setb(case.pkt, off, v), case.subject, case.subj_desc, field=field, semantic=True)
            if field == 'h':
                for v in (1, 2, 3, 8, 9, 10, 11):
                    if v != case.pkt[off]:
                        attempt(ev, blobs, case, 'hash -> %d' % v, setb(case.pkt, off, v), case.subject, case.subj_desc, field=field, semantic=True)
        elif field == 'hashed':
            off, n = L.f['hashed']
            bits = list(range(n * 8))
            if len(bits) > (64 if ctx.quick else 400) and not case.name.startswith('doc-SHA256'):
                bits = sorted(rng.sample(bits, 48 if ctx.quick else 200))
            for b in bits:
                attempt(ev, blobs, case, 'hashed bit %d' % b, flip(case.pkt, off + b // 8, b % 8), case.subject, case.subj_desc, field=field, semantic=True)
            # drop the last hashed subpacket / add one, with consistent lengths (re-wrapped packet)
            body = L.body
            hs = body[6:6 + L.hl]
            sp = build.subpacket(100, b'xx')
            nb = body[:4] + struct.pack('>H', len(hs) + len(sp)) + hs + sp + body[6 + L.hl:]
            attempt(ev, blobs, case, 'hashed subpacket added', rewrap(case.pkt, nb), case.subject, case.subj_desc, field=field, semantic=True)
            # move the hashed issuer-fingerprint / last subpacket out (truncate area by its last subpacket)
            p, last = 0, 0
            while p < len(hs):
                last = p
                ln = hs[p] if hs[p] < 192 else ((hs[p] - 192) << 8) + hs[p + 1] + 192
                p += (1 if hs[p] < 192 else 2) + ln
            nb = body[:4] + struct.pack('>H', last) + hs[:last] + body[6 + L.hl:]
            attempt(ev, blobs, case, 'last hashed subpacket removed', rewrap(case.pkt, nb), case.subject, case.subj_desc, field=field, semantic=True)
            nb = body[:4] + struct.pack('>H', last) + hs[:last] + struct.pack('>H', L.ul + len(hs) - last) + hs[last:] + body[8 + L.hl:]
            attempt(ev, blobs, case, 'last hashed subpacket moved to unhashed area', rewrap(case.pkt, nb), case.subject, case.subj_desc, field=field, semantic=True)
        elif field == 'hashedLen':
            off, _ = L.f['hashedLen']
            for b in range(16):
                attempt(ev, blobs, case, 'hashedLen bit %d' % b, flip(case.pkt, off + b // 8, b % 8), case.subject, case.subj_desc, field=field, semantic=True)
        elif field == 'sigval':
            off, n = L.f['sigval']
            bits = sorted(set([16, 17, n * 8 - 1, n * 8 - 2] + rng.sample(range(16, n * 8), min(24 if ctx.quick else 120, n * 8 - 16))))
            for b in bits:
                attempt(ev, blobs, case, 'sigval bit %d' % b, flip(case.pkt, off + b // 8, b % 8), case.subject, case.subj_desc, field=field, semantic=True)
            # the first integer with a non-zero octet prepended (value + k * 256^len): a different integer
            body = L.body
            o2 = 10 + L.hl + L.ul
            bits0 = (body[o2] << 8) | body[o2 + 1]
            nb0 = (bits0 + 7) // 8
            for lead in (1, 0x80):
                nbody = body[:o2] + struct.pack('>H', nb0 * 8 + lead.bit_length()) + bytes([lead]) + body[o2 + 2:]
                attempt(ev, blobs, case, 'sigval integer + k*256^len', rewrap(case.pkt, nbody), case.subject, case.subj_desc, field=field, semantic=True)
            # zeroed value, values of another signature by the same key (splice)
            other = env.get('other_sigval', {}).get(case.pkt[L.f['pk'][0]])
            if other is not None and other != case.pkt[off:]:
                attempt(ev, blobs, case, 'sigval of another signature', rewrap(case.pkt, L.body[:10 + L.hl + L.ul] + other), case.subject, case.subj_desc, field=field, semantic=True)
        elif field in ('subj1', 'subj2', 'subjLen', 'subjKind'):
            for label, subj, desc in case.alt:
                attempt(ev, blobs, case, '%s: %s' % (field, label), None, subj, desc, field=field, semantic=True)
            if field == 'subjKind' and case.subject is not None:
                # a subject of another kind altogether
                other = env['pub2'] if not hasattr(case.subject, 'fingerprint') else b'some document'
                desc = sigs.subj_key(blobs, env['k2blob'], str(env['k2'].fingerprint)) if not hasattr(case.subject, 'fingerprint') else sigs.subj_doc(blobs, b'some document')
                attempt(ev, blobs, case, 'subjKind: other kind', None, other, desc, field=field, semantic=True)
        elif field == 'vkey':
            # (a) verify with an unrelated key; (b) relabel the unhashed issuer to the other key and verify with it;
            # (c) a signature by the subkey relabelled to the primary (and vice versa)
            attempt(ev, blobs, case, 'vkey: unrelated key', None, case.subject, case.subj_desc, pub=env['pub2'], vkb=env['vkb2'], field=field, semantic=True)
            for target, lab in ((env['k2'].fingerprint.keyid, 'other key'), (list(env['k'].subkeys)[0] if case.signer == env['primary'] else env['k'].fingerprint.keyid, 'sibling component')):
                nb = relabel_issuer(L, bytes.fromhex(target))
                if nb is None:
                    continue
                vp, vb = (env['pub2'], env['vkb2']) if lab == 'other key' else (case.pub, case.vkb)
                attempt(ev, blobs, case, 'vkey: issuer relabelled to %s' % lab, rewrap(case.pkt, nb), case.subject, case.subj_desc, pub=vp, vkb=vb, field=field, semantic=True)
        elif field == 'unhashed':
            body = L.body
            sp = build.subpacket(101, b'advisory')
            nb = body[:6 + L.hl] + struct.pack('>H', L.ul + len(sp)) + body[8 + L.hl:8 + L.hl + L.ul] + sp + body[8 + L.hl + L.ul:]
            attempt(ev, blobs, case, 'unhashed subpacket added', rewrap(case.pkt, nb), case.subject, case.subj_desc, field=field, semantic=False)
        elif field == 'left16':
            off, _ = L.f['left16']
            attempt(ev, blobs, case, 'left16 changed', flip(case.pkt, off, 0), case.subject, case.subj_desc, field=field, semantic=False)
        elif field == 'hdrfmt':
            attempt(ev, blobs, case, 'header: new 5-octet length', build.pkt(2, L.body, form=5), case.subject, case.subj_desc, field=field, semantic=False)
            attempt(ev, blobs, case, 'header: old format', build.pkt(2, L.body, fmt='old'), case.subject, case.subj_desc, field=field, semantic=False)
        elif field == 'mpipad':
            off = 10 + L.hl + L.ul
            body = L.body
            bits = (body[off] << 8) | body[off + 1]
            nb = body[:off] + struct.pack('>H', bits + 8) + b'\x00' + body[off + 2:]
            attempt(ev, blobs, case, 'first MPI zero-padded', rewrap(case.pkt, nb), case.subject, case.subj_desc, field=field, semantic=False)
    return True


def relabel_issuer(L, keyid8):
    """body with the *unhashed* issuer subpacket (type 16) renamed; None if there is none."""
    body = bytearray(L.body)
    p = 8 + L.hl
    end = p + L.ul
    found = False
    while p < end:
        ln = body[p]
        if ln >= 192:
            return None
        if body[p + 1] & 0x7f == 16 and ln == 9:
            body[p + 2:p + 10] = keyid8
            found = True
        p += 1 + ln
    return bytes(body) if found else None


def carrier_events(ctx, ev, blobs, env, alg):
    """signatures carried inside a message and certifications carried inside a key: mutate the carrier's octets."""
    pgpy = import_pgpy()
    from pgpy.constants import CompressionAlgorithm
    k, pub = env['k'], env['pub']
    # --- inline-signed message
    content = b'inline signed content: %s' % alg.encode()
    msg = pgpy.PGPMessage.new(content, compression=CompressionAlgorithm.Uncompressed, format='b')
    msg |= k.sign(msg, created=K.ts(K.T0 + 5000))
    mblob = bytes(msg)
    pk = build.read_packets(mblob)
    tags = [p[0] for p in pk]
    if tags != [4, 11, 2]:
        ctx.note('unexpected message layout %s' % tags)
        return
    lit = pk[1]
    litbody = lit[1]
    fnl = litbody[1]
    coff = 2 + fnl + 4
    sigpkt = pk[2][2]
    case = Case('inline-message', None, None, sigs.subj_doc(blobs, litbody[coff:]), env['primary'], pub, env['vkb'], [])
    case.pkt = sigpkt

    def try_msg(label, newlit=None, newsig=None, semantic=True):
        lb = newlit if newlit is not None else litbody
        sp = newsig if newsig is not None else sigpkt
        blob = pk[0][2] + build.pkt(11, lb) + sp
        with warnings.catch_warnings():
            warnings.simplefilter('ignore')
            try:
                m = pgpy.PGPMessage.from_blob(blob)
                r = pub.verify(m)
                res = 'truthy' if r else 'falsy'
                asig = blobs.add(sp)
            except Exception:
                res, asig = 'raised', 0
        ev.append({'k': 'attempt', 'osig': blobs.add(sigpkt), 'osubj': case.subj_desc, 'signer': case.signer, 'asig': asig,
                   'asubj': sigs.subj_doc(blobs, lb[2 + lb[1] + 4:]), 'vkb': env['vkb'], 'result': res, 'case': 'inline-message', 'mut': label,
                   'field': 'carrier', 'expect_semantic': semantic})
        return res
    if try_msg('unmodified', semantic=False) != 'truthy':
        ctx.note('inline message of %s does not verify unmodified' % alg)
    n = len(litbody) - coff
    for b in (range(n * 8) if not ctx.quick else sorted(ctx.rng.sample(range(n * 8), 40))):
        m = bytearray(litbody)
        m[coff + b // 8] ^= 1 << (b % 8)
        try_msg('literal content bit %d' % b, newlit=bytes(m))
    try_msg('literal content extended', newlit=litbody + b'!')
    try_msg('literal content truncated', newlit=litbody[:-1])
    L = SigLayout(sigpkt)
    for fld in ('type', 'h', 'hashed', 'sigval'):
        off, ln = L.f[fld]
        for b in sorted(ctx.rng.sample(range(ln * 8), min(ln * 8, 8))):
            if fld == 'sigval' and b < 16:
                continue
            try_msg('%s bit %d (inside message)' % (fld, b), newsig=flip(sigpkt, off + b // 8, b % 8))
    # neutral: literal metadata (file name / time) is not signed
    try_msg('literal file name changed (not signed)', newlit=litbody[:1] + b'\x01x' + litbody[2 + fnl:], semantic=False)
    # --- certification carried inside a key: flip bits of the user id packet, re-import, verify the key with itself
    kblob = env['kblob']
    kp = build.read_packets(kblob)
    ui = next(i for i, p in enumerate(kp) if p[0] == 13)
    si = ui + 1
    if kp[si][0] != 2:
        return
    uidbody = kp[ui][1]
    kfp = str(k.fingerprint)

    def try_key(label, newuid):
        blob = b''.join(p[2] for p in kp[:ui]) + build.pkt(13, newuid) + b''.join(p[2] for p in kp[si:])
        with warnings.catch_warnings():
            warnings.simplefilter('ignore')
            try:
                kk = pgpy.PGPKey.from_blob(blob)[0]
                u = next(u_ for u_ in kk.userids if bytes(u_._uid.__bytearray__()[len(u_._uid.header):]) == newuid)
                s = u.selfsig
                if s is None:
                    res = 'raised'
                else:
                    res = 'truthy' if kk.verify(u, s) else 'falsy'
                # the same certification examined as one of SEVERAL signatures: the key verified with itself (all self-signatures and bindings);
                # a truthy answer would vouch for the altered identity too
                try:
                    res_all = 'truthy' if (s is not None and kk.verify(kk)) else 'falsy'
                except Exception:
                    res_all = 'raised'
            except Exception:
                res = res_all = 'raised'
        try:
            asubj = sigs.subj_cert(blobs, blob, kfp, newuid)
        except Exception:
            return
        ev.append({'k': 'attempt', 'osig': blobs.add(kp[si][2]), 'osubj': sigs.subj_cert(blobs, kblob, kfp, uidbody), 'signer': env['primary'],
                   'asig': blobs.add(kp[si][2]) if res != 'raised' else 0, 'asubj': asubj, 'vkb': blobs.add(blob), 'result': res,
                   'case': 'cert-inside-key', 'mut': label, 'field': 'carrier', 'expect_semantic': newuid != uidbody})
        ev.append(dict(ev[-1], result=res_all, asig=blobs.add(kp[si][2]) if res_all != 'raised' else 0, mut=label + ' [whole key verified with itself]'))
    try_key('unmodified', uidbody)
    for b in (range(len(uidbody) * 8) if not ctx.quick else sorted(ctx.rng.sample(range(len(uidbody) * 8), 40))):
        m = bytearray(uidbody)
        m[b // 8] ^= 1 << (b % 8)
        try_key('user id bit %d (inside key)' % b, bytes(m))
    try_key('user id extended', uidbody + b' ')
    try_key('user id truncated', uidbody[:-1])
    # --- the verifying key carries a REVOCATION (an advisory condition): what it reports about the key must not replace the outcome of
    #     the cryptographic check - an altered document, a flipped signature bit, somebody else's signature stay rejected
    try:
        kr = pgpy.PGPKey.from_blob(bytes(k))[0]
        with warnings.catch_warnings():
            warnings.simplefilter('ignore')
            kr |= kr.revoke(kr, created=K.ts(K.T0 + 6000))
            rpub = pgpy.PGPKey.from_blob(bytes(kr.pubkey))[0]
            rblob = bytes(rpub)
            doc0 = b'signed before the key was revoked: %s' % alg.encode()
            s0 = k.sign(doc0, created=K.ts(K.T0 + 5500))
            p0 = bytes(s0)
            other_sig = bytes(pgpy.PGPKey.from_blob(bytes(K.new_key('ed25519', name='Somebody Else')))[0].sign(doc0, created=K.ts(K.T0 + 5500)))
        rsigner = {'kb': blobs.add(rblob), 'idx': sigs.key_index(rblob, str(k.fingerprint))}
        body0 = build.read_packets(p0)[0][1]
        nbits = len(p0) * 8
        variants = [('unmodified (revoked verifier)', p0, doc0), ('other document (revoked verifier)', p0, doc0 + b'!'), ('signature of another key (revoked verifier)', other_sig, doc0)]
        # bits of what IS signed or IS the signature value: type / algorithm / hash octets, the hashed area with its length, the last octets of
        # the signature integers (the unhashed area, the left 16 bits and the integer length prefixes are not covered by a signature: the
        # neutral-field classes above deal with them)
        hl_ = (body0[4] << 8) | body0[5]
        sem_lo, sem_hi = (len(p0) - len(body0) + 1) * 8, (len(p0) - len(body0) + 6 + hl_) * 8
        for b in sorted(ctx.rng.sample(range((len(p0) - 20) * 8, nbits), 12)) + sorted(ctx.rng.sample(range(sem_lo, sem_hi), 12)):
            m = bytearray(p0)
            m[b // 8] ^= 1 << (b % 8)
            variants.append(('signature bit %d (revoked verifier)' % b, bytes(m), doc0))
        for label, pkt_, doc_ in variants:
            with warnings.catch_warnings():
                warnings.simplefilter('ignore')
                try:
                    so = pgpy.PGPSignature.from_blob(pkt_)
                    res = 'truthy' if rpub.verify(doc_, so) else 'falsy'
                except Exception:
                    res = 'raised'
            ev.append({'k': 'attempt', 'osig': blobs.add(p0), 'osubj': sigs.subj_doc(blobs, doc0), 'signer': rsigner, 'asig': blobs.add(pkt_) if res != 'raised' else 0,
                       'asubj': sigs.subj_doc(blobs, doc_), 'vkb': blobs.add(rblob), 'result': res, 'case': 'revoked-verifier', 'mut': label, 'field': 'carrier',
                       'expect_semantic': not label.startswith('unmodified')})
    except Exception as ex:
        ctx.note('revoked verifier (%s): %s' % (alg, repr(ex)[:100]))
    # --- a certification over a user ATTRIBUTE carried inside a key (independent encoder): every bit of the subpacket length, the type and
    #     the image header - version, encoding, the twelve reserved octets - and some image bits; all of them are part of what was signed
    if alg != 'ed25519':
        return
    fk = build.ForeignKey('ed25519')
    base = build.transferable_key(fk, [b'Attribute Owner <ao@example.org>'])
    img = bytes((i * 7) % 251 for i in range(96))
    for hname, ihdr in (('version 1 header', b'\x10\x00\x01\x01' + bytes(12)), ('header with reserved octets in use', b'\x10\x00\x01\x01' + bytes(range(1, 13)))):
        ua = build.sub_len(1 + len(ihdr) + len(img)) + b'\x01' + ihdr + img
        cert, _ = build.sig_packet(fk, 0x13, 'sha256', [], [], build.subject_octets(0x13, primary=fk.pub_body, uid=ua, isuid=False), created=fk.created + 77)
        blob0 = base + build.pkt(17, ua) + cert
        signer = {'kb': blobs.add(blob0), 'idx': sigs.key_index(blob0, fk.fingerprint.hex())}
        ffp = fk.fingerprint.hex()
        nbits = (1 + 1 + len(ihdr)) * 8
        which = [-1] + list(range(nbits)) + [nbits + 5, nbits + 300, len(ua) * 8 - 1]
        if ctx.quick:
            which = [-1] + sorted(ctx.rng.sample(range(nbits), 40)) + [nbits + 5, len(ua) * 8 - 1]
        for b in which:
            m = bytearray(ua)
            if b >= 0:
                m[b // 8] ^= 1 << (b % 8)
            newua = bytes(m)
            blob = base + build.pkt(17, newua) + cert
            with warnings.catch_warnings():
                warnings.simplefilter('ignore')
                try:
                    kk = pgpy.PGPKey.from_blob(blob)[0]
                    uao = kk.userattributes[0]
                    so = next(x for x in uao.__sig__)
                    res = 'truthy' if kk.verify(uao, so) else 'falsy'
                except Exception:
                    res = 'raised'
            try:
                asubj = sigs.subj_cert(blobs, blob, ffp, newua)
            except Exception:
                continue
            ev.append({'k': 'attempt', 'osig': blobs.add(cert), 'osubj': sigs.subj_cert(blobs, blob0, ffp, ua), 'signer': signer, 'asig': blobs.add(cert) if res != 'raised' else 0,
                       'asubj': asubj, 'vkb': blobs.add(blob), 'result': res, 'case': 'attribute-cert-inside-key', 'field': 'carrier', 'expect_semantic': newua != ua,
                       'mut': ('unmodified' if b < 0 else 'user attribute bit %d' % b) + ' (%s)' % hname})


def run(ctx):
    ctx.assumptions += ['TLC/SANY', 'JSON marshalling', 'unforgeability of RSA / DSA / ECDSA / EdDSA and collision resistance of the hashes (symbolic model)',
                        'algebraic malleability of ECDSA/DSA ((r, n-s)) is never generated; MPI leading-zero variants are normalised away']
    warnings.simplefilter('ignore')
    r = ctx.model('MC_Sound', coverage=True)
    for act in ('Mutate', 'Verify'):
        if r.coverage.get(act, (0, 0))[0] == 0:
            raise MachineryError('Sound action %s never taken' % act)
    for f in ('subjKind', 'hashedLen', 'h', 'subj2'):
        ctx.model('MC_Sound', 'MC_Sound_omit_' + f, must_hold=False)
    ctx.model('MC_SigHash', 'MC_SigHash_small' if ctx.quick else 'MC_SigHash')
    g = ctx.model('Gen_Sound')
    scen = {}
    for p in g.prints:
        if isinstance(p, list) and p and p[0] == 'SCN':
            scen[p[1]] = p[2]
    if len(scen) != 15:
        raise MachineryError('Gen_Sound produced %d fields' % len(scen))
    blobs = sigs.Blobs()
    ev = []
    algs = ALGS_QUICK if ctx.quick else ALGS_THOROUGH
    ncases = 0
    for alg in algs:
        try:
            cases, env = make_cases(ctx, alg, blobs)
        except Exception as ex:
            import traceback
            ctx.note('algorithm %s unavailable: %s' % (alg, repr(ex)[:160]))
            if alg in ('ed25519', 'rsa2048', 'p256'):
                raise
            continue
        env['other_sigval'] = {}
        for c in cases:
            L = SigLayout(c.pkt)
            env['other_sigval'].setdefault(c.pkt[L.f['pk'][0]], c.pkt[L.f['sigval'][0]:])
        for c in cases:
            fields = set(scen)
            if ctx.quick and alg != 'ed25519' and not (c.name in ('doc-SHA256', 'selfcert', 'subkey-binding', 'primary-binding', 'cert-10', 'attestation', 'doc-by-subkey', 'key-revocation')):
                fields = {'type', 'h', 'subj1', 'subj2', 'vkey', 'sigval', 'hashedLen'}
            if mutate_case(ctx, ev, blobs, c, env, fields):
                ncases += 1
        carrier_events(ctx, ev, blobs, env, alg)
    for e in ev:
        ctx.case((e['case'], e['mut'], e['osig']))
    for j in (1, len(ev) // 4, len(ev) // 2, len(ev) - 3):
        ctx.sample({k: v for k, v in ev[j].items()})
    rej = sigs.judge(ctx, blobs, ev)
    ctx.traces += len(ev) - len(rej)
    bad = {i for i, _ in rej}
    good = [e for i, e in enumerate(ev) if i not in bad]
    ctx.selftest(lambda b: sigs.judge(ctx, blobs, b), good,
                 [('a semantic mutation of the type octet reported truthy', lambda e: dict(e, result='truthy') if e['mut'].startswith('type bit') and e['asig'] and e['result'] == 'falsy' else None),
                  ('a flipped document reported truthy', lambda e: dict(e, result='truthy') if e['mut'].startswith('subj') and e['case'].startswith('doc') and e['result'] != 'truthy' and e['asig'] else None),
                  ('verification with an unrelated key reported truthy', lambda e: dict(e, result='truthy', asig=e['osig']) if e['mut'] == 'vkey: unrelated key' else None),
                  ('a flipped signature value reported truthy', lambda e: dict(e, result='truthy') if e['mut'].startswith('sigval bit') and e['result'] == 'falsy' and e['asig'] else None)], 'C01')
    out = {}
    for e in ev:
        key = ('semantic' if e['expect_semantic'] else 'neutral', e['result'])
        out['%s/%s' % key] = out.get('%s/%s' % key, 0) + 1
    rejected = {i for i, _ in rej}
    lab = {}
    for i, e in enumerate(ev):
        if e['expect_semantic'] and e['result'] == 'truthy' and i not in rejected:
            k_ = '%s / %s' % (e['field'], e['mut'].split(' bit ')[0])
            lab[k_] = lab.get(k_, 0) + 1
    ctx.extra['truthy_under_semantic_label_but_unchanged_per_tlc'] = lab
    ctx.extra['attempts'] = len(ev)
    ctx.extra['original_signatures'] = ncases
    ctx.extra['algorithms'] = algs
    ctx.extra['outcomes_by_class'] = out
    ctx.extra['fields_from_spec'] = scen
    if out.get('neutral/truthy', 0) < 10:
        raise MachineryError('no neutral mutation verified: the harness is not reaching the verifier (%s)' % out)
    for idx, clause in rej:
        e = ev[idx]
        mutk = e['mut'].split(' bit ')[0].split(':')[0]
        ctx.violation(clause, 'case=%s field=%s mut=%s' % (e['case'].split('-SHA')[0].split('-MD5')[0].split('-RIPE')[0], e['field'], mutk),
                      {'event': e, 'osig': blobs.table[e['osig'] - 1], 'asig': blobs.table[e['asig'] - 1] if e['asig'] else None})
    # whole-session walks of spec/Session.tla (protection scopes x signatures x encryption x keyring), this property's clause family
    from .. import session as _session
    for _b, _step, _clause, _detail in _session.generate(ctx, 'C01.session')[0]:
        ctx.violation(_clause, 'session: %s at %s' % (_detail, _b[_step - 1][0]), {'behaviour': [list(x) for x in _b[:_step]]})
    return ctx.finish(level='model_checking',
                      rule='every signature type PGPy emits x every field of Sound.tla (11 semantic, 4 neutral), concretised per algorithm on real '
                           'signatures: every bit of the type / algorithm / hashed-length octets, all or sampled bits of hashed area, signature value, '
                           'documents and user ids, subject / key substitutions, issuer relabelling, carriers (detached, inside message, inside key); '
                           'distinct = distinct (original signature, mutation)',
                      exhaustive=False)


def replay(ctx, rep):
    e = rep['detail']['event']
    print('stored attempt: case=%s mutation=%s result=%s' % (e['case'], e['mut'], e['result']))
    print('original signature packet :', bytes(rep['detail']['osig']).hex())
    if rep['detail'].get('asig'):
        print('mutated signature packet  :', bytes(rep['detail']['asig']).hex())
    print('re-run ./check C01 to re-record with fresh keys (keys are not stored)')
    return 0
