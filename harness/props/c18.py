"""C18 - fingerprints and key ids are the RFC 4880 values and are stable.

Spec: spec/Packets.tla (KeyBodies / PubPortion), spec/SigHash.tla KeyHash shape, models/Trace_KeyLife (FOCUS=C18) and
Trace_Fpr.
  Trace_KeyLife  along every life-cycle behaviour (protect / unlock / exceptions / export-import / derived public key):
                 all fingerprints constant; claimed preimage = 0x99 || len2 || public portion of the exported packet
                 (TLC's own parse); fingerprint = SHA-1(preimage) (hashlib on the TLC-confirmed preimage); key id = low 64 bits
  Trace_Fpr      keys of every algorithm and curve, creation times 0 .. 2^32-1 under several process time zones, keys from
                 the independent encoder with leading-zero-bit integers: same clauses; and the id fields PGPy emits
                 (issuer, issuer fingerprint, PKESK recipient) equal the id of the component that was used
"""
import hashlib
import os
import struct
import time
import warnings
from datetime import datetime, timezone, timedelta

from .. import build, enc, keylife, keys as K
from ..common import MachineryError, import_pgpy, octets


def fpr_event(label, blob, key):
    comps = [key] + list(key.subkeys.values())
    bodies = []
    for tag, body, raw in build.read_packets(blob):
        if tag in (5, 6, 7, 14):
            bodies.append(body[:build.pub_portion_len(body)])
    pre = [b'\x99' + struct.pack('>H', len(b)) + b for b in bodies]
    return {'k': 'fpr', 'label': label, 'blob': octets(blob), 'preimages': [octets(p) for p in pre], 'digests': [octets(hashlib.sha1(p).digest()) for p in pre],
            'fpr_octets': [octets(bytes.fromhex(str(c.fingerprint))) for c in comps], 'keyids': [octets(bytes.fromhex(c.fingerprint.keyid)) for c in comps]}


def extra_events(ctx):
    pgpy = import_pgpy()
    from pgpy.constants import KeyFlags
    ev = []
    algs = ['ed25519', 'p256', 'p384', 'p521', 'k256', 'rsa2048', 'dsa1024', 'cv25519', 'ecdh256'] + ([] if ctx.quick else ['rsa3072', 'dsa2048', 'ecdh384', 'ecdh521'])
    times = [0, 1, 86399, 951782400, 2 ** 31 - 1, 2 ** 31, 2 ** 32 - 1, 1711846800, 1729994400]
    zones = ['UTC', 'America/St_Johns', 'Pacific/Kiritimati', 'Europe/London']
    old_tz = os.environ.get('TZ')
    try:
        for zi, tz in enumerate(zones):
            os.environ['TZ'] = tz
            time.tzset()
            for ai, alg in enumerate(algs):
                if ctx.quick and (ai + zi) % 2 and alg not in ('ed25519',):
                    continue
                for t in (times if alg == 'ed25519' else [times[(ai + zi) % len(times)], times[(ai + 3) % len(times)]]):
                    try:
                        if alg in ('cv25519', 'ecdh256', 'ecdh384', 'ecdh521'):
                            k = K.new_key('ed25519', created=t, subs=[(alg, {KeyFlags.EncryptCommunications})])
                        else:
                            k = K.new_key(alg, created=t)
                    except Exception as ex:
                        ctx.note('key %s at t=%d unavailable: %s' % (alg, t, repr(ex)[:80]))
                        continue
                    for form, blob in (('private', bytes(k)), ('public', bytes(k.pubkey))):
                        try:
                            k2 = pgpy.PGPKey.from_blob(blob)[0]
                        except Exception:
                            # PGPy cannot read its own export back: "identical after export and import" fails; the fingerprints of the key in
                            # memory are still compared with the exported octets
                            e = fpr_event('%s t=%d tz=%s %s (export not importable)' % (alg, t, tz, form), blob, k if form == 'private' else k.pubkey)
                            e['same_as_original'] = False
                            e['created_octets'] = octets(struct.pack('>I', t))
                            ev.append(e)
                            continue
                        e = fpr_event('%s t=%d tz=%s %s' % (alg, t, tz, form), blob, k2)
                        e['same_as_original'] = [str(k.fingerprint)] + [str(s.fingerprint) for s in k.subkeys.values()] == \
                            [str(k2.fingerprint)] + [str(s.fingerprint) for s in k2.subkeys.values()]
                        e['created_octets'] = octets(struct.pack('>I', t))
                        ev.append(e)
            # an aware non-UTC datetime
            k = pgpy.PGPKey.new(pgpy.constants.PubKeyAlgorithm.EdDSA, pgpy.constants.EllipticCurveOID.Ed25519,
                                created=datetime(2020, 6, 1, 12, 0, 0, tzinfo=timezone(timedelta(hours=5, minutes=30))))
            k.add_uid(pgpy.PGPUID.new('Aware'), usage={KeyFlags.Sign}, hashes=[pgpy.constants.HashAlgorithm.SHA256], ciphers=[pgpy.constants.SymmetricKeyAlgorithm.AES128],
                      compression=[pgpy.constants.CompressionAlgorithm.Uncompressed])
            blob = bytes(k.pubkey)
            k2 = pgpy.PGPKey.from_blob(blob)[0]
            e = fpr_event('ed25519 aware-non-utc tz=%s public' % tz, blob, k2)
            e['same_as_original'] = str(k.fingerprint) == str(k2.fingerprint)
            e['created_octets'] = octets(bytes(blob[3:7]))
            ev.append(e)
    finally:
        if old_tz is None:
            os.environ.pop('TZ', None)
        else:
            os.environ['TZ'] = old_tz
        time.tzset()
    # ---- keys from the independent encoder, incl. public integers with leading zero bits
    for kind in ('ed25519', 'rsa2048', 'p256', 'p384', 'dsa1024' if not ctx.quick else 'p521'):
        for attempt in range(6 if kind.startswith('rsa') else 2):
            fk = build.ForeignKey(kind, created=[0, 2 ** 31, 2 ** 32 - 1, 1262304000][attempt % 4])
            rec = enc.Recipient('cv25519', created=fk.created)
            blob = build.transferable_key(fk, [b'Foreign <f@example.org>'], subkeys=[(rec, 0x0C)], created=1262304001)
            with warnings.catch_warnings():
                warnings.simplefilter('ignore')
                k2 = pgpy.PGPKey.from_blob(blob)[0]
            e = fpr_event('foreign %s #%d' % (kind, attempt), blob, k2)
            e['same_as_original'] = bytes.fromhex(str(k2.fingerprint)) == fk.fingerprint and bytes.fromhex(list(k2.subkeys.values())[0].fingerprint.replace(' ', '')) == rec.fingerprint
            e['created_octets'] = octets(struct.pack('>I', fk.created))
            ev.append(e)
            # secret form too
            sblob = build.transferable_key(fk, [b'Foreign <f@example.org>'], secret=True, created=1262304001)
            with warnings.catch_warnings():
                warnings.simplefilter('ignore')
                k3 = pgpy.PGPKey.from_blob(sblob)[0]
            e = fpr_event('foreign secret %s #%d' % (kind, attempt), sblob, k3)
            e['same_as_original'] = bytes.fromhex(str(k3.fingerprint)) == fk.fingerprint and str(k3.pubkey.fingerprint) == str(k3.fingerprint)
            e['created_octets'] = octets(struct.pack('>I', fk.created))
            ev.append(e)
    # ---- id fields PGPy emits
    k = K.new_key('ed25519', subs=[('ed25519', {KeyFlags.Sign}), ('cv25519', {KeyFlags.EncryptCommunications})])
    pub = pgpy.PGPKey.from_blob(bytes(k.pubkey))[0]
    subs = list(k.subkeys.values())
    for label, sig, comp in (('primary signs', k.sign('x', created=K.ts(K.T0 + 9)), k), ('subkey signs', subs[0].sign('x', created=K.ts(K.T0 + 9)), subs[0])):
        body = build.read_packets(bytes(sig))[0][1]
        ev.append({'k': 'idfield', 'label': label, 'kind': 'signature', 'body': octets(body), 'fpr': octets(bytes.fromhex(str(comp.fingerprint))),
                   'verifies': bool(pub.verify('x', sig))})
    # options that put OTHER keys' fingerprints into the signature (intended recipients, a designated revoker) must not change who is named
    # as issuer
    others = [K.new_key('ed25519', name='Recipient %d' % j_, email='r%d@x.org' % j_) for j_ in range(2)]
    sig_ir = k.sign('x', created=K.ts(K.T0 + 9), intended_recipients=[o_.pubkey for o_ in others])
    ev.append({'k': 'idfield', 'label': 'primary signs with two intended recipients', 'kind': 'signature', 'body': octets(build.read_packets(bytes(sig_ir))[0][1]),
               'fpr': octets(bytes.fromhex(str(k.fingerprint))), 'verifies': bool(pub.verify('x', sig_ir))})
    sig_ir2 = subs[0].sign('x', created=K.ts(K.T0 + 9), intended_recipients=[others[1].pubkey, k.pubkey, others[0].pubkey])
    ev.append({'k': 'idfield', 'label': 'subkey signs with intended recipients', 'kind': 'signature', 'body': octets(build.read_packets(bytes(sig_ir2))[0][1]),
               'fpr': octets(bytes.fromhex(str(subs[0].fingerprint))), 'verifies': bool(pub.verify('x', sig_ir2))})
    em = pub.encrypt(pgpy.PGPMessage.new('y'))
    body = next(b for t, b, r in build.read_packets(bytes(em)) if t == 1)
    ev.append({'k': 'idfield', 'label': 'encrypted to the encryption subkey', 'kind': 'pkesk', 'body': octets(body), 'fpr': octets(bytes.fromhex(str(subs[1].fingerprint))),
               'verifies': k.decrypt(pgpy.PGPMessage.from_blob(bytes(em))).message == 'y'})
    # ---- the same id fields for keys whose key id begins with a zero octet (about one key in 256; found by stepping the creation time of
    # keys from the independent encoder): the field is eight octets, not a number
    fk = build.ForeignKey('ed25519')
    while fk.keyid[0] != 0:
        fk.created += 1
    rec = enc.Recipient('cv25519')
    while rec.keyid[0] != 0:
        rec.created += 1
    zblob = build.transferable_key(fk, [b'Zero Id <zero@example.org>'], subkeys=[(rec, 0x0C)], secret=True, created=max(fk.created, rec.created) + 5)
    with warnings.catch_warnings():
        warnings.simplefilter('ignore')
        zk = pgpy.PGPKey.from_blob(zblob)[0]
        zpub = pgpy.PGPKey.from_blob(bytes(zk.pubkey))[0]
        e = fpr_event('foreign secret key with key ids 00..', zblob, zk)
        e['same_as_original'] = bytes.fromhex(str(zk.fingerprint)) == fk.fingerprint and bytes.fromhex(str(list(zk.subkeys.values())[0].fingerprint)) == rec.fingerprint
        e['created_octets'] = octets(struct.pack('>I', fk.created))
        ev.append(e)
        zs = zk.sign('x', created=K.ts(max(fk.created, rec.created) + 9))
        ev.append({'k': 'idfield', 'label': 'primary with key id 00.. signs', 'kind': 'signature', 'body': octets(build.read_packets(bytes(zs))[0][1]), 'fpr': octets(fk.fingerprint),
                   'verifies': bool(zpub.verify('x', pgpy.PGPSignature.from_blob(bytes(zs))))})
        zem = zpub.encrypt(pgpy.PGPMessage.new('y'))
        zbody = next(b for t, b, r in build.read_packets(bytes(zem)) if t == 1)
        try:
            zok = zk.decrypt(pgpy.PGPMessage.from_blob(bytes(zem))).message == 'y'
        except Exception:
            zok = False
        ev.append({'k': 'idfield', 'label': 'encrypted to a subkey with key id 00..', 'kind': 'pkesk', 'body': octets(zbody), 'fpr': octets(rec.fingerprint), 'verifies': zok})
    return ev


def attach_events(ctx):
    """a key made on its own and then attached to a primary key with add_subkey(): the subkey packet in the key's export has the public
    fields the stand-alone key had (creation time included), so its fingerprint and key id are the ones it had before - whatever the
    creation time of the primary."""
    pgpy = import_pgpy()
    from pgpy.constants import KeyFlags
    ev = []
    for palg, pt_, subs in (('ed25519', 1546300800, [('cv25519', 1609459200), ('p256', 2208988800)]), ('rsa2048', 1262304000, [('ed25519', 1262304000), ('ecdh256', 86399)]),
                            ('p256', 2 ** 31, [('rsa2048', 0), ('cv25519', 2 ** 32 - 1)])):
        try:
            k = K.new_key(palg, created=pt_, name='Attach %s' % palg)
            for salg, st_ in subs:
                sk = K.raw_key(salg, st_)
                before_blob = bytes(sk)
                before_fpr = str(sk.fingerprint)
                flags = {KeyFlags.EncryptCommunications} if salg in ('cv25519', 'ecdh256') else {KeyFlags.Sign}
                k.add_subkey(sk, usage=flags, created=K.ts(max(st_, pt_)))
                idx = len(k.subkeys)
                for form, blob in (('private', bytes(k)), ('public', bytes(k.pubkey)), ('re-imported', bytes(pgpy.PGPKey.from_blob(bytes(k))[0]))):
                    k2 = pgpy.PGPKey.from_blob(blob)[0]
                    after_fpr = str(list(k2.subkeys.values())[idx - 1].fingerprint)
                    ev.append({'k': 'attach', 'label': '%s subkey (created %d) attached to a %s primary (created %d), %s export' % (salg, st_, palg, pt_, form),
                               'before': octets(before_blob), 'after': octets(blob), 'index': idx + 1, 'fpr_before': before_fpr, 'fpr_after': after_fpr,
                               'fpr_object': str(sk.fingerprint)})
        except Exception as ex:
            ctx.note('attach history %s: %s' % (palg, repr(ex)[:100]))
    return ev


def run(ctx):
    import_pgpy()
    ctx.assumptions += ['TLC/SANY', 'JSON marshalling', 'hashlib SHA-1 over a preimage that TLC has confirmed',
                        'that the four time octets are the POSIX second of the supplied instant is not part of C18 (only stability and the preimage rule are)']
    warnings.simplefilter('ignore')
    ctx.model('MC_KeyProtect')
    traces, rej = keylife.generate(ctx, 'C18')
    for tid, clause, step in rej:
        t = traces[tid]
        b = t['behaviour'][:step]
        ctx.violation(clause, 'alg=%s after=%s' % (t['meta']['alg'], b[-1][0]), {'behaviour': b, 'fingerprints': t['events'][step - 1]['obs']['fingerprints'], 'expected': t['meta']['fingerprints']})
    ev = extra_events(ctx) + attach_events(ctx)
    for e in ev:
        ctx.case((e['k'], e['label']))
    ctx.sample({k: v for k, v in ev[0].items() if k not in ('blob', 'preimages')})
    ctx.sample({k: v for k, v in ev[-1].items() if k not in ('body',)})
    rej2 = ctx.judge('Trace_Fpr', ev, chunk=300)
    ctx.traces += len(ev) - len(rej2)
    ctx.extra['fingerprint_events'] = len(ev)
    for idx, clause in rej2:
        e = ev[idx]
        ctx.violation(clause, ' '.join(e['label'].split(' ')[:2]) if e['k'] == 'fpr' else (e['label'].split(',')[0] if e['k'] == 'attach' else e['label']), {'event': {k: v for k, v in e.items() if k not in ('blob', 'preimages', 'body', 'before', 'after')}})
    return ctx.finish(level='model_checking',
                      rule='life-cycle behaviours of C06 (fingerprints after every step, re-imports, derived public keys) plus keys of every algorithm / curve x '
                           'creation times {0, 1, 86399, 2^31-1, 2^31, 2^32-1, DST instants} x 4 process time zones x private / public export, aware non-UTC '
                           'datetimes, foreign keys (incl. secret form) from the independent encoder, and emitted issuer / issuer-fingerprint / PKESK ids',
                      exhaustive=False)


def replay(ctx, rep):
    print(rep['detail'])
    return 0
