"""C09 - primitive wire codecs are exact over their whole domain.

Spec: spec/Wire.tla, spec/Packets.tla, spec/HeaderSM.tla.
  MC_Wire       exhaustive design-level theorems (round trip, shortest form, widths) for n in 0..70000
  MC_HeaderSM   parse -> body change -> emit state machine; EmitOK invariant; spec mutation Widen=FALSE
  Gen_HeaderSM  behaviours replayed on real packets (binding G), outcome judged by TLC (binding O)
  Trace_C09     every codec call of PGPy recorded as an event and judged by the Wire operators
"""
import calendar
from datetime import datetime, timezone

from ..common import MachineryError, import_pgpy, octets, q32

BOUND = [2 ** 16 - 1, 2 ** 16, 2 ** 16 + 1, 2 ** 24 - 1, 2 ** 24, 2 ** 24 + 1, 2 ** 31 - 1, 2 ** 31, 2 ** 31 + 1,
         2 ** 32 - 2, 2 ** 32 - 1]


def _domain(ctx):
    if ctx.quick:
        s = set(range(0, 9000)) | set(range(9000, 70001, 97)) | {65535, 65536, 65537, 69999, 70000}
        s |= {ctx.rng.randrange(0, 2 ** 32) for _ in range(300)}
    else:
        s = set(range(0, 70001))
        s |= {ctx.rng.randrange(0, 2 ** 32) for _ in range(5000)}
    s |= set(BOUND)
    return sorted(s)


def codec_events(ctx):
    import_pgpy()
    from pgpy.types import Header as BaseHeader
    from pgpy.packet.types import Header as PktHeader, MPI
    from pgpy.packet.subpackets.types import Header as SubHeader
    from pgpy.packet.fields import String2Key
    from pgpy.packet.packets import PubKeyV4, LiteralData
    from pgpy.packet.subpackets.signature import CreationTime
    ev = []

    def call(f):
        try:
            return f()
        except Exception as ex:   # an exception is an outcome, judged by the spec like any other
            return ex

    dom = _domain(ctx)
    for n in dom:
        # new-format encode
        r = call(lambda: BaseHeader.encode_length(n, True))
        ev.append({'k': 'newenc', 'q': q32(n), 'out': octets(r) if not isinstance(r, Exception) else [256]})
        # new-format decode of the RFC encoding (built by the harness from the RFC text, judged by TLC too)
        if n < 192:
            enc = bytes([n])
        elif n < 8384:
            enc = bytes([((n - 192) >> 8) + 192, (n - 192) & 0xFF])
        else:
            enc = b'\xff' + n.to_bytes(4, 'big')
        encs = [enc]
        if n < 2 ** 16 or n in BOUND:
            encs.append(b'\xff' + n.to_bytes(4, 'big'))      # non-shortest but legal 5-octet form
        for e_ in encs:
            h = PktHeader()
            h._lenfmt = 1
            buf = bytearray(e_ + b'\x07\x09')
            r = call(lambda: setattr(h, 'length', buf))
            if isinstance(r, Exception):
                ev.append({'k': 'newdec', 'inp': octets(e_ + b'\x07\x09'), 'q': [], 'used': -1})
            else:
                ev.append({'k': 'newdec', 'inp': octets(e_ + b'\x07\x09'), 'q': q32(h.length) if 0 <= h.length < 2 ** 32 else [],
                           'used': len(e_) + 2 - len(buf)})
        # old format
        for lt, w in ((0, 1), (1, 2), (2, 4)):
            if n < 256 ** w:
                r = call(lambda: BaseHeader.encode_length(n, False, w))
                ev.append({'k': 'oldenc', 'q': q32(n), 'lt': lt, 'out': octets(r) if not isinstance(r, Exception) else [256]})
                h = PktHeader()
                h._lenfmt = 0
                h.llen = lt
                buf = bytearray(n.to_bytes(w, 'big') + b'\x07\x09')
                inp = octets(buf)
                r = call(lambda: setattr(h, 'length', buf))
                ev.append({'k': 'olddec', 'inp': inp, 'lt': lt,
                           'q': q32(h.length) if not isinstance(r, Exception) and 0 <= h.length < 2 ** 32 else [],
                           'used': len(inp) - len(buf)})
        # subpacket lengths (value must fit a TLC integer)
        if n < 2 ** 31:
            sh = SubHeader()
            sh.typeid = 100
            sh.length = n
            r = call(lambda: sh.__bytearray__())
            if isinstance(r, Exception):
                ev.append({'k': 'subenc', 'n': n, 'out': [256]})
            else:
                ev.append({'k': 'subenc', 'n': n, 'out': octets(r[:-1])})
            forms = []
            if n < 192:
                forms.append(bytes([n]))
            elif n < 16320:
                forms.append(bytes([((n - 192) >> 8) + 192, (n - 192) & 0xFF]))
            forms.append(b'\xff' + n.to_bytes(4, 'big'))
            if not (n < 70001 or n in BOUND):
                forms = forms[:1]
            for f_ in forms:
                sh = SubHeader()
                buf = bytearray(f_ + b'\x64\x09\x09')
                inp = octets(buf)
                r = call(lambda: sh.parse(buf))
                if isinstance(r, Exception):
                    ev.append({'k': 'subdec', 'inp': inp, 'n': -1, 'used': -1})
                else:
                    ev.append({'k': 'subdec', 'inp': inp, 'n': sh.length if sh.length < 2 ** 31 else -1,
                               'used': len(inp) - len(buf) - 1})
    # first-octet x second-octet decode table (new format, definite forms)
    for a in range(0, 224):
        for b in ([0] if a < 192 else ([0, 1, 127, 128, 254, 255] if ctx.quick else range(256))):
            h = PktHeader()
            h._lenfmt = 1
            buf = bytearray([a, b, 3])
            r = call(lambda: setattr(h, 'length', buf))
            ev.append({'k': 'newdec', 'inp': [a, b, 3], 'q': q32(h.length) if not isinstance(r, Exception) else [],
                       'used': 3 - len(buf)})
    # MPI: every bit length 0..4200 x boundary patterns (+ random)
    bls = range(0, 4201) if not ctx.quick else sorted(set(range(0, 600)) | set(range(600, 4201, 13)) | {4095, 4096, 4097, 4200})
    for b in bls:
        vals = set()
        if b == 0:
            vals.add(0)
        else:
            vals.add(1 << (b - 1))
            vals.add((1 << b) - 1)
            vals.add((1 << (b - 1)) | (int('aa' * ((b + 7) // 8), 16) & ((1 << (b - 1)) - 1)))
            vals.add((1 << (b - 1)) | ctx.rng.getrandbits(b - 1) if b > 1 else 1)
        for v in sorted(vals):
            mag = v.to_bytes((v.bit_length() + 7) // 8, 'big')
            r = call(lambda: MPI(v).to_mpibytes())
            ev.append({'k': 'mpienc', 'mag': octets(mag), 'out': octets(r) if not isinstance(r, Exception) else [256]})
            wire = (v.bit_length()).to_bytes(2, 'big') + mag + b'\x05\x06'
            buf = bytearray(wire)
            r = call(lambda: MPI(buf))
            if isinstance(r, Exception):
                ev.append({'k': 'mpidec', 'inp': octets(wire), 'mag': [256], 'used': -1})
            else:
                rv = int(r)
                ev.append({'k': 'mpidec', 'inp': octets(wire), 'mag': octets(rv.to_bytes((rv.bit_length() + 7) // 8, 'big')),
                           'used': len(wire) - len(buf)})
    # MPI with leading zero bits declared (foreign, non-canonical): value must still be read
    for b in (1, 7, 8, 9, 255, 256, 2047):
        v = (1 << b) - 1
        mag = v.to_bytes((b + 7) // 8, 'big')
        wire = (b + 8).to_bytes(2, 'big') + b'\x00' + mag + b'\x05'
        buf = bytearray(wire)
        r = call(lambda: MPI(buf))
        rv = int(r) if not isinstance(r, Exception) else None
        ev.append({'k': 'mpidec', 'inp': octets(wire), 'used': (len(wire) - len(buf)) if rv is not None else -1,
                   'mag': octets(rv.to_bytes((rv.bit_length() + 7) // 8, 'big')) if rv is not None else [256]})
    # time fields
    times = [0, 1, 59, 86399, 86400, 951782400, 2 ** 31 - 1, 2 ** 31, 2 ** 31 + 1, 1711846800, 1729994400, 2 ** 32 - 2, 2 ** 32 - 1]
    times += [ctx.rng.randrange(0, 2 ** 32) for _ in range(60 if ctx.quick else 2000)]
    import os as _os
    import time as _time
    old_tz = _os.environ.get('TZ')
    plan = [('UTC', times)] + [(z, times[:13] + times[13:13 + (10 if ctx.quick else 200)]) for z in ('America/St_Johns', 'Pacific/Kiritimati', 'Europe/London')]
    for tz, tlist in plan:
      # the process time zone is part of the environment: a four-octet time must not depend on it
      _os.environ['TZ'] = tz
      _time.tzset()
      for t in tlist:
        q = t.to_bytes(4, 'big')
        for kind in ('pubkey', 'literal', 'sigtime'):
              def one():
                  if kind == 'pubkey':
                      o = PubKeyV4()
                      o.created = bytearray(q)
                      dt = o.created
                      out = PktHeader.int_to_bytes(calendar.timegm(dt.timetuple()), 4)  # what PubKeyV4.__bytearray__ does
                      # use the real serializer when possible
                      return dt, out
                  if kind == 'literal':
                      o = LiteralData()
                      o.mtime = bytearray(q)
                      raw = bytes(o.__bytearray__())
                      return o.mtime, raw[len(o.header.__bytearray__()) + 2:][:4]
                  o = CreationTime()
                  o.created = bytearray(q)
                  raw = bytes(o.__bytearray__())
                  return o.created, raw[-4:]
              r = call(one)
              if isinstance(r, Exception):
                  ev.append({'k': 'time', 'q': octets(q), 'out': [256], 'secs': [256], 'kind': kind, 'tz': tz})
              else:
                  dt, out = r
                  if dt.tzinfo is None:
                      secs = calendar.timegm(dt.timetuple())
                  else:
                      secs = int((dt - datetime(1970, 1, 1, tzinfo=timezone.utc)).total_seconds())
                  ev.append({'k': 'time', 'q': octets(q), 'out': octets(out),
                             'secs': q32(secs) if 0 <= secs < 2 ** 32 else [256], 'kind': kind, 'tz': tz})
    # the same instants handed over as datetime objects of several zones: an aware datetime denotes one instant whatever its zone
    from datetime import timedelta as _td
    from pgpy.packet import Packet
    from .. import keys as _K
    real_pub = bytes(_K.raw_key('ed25519').pubkey)
    for t in times[:13] + times[13:13 + (6 if ctx.quick else 100)]:
        q = t.to_bytes(4, 'big')
        for off in (0, 330, -480, 765):
            zone = timezone(_td(minutes=off))
            for kind in ('pubkey', 'literal', 'sigtime'):
                def one2():
                    dt = datetime.fromtimestamp(t, zone)
                    if kind == 'pubkey':
                        o = Packet(bytearray(real_pub))
                        o.created = dt
                        raw = bytes(o.__bytearray__())
                        return raw[len(o.header.__bytearray__()):][:4]       # (the header of a versioned packet includes the version octet)
                    if kind == 'literal':
                        o = LiteralData()
                        o.mtime = dt
                        raw = bytes(o.__bytearray__())
                        return raw[len(o.header.__bytearray__()) + 2:][:4]
                    o = CreationTime()
                    o.created = dt
                    return bytes(o.__bytearray__())[-4:]
                r = call(one2)
                ev.append({'k': 'time', 'q': octets(q), 'out': [256] if isinstance(r, Exception) else octets(r), 'secs': octets(q), 'kind': kind + ' from datetime',
                           'tz': 'utc%+d' % off})
    if old_tz is None:
        _os.environ.pop('TZ', None)
    else:
        _os.environ['TZ'] = old_tz
    _time.tzset()
    # S2K coded count
    for c in range(256):
        s = String2Key()
        s.count = c
        ev.append({'k': 'count', 'c': c, 'n': s.count})
    return ev


def realseq_events(ctx):
    """exports of real keys after histories that change the size of packet bodies."""
    pgpy = import_pgpy()
    from pgpy.constants import SymmetricKeyAlgorithm as SA, HashAlgorithm as HA, KeyFlags
    from .. import keys as _K, keylife as _kl, build as _b
    import warnings
    ev = []
    saved = _kl.fast_s2k()
    try:
        with warnings.catch_warnings():
            warnings.simplefilter('ignore')
            base = _K.new_key('ed25519', subs=[('cv25519', {KeyFlags.EncryptCommunications})])
            tags = [t for t, b, r in _b.read_packets(bytes(base))]

            def record(label, key):
                blob = bytes(key)
                try:
                    k2 = pgpy.PGPKey.from_blob(blob)[0]
                    rep = bytes(k2) == blob and len(k2.subkeys) == len(base.subkeys)
                except Exception:
                    rep = False
                ev.append({'k': 'realseq', 'label': label, 'blob': octets(blob), 'tags': tags, 'reparsed': rep})
            orders = [[SA.AES256, SA.CAST5, SA.AES128, SA.TripleDES, SA.Camellia256, SA.Blowfish], [SA.CAST5, SA.AES256, SA.CAST5], [SA.TripleDES, SA.Camellia128, SA.AES192, SA.Blowfish]]
            for oi, order in enumerate(orders if not ctx.quick else orders[:2]):
                k = pgpy.PGPKey.from_blob(bytes(base))[0]
                record('unprotected', k)
                k.protect('pw', order[0], HA.SHA256)
                record('protected %s' % order[0].name, k)
                for j, c in enumerate(order[1:]):
                    try:
                        if (oi + j) % 2:
                            k = pgpy.PGPKey.from_blob(bytes(k))[0]          # the history continues on the re-imported key
                        with k.unlock('pw'):
                            k.protect('pw', c, [HA.SHA1, HA.SHA256, HA.SHA512][j % 3])
                    except Exception:
                        break                                                # (the export recorded before is what TLC judges)
                    record('re-protected %s -> %s%s' % (order[j].name, c.name, ' (after export/import)' if (oi + j) % 2 else ''), k)
    finally:
        _kl.restore_s2k(saved)
    return ev


def realsig_events(ctx):
    """signatures BUILT by PGPy with one hashed subpacket (a notation) of a chosen total length around every switch point of the
    subpacket length encoding."""
    pgpy = import_pgpy()
    from .. import keys as _K
    import warnings
    ev = []
    k = _K.new_key('ed25519')
    pub = pgpy.PGPKey.from_blob(bytes(k.pubkey))[0]
    lens = [13, 100, 190, 191, 192, 193, 255, 256, 8382, 8383, 8384, 8385, 9000, 12345, 16318, 16319, 16320, 16321, 20000, 65400, 70000] + ([] if ctx.quick else [65535, 65536])      # (beyond what a two-octet area length can hold: refused, or malformed)
    for L in lens:
        vlen = L - 12                                   # type (1) + flags (4) + two lengths (4) + name 'n@x' (3) + value
        with warnings.catch_warnings():
            warnings.simplefilter('ignore')
            try:
                s = k.sign('document', notation={'n@x': 'v' * vlen}, created=_K.ts(_K.T0 + 77))
                pkt = bytes(s)
                try:
                    s2 = pgpy.PGPSignature.from_blob(pkt)
                    rep = bytes(s2) == pkt and bool(pub.verify('document', s2))
                except Exception:
                    rep = False
                ev.append({'k': 'realsig', 'pkt': octets(pkt), 'len': L, 'sptype': 20, 'reparsed': rep})
            except Exception as ex:
                ctx.note('signing with a %d-octet notation subpacket refused: %s' % (L, repr(ex)[:80]))
    return ev


def partial_events(ctx):
    import_pgpy()
    from pgpy.packet import Packet
    ev = []
    maxexp = 9 if ctx.quick else 17
    chunkings = []
    exps = list(range(0, maxexp + 1))
    for a in exps:
        chunkings.append([a])
    for a in exps[::(3 if ctx.quick else 1)]:
        for b in exps[::(4 if ctx.quick else 2)]:
            chunkings.append([a, b])
    for _ in range(20 if ctx.quick else 300):
        chunkings.append([ctx.rng.choice(exps[:max(3, maxexp - 4)]) for _ in range(ctx.rng.choice([3, 4]))])
    for ch in chunkings:
        tot = sum(2 ** e for e in ch)
        if tot > 2 ** 17:
            continue
        for final, fform in [(f_, None) for f_ in sorted({0, 1, 191, 192, ctx.rng.randrange(0, 400)})] + [(ctx.rng.randrange(0, 300), 5), (8384, None), (8383, 5)]:
            if fform == 5 and len(ch) > 2 and not (len(ch) + tot) % 3 == 0:
                continue
            n = tot + final
            content = bytes((i * 37 + 11) % 251 for i in range(n))
            # literal packet body: 'b', fnlen 0, 4 time octets, then content ; chunk it
            body = b'b\x00' + b'\x00\x00\x00\x01' + content
            body = body[:n] if n >= 6 else None
            if body is None:
                continue
            pkt = bytearray([0xC0 | 11])
            off = 0
            for e in ch:
                pkt.append(224 + e)
                pkt += body[off:off + 2 ** e]
                off += 2 ** e
            if fform == 5 or final >= 8384:
                pkt += b'\xff' + final.to_bytes(4, 'big')
            elif final < 192:
                pkt.append(final)
            else:
                pkt += bytes([((final - 192) >> 8) + 192, (final - 192) & 0xFF])
            pkt += body[off:off + final]
            wire = bytes(pkt) + b'\xaa\xbb'
            buf = bytearray(wire)
            try:
                p = Packet(buf)
                got = bytes(p.__bytearray__())
                hl = len(p.header.__bytearray__())
                ev.append({'k': 'partial', 'pkt': octets(wire[:-2]), 'total': p.header.length, 'body': octets(got[hl:]),
                           'used': len(wire) - len(buf)})
            except Exception:
                ev.append({'k': 'partial', 'pkt': octets(wire[:-2]), 'total': -1, 'body': [], 'used': -1})
    return ev


def _mk_packet(fmt, lt, n, tag):
    """A real packet with tag 13 (user id) / unknown tag in the requested header format."""
    body = b'a' * n
    if fmt == 'new':
        if n < 192:
            ln = bytes([n])
        elif n < 8384:
            ln = bytes([((n - 192) >> 8) + 192, (n - 192) & 0xFF])
        else:
            ln = b'\xff' + n.to_bytes(4, 'big')
        return bytes([0xC0 | tag]) + ln + body
    w = {0: 1, 1: 2, 2: 4, 3: 0}[lt]
    return bytes([0x80 | (tag << 2) | lt]) + (n.to_bytes(w, 'big') if w else b'') + body


def header_events(ctx, behaviours):
    import_pgpy()
    from pgpy.packet import Packet
    ev = []
    for beh in behaviours:
        st0, st1, st2 = beh
        for tag, kind in ((13, 'uid'), (15, 'opaque')):
            wire = _mk_packet(st0['fmt'], st0['lt'], st0['n'], tag)
            n2 = st1['n']
            try:
                p = Packet(bytearray(wire))
                if kind == 'uid':
                    p.uid = 'b' * n2
                else:
                    p.payload = bytearray(b'b' * n2)
                p.update_hlen()
                out = bytes(p.__bytearray__())
            except Exception as ex:
                ev.append({'k': 'hdr', 'tag': tag, 'n': n2, 'out': [], 'tail': [], 'reparsed': False,
                           'from': [st0['fmt'], st0['lt'], st0['n']], 'exc': repr(ex)})
                continue
            tail = b'' if (st0['fmt'] == 'old' and st0['lt'] == 3) else b'\xc3\x01\x00'
            buf = bytearray(out + tail)
            try:
                p2 = Packet(buf)
                ok = bytes(p2.__bytearray__()) == out and bytes(buf) == tail
            except Exception:
                ok = False
            ev.append({'k': 'hdr', 'tag': tag, 'n': n2, 'out': octets(out), 'tail': octets(tail), 'reparsed': ok,
                       'from': [st0['fmt'], st0['lt'], st0['n']]})
    return ev


def classify(e):
    """Discriminating key of a rejected event (for known_findings matching)."""
    k = e['k']
    if k == 'subdec':
        fo = e['inp'][0]
        return 'subdec first-octet %s' % ('224..254' if 224 <= fo < 255 else str(fo))
    if k == 'mpienc':
        return 'mpienc zero' if e['mag'] == [] else 'mpienc bits=%d' % (len(e['mag']) * 8)
    if k == 'mpidec':
        return 'mpidec'
    if k == 'hdr':
        return 'hdr from=%s/%s n0=%d n=%d' % (e['from'][0], e['from'][1], e['from'][2], e['n'])
    if k in ('newenc', 'oldenc'):
        return '%s %s' % (k, bytes(e['q']).hex())
    if k == 'time':
        return 'time %s' % e.get('kind')
    return k


REPLAY_EXACT = True      # replay() re-executes exactly the stored case


def run(ctx):
    ctx.assumptions += ['TLC/SANY and CommunityModules (FoldLeft, Json) are correct',
                        'JSON marshalling of octets as integer lists between Python and TLC',
                        'Python int.to_bytes used by the harness to build RFC encodings it feeds to decoders (each is also judged by TLC)']
    # 1. design-level theorems
    ctx.model('MC_Wire')
    r = ctx.model('MC_HeaderSM', coverage=True)
    for act in ('ParseNew', 'ParseOld', 'SetBody', 'Emit'):
        if r.coverage.get(act, (0, 0))[0] == 0:
            raise MachineryError('HeaderSM action %s never taken' % act)
    ctx.model('MC_HeaderSM', 'MC_HeaderSM_nowiden', must_hold=False)   # spec mutation: must produce a counterexample
    # 2. behaviours of HeaderSM -> real packets
    g = ctx.model('Gen_HeaderSM')
    behs = [p[1] for p in g.prints if isinstance(p, list) and p and p[0] == 'BEH']
    if len(behs) < 100:
        raise MachineryError('behaviour generator produced only %d behaviours' % len(behs))
    if ctx.quick:
        behs = [b for b in behs if b[0]['n'] <= 8384 or b[1]['n'] <= 8384]
    ev = header_events(ctx, behs)
    nb = len(ev)
    # 3. codec calls
    ev += codec_events(ctx)
    ev += partial_events(ctx)
    ev += realseq_events(ctx)
    ev += realsig_events(ctx)
    for e in ev:
        ctx.case((e['k'], classify(e)) if e['k'] in ('hdr',) else (e['k'], str(e.get('q', e.get('n', e.get('inp', e.get('mag', e.get('c', ''))))))[:60]))
    for k in ('hdr', 'newenc', 'newdec', 'oldenc', 'subdec', 'mpienc', 'time', 'partial', 'realseq', 'realsig'):
        s = next((e for e in ev if e['k'] == k), None)
        if s:
            ctx.sample({kk: (vv if not isinstance(vv, list) or len(vv) < 24 else vv[:24] + ['...']) for kk, vv in s.items()}, limit=10)
    rej = ctx.judge('Trace_C09', ev, chunk=60000)
    ctx.traces += len(ev) - len(rej)
    bad = {i for i, _ in rej}
    good = [e for i, e in enumerate(ev) if i not in bad][::97]

    def flip_last(field, kind):
        def f(e):
            if e['k'] != kind or not e.get(field):
                return None
            e[field][-1] ^= 1
            return e
        return f
    ctx.selftest(lambda b: ctx.judge('Trace_C09', b), good, [('newenc: last octet of the encoding', flip_last('out', 'newenc')), ('olddec: decoded value', flip_last('q', 'olddec')),
                 ('subdec: consumed count', lambda e: dict(e, used=e['used'] + 1) if e['k'] == 'subdec' and e['used'] >= 0 else None),
                 ('mpienc: encoding', flip_last('out', 'mpienc')), ('count: decoded count', lambda e: dict(e, n=e['n'] + 1) if e['k'] == 'count' else None),
                 ('partial: total length', lambda e: dict(e, total=e['total'] + 1) if e['k'] == 'partial' else None),
                 ('hdr: body length claimed', lambda e: dict(e, n=e['n'] + 1) if e['k'] == 'hdr' and e['out'] else None)], 'C09')
    ctx.extra['events_by_kind'] = {}
    for e in ev:
        ctx.extra['events_by_kind'][e['k']] = ctx.extra['events_by_kind'].get(e['k'], 0) + 1
    ctx.extra['behaviours_replayed'] = nb
    for idx, clause in rej:
        e = ev[idx]
        ctx.violation(clause, classify(e), {'event': e})
    return ctx.finish(level='model_checking',
                      rule='design: one TLC state per n in 0..70000 and per HeaderSM state; binding: one event per PGPy codec call '
                           '(every n of the tier domain x format, every MPI bit length, partial chunkings, header state-machine '
                           'behaviours from TLC); distinct = distinct (codec, argument)',
                      exhaustive=not ctx.quick)


def replay(ctx, rep):
    e = rep['detail']['event']
    rej = ctx.judge('Trace_C09', [e])
    print('replayed event judged:', rej or 'ok (stored event; re-run the check to re-record from the code)')
    return 1 if rej else 0
