"""C13 - every operation draws fresh secret randomness of the right size.

Spec: models/Trace_Enc FreshEv (state: all secret random values seen so far in the history): sizes per role and cipher
(Encrypt.tla KeyLen / BlockLen), no value repeated in any role, none constant, the session key never in the output,
prefix repeat placement.
  The history: repeated encryption of the identical message to the identical recipient (RSA, X25519, NIST ECDH, passphrase)
  for several ciphers, mixed with protect() of keys and with re-seeding of Python's `random` module to a constant; salts, IVs and ephemeral points are read from the exported packets,
  session keys and prefixes come from the independent decryptor of C03 (validated there by TLC).
"""
import random as _random
import warnings

from .. import build, enc, keys as K
from ..common import MachineryError, import_pgpy, octets
from . import c03


def protect_roles(blob, alg):
    """salt / IV of every protected secret key packet in an exported private key (claim; layout is C06's business)."""
    roles = []
    for tag, body, raw in build.read_packets(blob):
        if tag in (5, 7):
            p = build.pub_portion_len(body)
            usage = body[p]
            if usage in (254, 255):
                sym = body[p + 1]
                spec = body[p + 2]
                q = p + 4
                salt = b''
                if spec in (1, 3):
                    salt = bytes(body[q:q + 8])
                    q += 8
                if spec == 3:
                    q += 1
                bs = enc.SYM[sym][3]
                iv = bytes(body[q:q + bs])
                roles.append({'role': 'protect-salt', 'val': octets(salt), 'alg': sym})
                roles.append({'role': 'protect-iv', 'val': octets(iv), 'alg': sym})
    return roles


def run(ctx):
    pgpy = import_pgpy()
    from pgpy.constants import SymmetricKeyAlgorithm, CompressionAlgorithm, HashAlgorithm, KeyFlags
    ctx.assumptions += ['TLC/SANY', 'JSON marshalling', 'quality of the operating system random source',
                        '"not derived from the message" is decided as non-repetition under identical inputs, size and placement']
    warnings.simplefilter('ignore')
    ctx.model('MC_Encrypt')
    W = c03.World(ctx)
    reps = 12 if ctx.quick else 60
    ev = []
    msg_bytes = b'the identical message, encrypted again and again'
    ciphers = [SymmetricKeyAlgorithm.AES256, SymmetricKeyAlgorithm.AES128, SymmetricKeyAlgorithm.CAST5, SymmetricKeyAlgorithm.TripleDES,
               SymmetricKeyAlgorithm.Camellia192, SymmetricKeyAlgorithm.Blowfish]
    for rk in ('rsa', 'cv25519', 'ecdh256', 'ecdh384', 'pw'):
        for ci, cipher in enumerate(ciphers if not ctx.quick else ciphers[:3]):
            for rep in range(reps if ci == 0 else max(3, reps // 4)):
                if rep % 3 != 2 or rep == 0:
                    m = pgpy.PGPMessage.new(msg_bytes, compression=CompressionAlgorithm.Uncompressed, format='b')
                # (every third operation encrypts the SAME plaintext message object again: nothing may be remembered on it)
                if rep % 2:
                    # environment step: the application re-seeds Python's non-cryptographic generator to the same constant before
                    # every other operation; secret values must not be a function of that state
                    _random.seed(4880)
                try:
                    if rk == 'pw':
                        if rep > (3 if ctx.quick else 12):
                            continue
                        em = m.encrypt('fixed passphrase', cipher=cipher, hash=HashAlgorithm.SHA256)
                        blob = bytes(em)
                        inner, log = enc.decrypt_message(blob, passphrase=b'fixed passphrase')
                    else:
                        rec, pub, _ = W.foreign[rk]
                        em = pub.encrypt(m, cipher=cipher)
                        blob = bytes(em)
                        inner, log = enc.decrypt_message(blob, recipient=rec)
                except Exception as ex:
                    ev.append({'k': 'fresh', 'op': 'encrypt %s %s FAILED %s' % (rk, cipher.name, repr(ex)[:60]), 'roles': [{'role': 'session-key', 'val': [], 'alg': int(cipher)}], 'output': []})
                    continue
                sd = log['seipd']
                roles = [{'role': 'session-key', 'val': sd['sk'], 'alg': sd['alg']}, {'role': 'prefix', 'val': sd['pt'][:sd['bs']], 'alg': sd['alg']}]
                for l in log['esk']:
                    if l['kind'] == 'skesk':
                        roles.append({'role': 'salt', 'val': l['wire'][4:12], 'alg': sd['alg']})
                    elif l['kind'] == 'ecdh':
                        body = bytes(l['wire'])
                        pt, _ = enc.mpi_at(body[10:], 0)
                        roles.append({'role': 'ephemeral', 'val': octets(pt), 'alg': sd['alg']})
                ev.append({'k': 'fresh', 'op': 'encrypt to %s with %s (#%d)' % (rk, cipher.name, rep), 'roles': roles, 'output': octets(blob),
                           'repeat': sd['pt'][sd['bs']:sd['bs'] + 2]})
            # interleave a key protection
            kk = pgpy.PGPKey.from_blob(bytes(W.own['cv25519']))[0]
            pc = [SymmetricKeyAlgorithm.AES256, SymmetricKeyAlgorithm.CAST5, SymmetricKeyAlgorithm.AES128][ci % 3]
            for rep in range(2 if ctx.quick else 6):
                _random.seed(4880)
                if rep:
                    with kk.unlock('pp'):
                        kk.protect('pp', pc, HashAlgorithm.SHA256)
                else:
                    kk.protect('pp', pc, HashAlgorithm.SHA256)
                blob = bytes(kk)
                roles = protect_roles(blob, int(pc))
                ev.append({'k': 'fresh', 'op': 'protect with %s (#%d)' % (pc.name, rep), 'roles': roles, 'output': octets(blob)})
    for e in ev:
        ctx.case(e['op'])
    for j in (0, len(ev) // 2, len(ev) - 1):
        ctx.sample({'op': ev[j]['op'], 'roles': [{'role': r['role'], 'size': len(r['val']), 'val': bytes(r['val']).hex()} for r in ev[j]['roles']]})
    nroles = sum(len(e['roles']) for e in ev)
    if nroles < 100:
        raise MachineryError('too few random role values observed (%d)' % nroles)
    rej = ctx.judge('Trace_Enc', ev, chunk=100000)
    ctx.traces += len(ev) - len(rej)
    if not rej:
        import copy as _copy
        dup = _copy.deepcopy(ev[:6])
        dup[5]['roles'][0]['val'] = list(dup[1]['roles'][0]['val'])           # a session key used twice in one history
        r2 = ctx.judge('Trace_Enc', dup)
        short = _copy.deepcopy(ev[:2])
        short[1]['roles'][0]['val'] = short[1]['roles'][0]['val'][:-1]        # a session key one octet short
        r3 = ctx.judge('Trace_Enc', short)
        leak = _copy.deepcopy(ev[:1])
        leak[0]['output'] = leak[0]['output'] + leak[0]['roles'][0]['val']   # the session key in the clear in the output
        r4 = ctx.judge('Trace_Enc', leak)
        from ..common import MachineryError as _ME
        if not (any(c == 'C13.fresh' for _, c in r2) and any(c == 'C13.size' for _, c in r3) and any(c == 'C13.not-in-clear' for _, c in r4)):
            raise _ME('self-test C13: corrupted histories were accepted: %s %s %s' % (r2, r3, r4))
        ctx.extra['selftest_corruptions_rejected'] = ['repeated session key', 'short session key', 'session key in the output']
    ctx.extra['operations'] = len(ev)
    ctx.extra['role_values'] = nroles
    ctx.extra['roles'] = {r: sum(1 for e in ev for x in e['roles'] if x['role'] == r) for r in ('session-key', 'prefix', 'salt', 'ephemeral', 'protect-salt', 'protect-iv')}
    for idx, clause in rej:
        e = ev[idx]
        ctx.violation(clause, e['op'].split(' (#')[0], {'op': e['op'], 'roles': [{'role': r['role'], 'val': bytes(r['val']).hex() if all(0 <= x < 256 for x in r['val']) else r['val']} for r in e['roles']]})
    return ctx.finish(level='model_checking',
                      rule='one history per run: repeated encryption of the identical message to the identical recipient (4 public-key kinds and a passphrase) x '
                           '3-6 ciphers interleaved with key protections; every secret random value (session key, prefix, salt, ephemeral point, protection '
                           'salt and IV) read from the output / recovered by the independent decryptor; distinct = distinct operations',
                      exhaustive=False)


def replay(ctx, rep):
    print(rep['detail'])
    return 0
