"""C10 - ASCII armor is a faithful, checksummed, correctly labelled envelope.

Spec: spec/Armor.tla (radix-64, CRC-24, line reader, block grammar; total Dearmor).
  MC_Armor     Dearmor(ArmorText(p)) = p, labels, headers, CRC, line bound for every payload length 0..97/200
               x 3 patterns x widths 64/76 x 0..2 header lines; known answers; totality on garbage
  Trace_C10    'write': str(obj) of every object kind and many payload lengths decoded by TLC's reader and
               compared with bytes(obj);  'read': LF/CRLF variants, surrounding text, str/bytes/bytearray input,
               header sets, wrong-kind blocks and every single-character corruption of small blocks: PGPy's outcome
               (loaded payload / raised / CRC warning) must be one the spec allows
"""
import warnings

from .. import keys as K
from ..common import MachineryError, codepoints, import_pgpy, octets


def objects(ctx):
    """(kind, expect-class, object) for writing."""
    pgpy = import_pgpy()
    from pgpy.constants import CompressionAlgorithm, KeyFlags, SymmetricKeyAlgorithm, HashAlgorithm
    k = K.new_key('ed25519', name='Armor Test', email='armor@x.org', subs=[('cv25519', {KeyFlags.EncryptCommunications})])
    out = []
    lens = list(range(1, 100 if ctx.quick else 400)) + ([150, 191, 192, 193, 500, 1000, 2999, 3000] if ctx.quick else list(range(400, 3100, 7)))
    for n in lens:
        pat = n % 3
        content = bytes([0] * n) if pat == 0 else bytes([255] * n) if pat == 1 else bytes(ctx.rng.randrange(256) for _ in range(n))
        m = pgpy.PGPMessage.new(content, compression=CompressionAlgorithm.Uncompressed, format='b')
        out.append(('message', 'message', m, 'literal n=%d' % n))
    m = pgpy.PGPMessage.new('compressed text ' * 50)
    out.append(('message', 'message', m, 'compressed'))
    # a message whose binary export has CRC-24 zero: the last three content octets are the CRC of everything before them
    from pgpy.types import Armorable
    zc = pgpy.PGPMessage.new(b'zero crc payload ....' + b'\x00\x00\x00', compression=CompressionAlgorithm.Uncompressed, format='b')
    raw = bytes(zc)
    c0 = _crc24(raw[:-3])
    zc = pgpy.PGPMessage.new(b'zero crc payload ....' + c0.to_bytes(3, 'big'), compression=CompressionAlgorithm.Uncompressed, format='b')
    zc._message.mtime = pgpy.PGPMessage.from_blob(raw)._message.mtime
    if _crc24(bytes(zc)) == 0:
        out.append(('message', 'message', zc, 'literal zero-crc'))
    m = pgpy.PGPMessage.new('signed inline', compression=CompressionAlgorithm.Uncompressed)
    m |= k.sign(m, created=K.ts(K.T0 + 30))
    out.append(('message', 'message', m, 'inline signed'))
    enc = k.pubkey.encrypt(pgpy.PGPMessage.new('secret text'))
    out.append(('message', 'message', enc, 'encrypted'))
    out.append(('pubkey', 'key', k.pubkey, 'public key'))
    out.append(('privkey', 'key', k, 'private key'))
    for n in (1, 2, 3, 47, 48, 49, 100):
        kk = K.new_key('ed25519', name='N' * n, email='n@x.org')
        out.append(('pubkey', 'key', kk.pubkey, 'public key uidlen=%d' % n))
        out.append(('privkey', 'key', kk, 'private key uidlen=%d' % n))
    # subkey objects armored on their own (a secret subkey is secret key material: PRIVATE KEY BLOCK); PGPy cannot load a block that
    # starts with a subkey, so these are judged on the written text only
    for sk_ in k.subkeys.values():
        out.append(('privkey', 'key', sk_, 'lone private subkey'))
    for sk_ in k.pubkey.subkeys.values():
        out.append(('pubkey', 'key', sk_, 'lone public subkey'))
    rk = K.new_key('rsa2048', name='RSA Armor', email='r@x.org')
    out.append(('pubkey', 'key', rk.pubkey, 'rsa public key'))
    out.append(('privkey', 'key', rk, 'rsa private key'))
    s = k.sign('detached', created=K.ts(K.T0 + 31))
    out.append(('signature', 'signature', s, 'detached signature'))
    s = rk.sign('detached', created=K.ts(K.T0 + 32), notation={'n@x.org': 'v' * 40})
    out.append(('signature', 'signature', s, 'rsa detached signature'))
    cm = pgpy.PGPMessage.new('clear text\n- dashed\n-----BEGIN PGP MESSAGE-----\nlast', cleartext=True)
    cm |= k.sign(cm, created=K.ts(K.T0 + 33))
    out.append(('signature', 'cleartext', cm, 'cleartext signed message'))
    cm2 = pgpy.PGPMessage.new('two signers', cleartext=True)
    cm2 |= k.sign(cm2, created=K.ts(K.T0 + 34))
    cm2 |= rk.sign(cm2, created=K.ts(K.T0 + 35), hash=HashAlgorithm.SHA512)
    out.append(('signature', 'cleartext', cm2, 'cleartext two signers'))
    return out


def _crc24(data):
    crc = 0xB704CE
    for b in data:
        crc ^= b << 16
        for _ in range(8):
            crc <<= 1
            if crc & 0x1000000:
                crc ^= 0x1864CFB
    return crc & 0xFFFFFF


HEADER_SETS = [[], [['Version', 'PGPy v0.6']], [['Comment', 'a comment with: colon and spaces']],
               [['Version', 'v1'], ['Comment', 'first'], ['MessageID', 'abc123'], ['Charset', 'utf-8']],
               [['Comment', 'ünïcode — text']],
               # a header whose value is empty, one with trailing blanks in the value, a key with a hyphen and digits
               [['Comment', ''], ['X-Key-2', 'v']], [['Comment', 'ends with two blanks  ']]]


def loader(expect):
    pgpy = import_pgpy()
    return {'key': pgpy.PGPKey, 'message': pgpy.PGPMessage, 'cleartext': pgpy.PGPMessage, 'signature': pgpy.PGPSignature}[expect]


def load(expect, data):
    """-> (out, crcwarned, payload octets or None, headers or None)"""
    cls = loader(expect)
    with warnings.catch_warnings(record=True) as w:
        warnings.simplefilter('always')
        try:
            r = cls.from_blob(data)
            obj = r[0] if isinstance(r, tuple) else r
            if expect == 'key' and isinstance(r, tuple) and len(r[1]) > 1:
                return 'raised', False, None, None       # more than one key in the block: not a single object
            if expect == 'signature' and obj._signature is None:
                return 'raised', False, None, None
            payload = bytes(obj)
            hdrs = [[codepoints(k_), codepoints(v_)] for k_, v_ in obj.ascii_headers.items()]
            out = 'ok'
        except Exception:
            out, payload, hdrs = 'raised', None, None
    crcw = any('crc24' in str(x.message).lower() for x in w)
    return out, crcw, payload, hdrs


def write_events(ctx, objs):
    ev = []
    for n, (kind, expect, obj, label) in enumerate(objs):
        hs = HEADER_SETS[n % len(HEADER_SETS)] if n % 4 == 0 or not label.startswith('literal') else []
        obj.ascii_headers.clear()
        if n % 3 == 1:
            # history: the object has been armored before with other headers; the text is a function of the current state only
            obj.ascii_headers['Comment'] = 'an earlier export'
            try:
                str(obj), bytes(obj)
            except Exception:
                pass
            obj.ascii_headers.clear()
        for k_, v_ in hs:
            obj.ascii_headers[k_] = v_
        if kind == 'privkey':
            # history: the public half has been derived and given headers of its own; they belong to that object only
            try:
                half = obj.pubkey
                half.ascii_headers['Comment'] = 'set on the derived public key'
                half.ascii_headers['X-Other'] = 'not mine'
            except Exception:
                pass
        try:
            text = str(obj)
            binary = bytes(obj)
        except Exception as ex:
            ev.append({'k': 'write', 'kind': kind, 'headers': [], 'bin': [], 'text': [0], 'label': label + ' RAISED ' + repr(ex)[:60]})
            continue
        ev.append({'k': 'write', 'kind': kind, 'headers': [[codepoints(k_), codepoints(v_)] for k_, v_ in hs], 'bin': octets(binary),
                   'text': codepoints(text), 'label': label, 'expect': expect})
    return ev


def read_events(ctx, wev):
    ev = []
    # choose a spread of written blocks
    picks = [e for e in wev if not e['label'].startswith('literal') and not e['label'].startswith('lone ')] + [e for e in wev if e['label'].startswith('literal')][:: (9 if ctx.quick else 3)]
    for e in picks:
        text = ''.join(chr(c) for c in e['text'])
        expect = e['expect']
        ascii_only = all(c < 128 for c in e['text'])
        variants = [('as written', text, True), ('CRLF', text.replace('\n', '\r\n'), True),
                    ('surrounded by text', 'Some leading text\nand more\n\n' + text + '\ntrailing words\n', True),
                    ('no final newline', text.rstrip('\n'), True)]
        if ascii_only:
            # the block inside other text that is not ASCII (a mail body): the text is not OpenPGP data - its first octet is not a packet tag
            variants += [('surrounded by non-ASCII text', 'Gr\xfc\xdfe,\nhere is the k\xe9y \u2713 \U0001f511\n\n' + text + '\n\u2014 bye \u2713\n', True),
                         ('after Latin-1 text', 'Gr\xfc\xdfe, voil\xe0:\n' + text, True)]
        # the same block re-wrapped at other legal line widths (RFC 4880 6.3: at most 76 characters), as other implementations write it
        if expect != 'cleartext':
            ls = text.split('\n')
            b0 = ls.index('') + 1
            b1 = next(j for j in range(b0, len(ls)) if ls[j].startswith('='))
            body = ''.join(ls[b0:b1])
            for w in (76, 72, 60, 48, 4) if (not ctx.quick or len(body) > 76) else (76,):
                wrapped = [body[j:j + w] for j in range(0, len(body), w)]
                variants.append(('re-wrapped at %d' % w, '\n'.join(ls[:b0] + wrapped + ls[b1:]), True))
                if w == 76:
                    variants.append(('re-wrapped at 76 CRLF', '\r\n'.join(ls[:b0] + wrapped + ls[b1:]), True))
        for vname, vtext, must in variants:
            forms = [('str', vtext)]
            if vname == 'surrounded by non-ASCII text':
                forms += [('bytes', vtext.encode('utf-8')), ('bytearray', bytearray(vtext.encode('utf-8')))]
            elif vname == 'after Latin-1 text':
                forms += [('bytes (latin-1)', vtext.encode('latin-1')), ('bytes', vtext.encode('utf-8'))]
            elif ascii_only:
                forms += [('bytes', vtext.encode('ascii')), ('bytearray', bytearray(vtext.encode('ascii')))]
            elif vname != 'surrounded by text':
                forms += [('bytes', vtext.encode('utf-8'))]          # header values are UTF-8 text (RFC 4880 6.2)
            for fname, data in forms:
                out, crcw, payload, hdrs = load(expect, data)
                # a block with a non-ASCII (UTF-8) header value that stands at the start of the input must load like any other; buried in
                # other non-ASCII text it need not
                must_ = bool(must and (ascii_only or vname != 'surrounded by text'))
                r = {'k': 'read', 'text': codepoints(vtext), 'expect': expect, 'must_load': must_, 'out': out, 'crcwarned': crcw,
                     'bin': octets(payload) if payload is not None else [], 'label': '%s / %s / %s' % (e['label'], vname, fname)}
                if hdrs is not None and vname in ('as written', 'CRLF', 'surrounded by text', 're-wrapped at 76 CRLF') and (ascii_only or vname != 'surrounded by text'):
                    r['headers'] = hdrs
                ev.append(r)
        # wrong kind: every other loader must refuse this block
        for other in ('key', 'message', 'signature'):
            if other == expect or (expect == 'cleartext' and other in ('message', 'signature')):
                continue
            if expect == 'signature' and other == 'message':
                # PGPMessage accepts a SIGNATURE block only as part of a cleartext message; a bare block must not load silently
                pass
            out, crcw, payload, hdrs = load(other, text)
            ev.append({'k': 'read', 'text': codepoints(text), 'expect': other, 'must_load': False, 'out': out, 'crcwarned': crcw,
                       'bin': octets(payload) if payload is not None else [], 'label': '%s / loaded as %s' % (e['label'], other)})
    return ev


def corruption_events(ctx, wev):
    """every single-character corruption of the radix-64 body and the checksum line of small blocks."""
    ev = []
    small = [e for e in wev if e['label'] in ('detached signature', 'literal n=5', 'literal n=17', 'cleartext signed message', 'literal zero-crc') or
             (not ctx.quick and e['label'] in ('literal n=48', 'literal n=49', 'public key uidlen=1'))]
    repl = 'Az09+/=' if not ctx.quick else 'Bz=+'
    for e in small:
        text = ''.join(chr(c) for c in e['text'])
        lines = text.split('\n')
        # positions of body / crc characters: lines after the blank line following the *armor* BEGIN line
        begin = max(i for i, l in enumerate(lines) if l.startswith('-----BEGIN PGP ') and 'SIGNED MESSAGE' not in l)
        blank = next(i for i in range(begin + 1, len(lines)) if lines[i] == '')
        end = next(i for i in range(blank + 1, len(lines)) if lines[i].startswith('-----END PGP '))
        offs = []
        pos = 0
        for i, l in enumerate(lines):
            if blank < i < end:
                offs += list(range(pos, pos + len(l)))
            pos += len(l) + 1
        for o in offs:
            for c in repl:
                if text[o] == c:
                    continue
                vtext = text[:o] + c + text[o + 1:]
                out, crcw, payload, hdrs = load(e['expect'], vtext)
                ev.append({'k': 'read', 'text': codepoints(vtext), 'expect': e['expect'], 'must_load': False, 'out': out, 'crcwarned': crcw,
                           'bin': octets(payload) if payload is not None else [], 'label': '%s / char %d -> %r' % (e['label'], o, c)})
        # the checksum line replaced by the encoding of zero (a wrong checksum that happens to be 0)
        crcline = next(i for i in range(blank + 1, end) if lines[i].startswith('=') and len(lines[i]) == 5)
        if lines[crcline] != '=AAAA':
            vtext = '\n'.join('=AAAA' if i == crcline else l for i, l in enumerate(lines))
            out, crcw, payload, hdrs = load(e['expect'], vtext)
            ev.append({'k': 'read', 'text': codepoints(vtext), 'expect': e['expect'], 'must_load': False, 'out': out, 'crcwarned': crcw,
                       'bin': octets(payload) if payload is not None else [], 'label': '%s / checksum line replaced by =AAAA' % e['label']})
        # structural corruptions: dropped checksum line, truncated body, deleted character
        for name, vtext in (('checksum line removed', '\n'.join(l for i, l in enumerate(lines) if not (blank < i < end and l.startswith('=') and len(l) == 5))),
                            ('one body character deleted', text[:offs[3]] + text[offs[3] + 1:]),
                            ('last body line removed', '\n'.join(l for i, l in enumerate(lines) if i != end - 2))):
            out, crcw, payload, hdrs = load(e['expect'], vtext)
            ev.append({'k': 'read', 'text': codepoints(vtext), 'expect': e['expect'], 'must_load': False, 'out': out, 'crcwarned': crcw,
                       'bin': octets(payload) if payload is not None else [], 'label': '%s / %s' % (e['label'], name)})
    return ev


def run(ctx):
    ctx.assumptions += ['TLC/SANY', 'JSON marshalling (text as code points)',
                        'a missing checksum line is tolerated by the spec reader only when the harness does not require loading (RFC 4880: the checksum is optional)']
    ctx.model('MC_Armor', 'MC_Armor_quick' if ctx.quick else 'MC_Armor')
    objs = objects(ctx)
    wev = write_events(ctx, objs)
    rev = read_events(ctx, wev)
    cev = corruption_events(ctx, wev)
    ev = wev + rev + cev
    for e in ev:
        ctx.case((e['k'], e['label']))
    ctx.sample({'k': 'write', 'label': wev[4]['label'], 'text': ''.join(chr(c) for c in wev[4]['text'])})
    ctx.sample({k: v for k, v in rev[5].items() if k not in ('text', 'bin')})
    ctx.sample({k: v for k, v in cev[50].items() if k not in ('text', 'bin')})
    rej = ctx.judge('Trace_C10', ev, chunk=1500)
    ctx.traces += len(ev) - len(rej)
    bad = {i for i, _ in rej}
    good = [e for i, e in enumerate(ev) if i not in bad and len(e['text']) < 1500]

    def c_bin(e):
        if e['k'] != 'write' or not e['bin']:
            return None
        e['bin'][0] ^= 1
        return e

    def c_silent(e):
        if e['k'] != 'read' or not e['crcwarned'] or e['out'] != 'ok':
            return None
        e['crcwarned'] = False
        return e

    def c_line(e):
        if e['k'] != 'write':
            return None
        t = e['text']
        i = next(j for j in range(len(t) - 1) if t[j] == 10 and t[j + 1] == 10) + 2
        nl = t.index(10, i)
        if nl - i < 64 or t.index(10, nl + 1) - nl < 20:
            return None
        e['text'] = t[:nl] + t[nl + 1:nl + 15] + [10] + t[nl + 15:]      # first body line made 78 columns long
        return e
    ctx.selftest(lambda b: ctx.judge('Trace_C10', b), good,
                 [('binary export differs from the armored payload', c_bin), ('CRC mismatch not reported', c_silent), ('a 78-column body line', c_line),
                  ('loaded payload differs', lambda e: dict(e, bin=e['bin'][:-1] + [e['bin'][-1] ^ 1]) if e['k'] == 'read' and e['out'] == 'ok' and not e['crcwarned'] and e['bin'] else None)], 'C10')
    ctx.extra['written_blocks'] = len(wev)
    ctx.extra['read_variants'] = len(rev)
    ctx.extra['corruptions'] = len(cev)
    ctx.extra['corruption_outcomes'] = {'raised': sum(1 for e in cev if e['out'] == 'raised'),
                                        'crc_warning': sum(1 for e in cev if e['out'] == 'ok' and e['crcwarned']),
                                        'silent_ok': sum(1 for e in cev if e['out'] == 'ok' and not e['crcwarned'])}
    ctx.extra['read_outcomes'] = {'ok': sum(1 for e in rev if e['out'] == 'ok'), 'raised': sum(1 for e in rev if e['out'] == 'raised')}
    if ctx.extra['read_outcomes']['ok'] < 50:
        raise MachineryError('reader variants are not loading: %s' % ctx.extra['read_outcomes'])
    for idx, clause in rej:
        e = ev[idx]
        parts = e['label'].split(' / ')
        obj = parts[0].split(' n=')[0].split(' uidlen')[0]
        var = parts[1] if len(parts) > 1 else ''
        if var.startswith('char '):
            var = 'single-character corruption'
        form = parts[2] if len(parts) > 2 else ''
        ctx.violation(clause, '%s: %s | %s | %s' % (e['k'], obj, var, form), {'label': e['label'], 'text': ''.join(chr(c) for c in e['text']), 'out': e.get('out'),
                                                                                 'crcwarned': e.get('crcwarned')})
    return ctx.finish(level='model_checking',
                      rule='write: every object kind, literal payload lengths 1..99/399 and a sweep to 3000 (all residues mod 3 and 48), header sets; '
                           'read: LF/CRLF/surrounding text/no final newline x str/bytes/bytearray, wrong-kind loaders; corruptions: every body and '
                           'checksum character of small blocks x replacement characters; distinct = distinct (object, variant)',
                      exhaustive=False)


def replay(ctx, rep):
    d = rep['detail']
    print('label:', d['label'])
    print(d['text'])
    return 0
