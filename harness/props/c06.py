"""C06 - secret keys at rest: passphrase protection is correct, checked, wiped after use.

Spec: spec/KeyProtect.tla (protection state machine and the observables it fixes), spec/Encrypt.tla / S2K (layout of the
protected secret key), models/Trace_KeyLife (FOCUS=C06) and Trace_Recover.
  MC_KeyProtect     TypeOK / RelockedOutsideScopes for every behaviour; spec mutation LeakOnExit must be refuted
  Gen_KeyProtect    all action sequences up to depth 4 / 5 (protect p1|p2, unlock p1|p2, scope exit normal|exception,
                    sign, export-import) replayed on real keys of several algorithms (binding G); random deep walks (V)
  Trace_KeyLife     after EVERY step: is_protected / is_unlocked, sign and decrypt succeed or refuse, secret integers
                    in the export, secret integers reachable in the object graph, re-import locked + unlockable
  Trace_Recover     independent recovery of the secret integers from the protected export (layout checked by TLC),
                    and foreign protected forms (usage 254/255, simple/salted/iterated S2K, GNU dummy) that PGPy must read
"""
import hashlib
import os
import struct
import warnings

from .. import build, enc, keylife, keys as K
from ..common import MachineryError, import_pgpy, octets


def independent_recovery(label, pb, orig_secret, pw):
    """'recover' event: the harness's RFC 4880 reader applied to one protected secret-key packet body written by PGPy (S2K usage octet,
    cipher, iterated-salted specifier, IV, CFB data); TLC checks the layout and that the plaintext is the original secret + SHA-1."""
    p = build.pub_portion_len(pb)
    e = {'k': 'recover', 'label': label, 'body': octets(pb), 'publen': p, 'orig_secret': octets(orig_secret)}
    try:
        usage, sym, spec, hid = pb[p], pb[p + 1], pb[p + 2], pb[p + 3]
        salt = bytes(pb[p + 4:p + 12])
        c = pb[p + 12]
        bs = enc.SYM[sym][3]
        iv = bytes(pb[p + 13:p + 13 + bs])
        ct = bytes(pb[p + 13 + bs:])
        pwb = pw if isinstance(pw, bytes) else pw.encode('utf-8')
        key = enc.s2k_derive(spec, hid, salt, c, pwb, enc.SYM[sym][2])
        pt = enc.cfb(sym, key, ct, True, iv=iv)
        e.update({'pt': octets(pt), 'sha1_all_but_last_20': octets(hashlib.sha1(pt[:-20]).digest()), 'failed': False})
    except Exception as ex:
        e.update({'pt': [], 'sha1_all_but_last_20': [], 'failed': True, 'exc': repr(ex)[:80]})
    return e


def mixed_state_events(ctx):
    """mixed protection states: the primary is NOT protected, its subkeys are protected and locked (each protected on its own, as a key
    arrives whose producer protects subkeys only). Operations that would use a locked subkey refuse; protect() of the key must not destroy
    what it cannot read: afterwards each subkey's secret is still recoverable by an independent reader, under the old or the new passphrase."""
    pgpy = import_pgpy()
    from pgpy.constants import SymmetricKeyAlgorithm, HashAlgorithm, KeyFlags
    ev = []
    saved = keylife.fast_s2k()
    try:
        for alg, subs in (('ed25519', [('ed25519', {KeyFlags.Sign}), ('cv25519', {KeyFlags.EncryptCommunications})]), ('rsa2048', [('rsa2048', {KeyFlags.Sign})])):
            k = K.new_key(alg, name='Mixed %s' % alg, email='mixed@x.org', usage={KeyFlags.Certify}, subs=subs)
            pub = pgpy.PGPKey.from_blob(bytes(k.pubkey))[0]
            secrets = []
            for sk in k.subkeys.values():
                pbody = next(b for t_, b, r_ in build.read_packets(bytes(sk)) if t_ in (5, 7))
                secrets.append(bytes(pbody[build.pub_portion_len(pbody) + 1:-2]))       # usage 0: secret integers, then the 16-bit checksum
                sk.protect('sub pass', SymmetricKeyAlgorithm.AES128, HashAlgorithm.SHA256)
            label = '%s primary unprotected, subkeys locked' % alg
            with warnings.catch_warnings():
                warnings.simplefilter('ignore')
                try:
                    s = k.sign('mixed text', created=K.ts(K.T0 + 3))
                    out = 'valid-signature' if pub.verify('mixed text', s) else 'invalid-signature'
                except Exception:
                    out = 'refused'
                ev.append({'k': 'mixed', 'label': label + ': sign', 'op': 'sign', 'outcome': out})
                if len(subs) > 1:
                    try:
                        m = pub.encrypt(pgpy.PGPMessage.new('mixed secret'))
                        d = k.decrypt(m)
                        out = 'decrypted' if d.message == 'mixed secret' else 'wrong-plaintext'
                    except Exception:
                        out = 'refused'
                    ev.append({'k': 'mixed', 'label': label + ': decrypt', 'op': 'decrypt', 'outcome': out})
                try:
                    k.protect('key pass', SymmetricKeyAlgorithm.AES256, HashAlgorithm.SHA256)
                except Exception as ex:
                    ev.append({'k': 'mixed', 'label': label + ': protect', 'op': 'protect', 'outcome': 'raised'})      # refusing is fine
                blob = bytes(k)
            bodies = [b for t_, b, r_ in build.read_packets(blob) if t_ == 7]
            for j, (pb, sec) in enumerate(zip(bodies, secrets)):
                opened = None
                for pw in ('sub pass', 'key pass'):
                    r = independent_recovery('%s: subkey %d after protect() of the key, passphrase %r' % (label, j + 1, pw), pb, sec, pw)
                    if not r['failed'] and r['pt'][-20:] == r['sha1_all_but_last_20']:
                        opened = r
                        break
                if opened is not None:
                    ev.append(opened)
                else:
                    ev.append({'k': 'mixed', 'label': '%s: subkey %d after protect() of the key' % (label, j + 1), 'op': 'protect', 'outcome': 'secret-lost'})
        # a protect() that FAILS (a cipher that cannot be used) leaves the key as it was: unprotected, or under its old passphrase
        k0 = K.new_key('ed25519', name='Failing Protect', email='fp@x.org', subs=[('cv25519', {KeyFlags.EncryptCommunications})])
        for state in ('unprotected', 'protected and unlocked'):
            for cname in ('Twofish256', 'Plaintext', 'IDEA'):
                k = pgpy.PGPKey.from_blob(bytes(k0))[0]
                with warnings.catch_warnings():
                    warnings.simplefilter('ignore')
                    if state != 'unprotected':
                        k.protect('old pass', SymmetricKeyAlgorithm.AES128, HashAlgorithm.SHA256)
                    before = bytes(k)
                    try:
                        if state == 'unprotected':
                            k.protect('new pass', getattr(SymmetricKeyAlgorithm, cname), HashAlgorithm.SHA256)
                        else:
                            with k.unlock('old pass'):
                                k.protect('new pass', getattr(SymmetricKeyAlgorithm, cname), HashAlgorithm.SHA256)
                        continue                      # it worked: nothing to say here
                    except Exception:
                        pass
                    try:
                        same = bytes(k) == before
                    except Exception:
                        same = False
                ev.append({'k': 'mixed', 'label': 'protect() with %s raised on a key that is %s' % (cname, state), 'op': 'protect-fails', 'outcome': 'unchanged' if same else 'changed'})
    finally:
        keylife.restore_s2k(saved)
    return ev


PASSC = {'p1': 'component pass one', 'p2': 'component pass two'}


def component_histories(ctx):
    """G + V binding for KeyProtectC.tla: one shortest history to every state of the component-level specification (plus TLC-simulated
    walks), executed on a real key - primary P (certify only), signing subkey S, a freshly generated signing subkey N added by the
    history - and validated step by step by Trace_KeyProtC. Returns (traces, recover events for Trace_Recover)."""
    pgpy = import_pgpy()
    from pgpy.constants import SymmetricKeyAlgorithm, HashAlgorithm, KeyFlags
    g = ctx.model('Gen_KeyProtectC', workers=1)
    behs = sorted({tuple(tuple(x) for x in p[1]) for p in g.prints if isinstance(p, list) and p and p[0] == 'BEH'}, key=lambda b: (len(b), b))
    if len(behs) < 400:
        raise MachineryError('Gen_KeyProtectC produced %d histories' % len(behs))
    sim = ctx.model('Gen_KeyProtectC', 'Gen_KeyProtectCSim', simulate='num=%d' % (60 if ctx.quick else 1500), depth=14, seed=ctx.seed + 3, workers=1)
    walks = sorted({tuple(tuple(x) for x in p[1]) for p in sim.prints if isinstance(p, list) and p and p[0] == 'BEH' and len(p[1]) >= 9})
    # of the simulated walks keep the maximal ones
    walks = [w for w in walks if not any(len(o) > len(w) and o[:len(w)] == w for o in walks)]
    other = K.new_key('ed25519', name='Component Other', email='co@x.org')
    base = K.new_key('ed25519', name='Components', email='comp@x.org', usage={KeyFlags.Certify}, subs=[('ed25519', {KeyFlags.Sign})])
    base_blob = bytes(base)

    def secret_of(keyobj):
        body = next(b for t_, b, r_ in build.read_packets(bytes(keyobj)) if t_ in (5, 7))
        return bytes(body[build.pub_portion_len(body) + 1:-2])
    traces, recs = [], []
    saved = keylife.fast_s2k()
    try:
        for beh in behs + walks:
            with warnings.catch_warnings():
                warnings.simplefilter('ignore')
                k = pgpy.PGPKey.from_blob(base_blob)[0]
                pub = pgpy.PGPKey.from_blob(bytes(k.pubkey))[0]
                comps = {'P': k, 'S': list(k.subkeys.values())[0], 'N': None}
                orig = {'P': secret_of(k), 'S': secret_of(comps['S'])}
                scopes = []
                tr = []
                for act in beh:
                    last = '-'
                    try:
                        if act[0] == 'protect':
                            k.protect(PASSC[act[1]], SymmetricKeyAlgorithm.AES128, HashAlgorithm.SHA256)
                        elif act[0] == 'protectsub':
                            comps[act[1]].protect(PASSC[act[2]], SymmetricKeyAlgorithm.AES128, HashAlgorithm.SHA256)
                        elif act[0] == 'unlock':
                            cm = k.unlock(PASSC[act[1]])
                            try:
                                cm.__enter__()
                                scopes.append(cm)
                            except Exception:
                                pass                      # a wrong passphrase: no block is entered
                        elif act[0] == 'exit':
                            scopes.pop().__exit__(None, None, None)
                        elif act[0] == 'addsub':
                            n_ = K.raw_key('ed25519', K.T0 + 40)
                            osec = secret_of(n_)
                            orig['N'] = osec
                            try:
                                k.add_subkey(n_, usage={KeyFlags.Sign}, created=K.ts(K.T0 + 41))
                                comps['N'] = n_
                                pub = pgpy.PGPKey.from_blob(bytes(k.pubkey))[0]
                                last = 'ok'
                            except Exception:
                                last = 'refused'
                        elif act[0] in ('certify', 'sign', 'signby'):
                            try:
                                if act[0] == 'certify':
                                    s_ = k.certify(other.userids[0], created=K.ts(K.T0 + 50))
                                    good = bool(pub.verify(other.userids[0], s_))
                                else:
                                    s_ = (k if act[0] == 'sign' else comps[act[1]]).sign('component text', created=K.ts(K.T0 + 50))
                                    good = bool(pub.verify('component text', s_))
                                last = 'ok' if good else 'garbage'
                            except Exception:
                                last = 'refused'
                    except MachineryError:
                        raise
                    except Exception as ex:
                        tr.append({'act': list(act), 'obs': {'st': {'P': 'raised', 'S': 'raised', 'N': 'raised'}, 'last': 'raised'}, 'exc': repr(ex)[:100]})
                        break
                    # what the KEY holds decides which components are there (a refused add_subkey must not leave one behind)
                    subs_now = list(k.subkeys.values())
                    comps['N'] = subs_now[1] if len(subs_now) > 1 else None
                    st = {}
                    for c, o in comps.items():
                        st[c] = 'absent' if o is None else ('clear' if not o.is_protected else ('open' if o.is_unlocked else 'locked'))
                    tr.append({'act': list(act), 'obs': {'st': st, 'last': last}})
                # at the end: is every secret still recoverable (in the clear for unprotected components, under ONE of the passphrases otherwise)?
                if tr and 'exc' not in tr[-1]:
                    rec = {}
                    try:
                        bodies = [b for t_, b, r_ in build.read_packets(bytes(k)) if t_ in (5, 7)]
                    except Exception:
                        bodies = []
                    for c, pb in zip(['P', 'S', 'N'], bodies):
                        p_ = build.pub_portion_len(pb)
                        if pb[p_] == 0:
                            rec[c] = 'clear-ok' if bytes(pb[p_ + 1:-2]) == orig[c] else 'lost'
                            continue
                        rec[c] = 'lost'
                        for pn, pw in PASSC.items():
                            r = independent_recovery('component history %s: %s under %s' % (len(traces), c, pn), pb, orig[c], pw)
                            if not r['failed'] and r['pt'][-20:] == r['sha1_all_but_last_20']:
                                rec[c] = pn
                                if len(recs) < 400:
                                    recs.append(r)
                                break
                    for c in ('P', 'S', 'N'):
                        rec.setdefault(c, 'absent')
                    tr[-1]['obs']['rec'] = rec
                for cm in reversed(scopes):
                    try:
                        cm.__exit__(None, None, None)
                    except Exception:
                        pass
            traces.append(tr)
            ctx.case(('component-history', beh))
    finally:
        keylife.restore_s2k(saved)
    return traces, recs


def recover_events(ctx):
    """independent recovery from PGPy's protected export + foreign protected forms."""
    pgpy = import_pgpy()
    from pgpy.constants import SymmetricKeyAlgorithm, HashAlgorithm
    ev = []
    saved = keylife.fast_s2k()
    try:
        # (cipher, S2K hash): the third and the last three need more than one hash context (cipher key longer than the digest)
        combos = [(SymmetricKeyAlgorithm.AES256, HashAlgorithm.SHA256), (SymmetricKeyAlgorithm.CAST5, HashAlgorithm.SHA1), (SymmetricKeyAlgorithm.AES256, HashAlgorithm.SHA1),
                  (SymmetricKeyAlgorithm.Camellia128, HashAlgorithm.SHA512),
                  (SymmetricKeyAlgorithm.TripleDES, HashAlgorithm.SHA224), (SymmetricKeyAlgorithm.AES192, HashAlgorithm.SHA384), (SymmetricKeyAlgorithm.Blowfish, HashAlgorithm.MD5),
                  (SymmetricKeyAlgorithm.AES192, HashAlgorithm.SHA1), (SymmetricKeyAlgorithm.Camellia256, HashAlgorithm.SHA224), (SymmetricKeyAlgorithm.AES256, HashAlgorithm.MD5)]
        pws = ['ascii pass', 'pässwörd ✓', 'x' * 1000, b'\xff\xfe raw bytes']
        n = 0
        for alg, subs in (('ed25519', ['cv25519']), ('rsa2048', []), ('p256', ['ecdh256']), ('dsa1024', [])):
            if ctx.quick and alg == 'dsa1024':
                continue
            S = keylife.Subject(alg, subs)
            for ci, (cipher, h) in enumerate(combos if not ctx.quick else combos[:4]):
                pw = pws[(n + ci) % len(pws)]
                n += 1
                if ci == 1:
                    keylife.restore_s2k(saved)       # one combination per key with PGPy's default count
                k = S.fresh()
                try:
                    k.protect(pw, cipher, h)
                    blob = bytes(k)
                except Exception as ex:
                    ctx.note('protect refused %s/%s: %s' % (cipher, h, repr(ex)[:80]))
                    continue
                finally:
                    if ci == 1:
                        saved = keylife.fast_s2k()
                clear = [b for t, b, r in build.read_packets(S.clear_blob) if t in (5, 7)]
                prot = [b for t, b, r in build.read_packets(blob) if t in (5, 7)]
                for j, (cb, pb) in enumerate(zip(clear, prot)):
                    p = build.pub_portion_len(pb)
                    orig_secret = bytes(cb[build.pub_portion_len(cb) + 1:-2])
                    e = {'k': 'recover', 'label': '%s comp %d %s/%s pw=%s' % (alg, j, cipher.name, h.name, type(pw).__name__), 'body': octets(pb), 'publen': p,
                         'orig_secret': octets(orig_secret)}
                    try:
                        usage, sym, spec, hid = pb[p], pb[p + 1], pb[p + 2], pb[p + 3]
                        salt = bytes(pb[p + 4:p + 12])
                        c = pb[p + 12]
                        bs = enc.SYM[sym][3]
                        iv = bytes(pb[p + 13:p + 13 + bs])
                        ct = bytes(pb[p + 13 + bs:])
                        pwb = pw if isinstance(pw, bytes) else pw.encode('utf-8')
                        key = enc.s2k_derive(spec, hid, salt, c, pwb, enc.SYM[sym][2])
                        pt = enc.cfb(sym, key, ct, True, iv=iv)
                        e.update({'pt': octets(pt), 'sha1_all_but_last_20': octets(hashlib.sha1(pt[:-20]).digest()), 'failed': False})
                    except Exception as ex:
                        e.update({'pt': [], 'sha1_all_but_last_20': [], 'failed': True, 'exc': repr(ex)[:80]})
                    ev.append(e)
    finally:
        keylife.restore_s2k(saved)
    # ---- foreign protected forms PGPy must read
    for kind in ('ed25519', 'rsa2048', 'p256'):
        fk = build.ForeignKey(kind)
        uid = b'Foreign Secret <fs@example.org>'
        pub = pgpy.PGPKey.from_blob(build.transferable_key(fk, [uid]))[0]
        sm = fk.secret_mpis()
        forms = [('usage 254 iterated', 254, 3), ('usage 254 salted', 254, 1), ('usage 254 simple', 254, 0), ('usage 255 iterated (16-bit checksum)', 255, 3),
                 ('usage 255 simple', 255, 0), ('usage 254 iterated old-format header', 254, 3),
                 # RFC 4880 5.5.3: any other usage value IS the cipher id; key = MD5 of the passphrase (simple S2K), 16-bit checksum. Not in the
                 # property's must-read list: a reader may refuse such a key, but one it accepts is a protected key like the others
                 ('legacy usage (the usage octet is the cipher id) AES-256', 9, -1), ('legacy usage (the usage octet is the cipher id) CAST5', 3, -1),
                 ('legacy usage (the usage octet is the cipher id) AES-128', 7, -1)]
        for fi, (label, usage, spec) in enumerate(forms):
            sym, hid = [(9, 8), (7, 2), (3, 10)][fi % 3]
            if spec == -1:
                sym, hid = usage, 1
            kl, bs = enc.SYM[sym][2], enc.SYM[sym][3]
            salt = os.urandom(8) if spec > 0 else b''
            c = [0, 16, 96][fi % 3]
            iv = os.urandom(bs)
            pw = 'foreign pass ✓'.encode('utf-8')
            key = enc.s2k_derive(max(spec, 0), hid, salt, c, pw, kl)
            tail = hashlib.sha1(sm).digest() if usage == 254 else struct.pack('>H', sum(sm) & 0xFFFF)
            ct = enc.cfb(sym, key, sm + tail, False, iv=iv)
            s2k = bytes([usage]) + iv if spec == -1 else bytes([usage, sym, spec, hid]) + salt + (bytes([c]) if spec == 3 else b'') + iv
            body = fk.pub_body + s2k + ct
            fmt = 'old' if 'old-format' in label else 'new'
            kblob = build.pkt(5, body, fmt=fmt) + b''.join(r for t, b, r in build.read_packets(build.transferable_key(fk, [uid]))[1:])
            e = {'k': 'foreign-secret', 'label': '%s %s cipher=%d hash=%d' % (kind, label, sym, hid), 'body': octets(body), 'publen': len(fk.pub_body),
                 'pt': octets(sm + tail), 'orig_secret': octets(sm), 'usage': usage, 'loaded': False}
            with warnings.catch_warnings():
                warnings.simplefilter('ignore')
                try:
                    k = pgpy.PGPKey.from_blob(kblob)[0]
                    e['loaded'] = True
                    e['loaded_protected'] = bool(k.is_protected and not k.is_unlocked)
                    e['wrong_refused'] = True
                    for wrong in ('wrong pass', 'foreign pass ✓\n', 'foreign pass ✓ ', 'foreign pass \u2713'[:-1], ' foreign pass ✓', 'Foreign pass ✓', 'foreign pass ✓\r\n'):
                        try:
                            with k.unlock(wrong):
                                e['wrong_refused'] = False
                        except Exception:
                            e['wrong_refused'] = e['wrong_refused'] and not k.is_unlocked
                    with k.unlock('foreign pass ✓'):
                        s = k.sign('foreign text', created=K.ts(K.T0 + 3))
                        e['sign_ok'] = bool(pub.verify('foreign text', s))
                    e['relocked'] = not k.is_unlocked
                    e['raised'] = False
                    # history: the imported key is given a new passphrase (protect inside an unlock scope); the result must again be a key an
                    # independent reader opens with the new passphrase, whatever form it arrived in
                    try:
                        with k.unlock('foreign pass ✓'):
                            k.protect('a new passphrase', pgpy.constants.SymmetricKeyAlgorithm.AES256, pgpy.constants.HashAlgorithm.SHA256)
                        pb2 = next(b for t_, b, r_ in build.read_packets(bytes(k)) if t_ == 5)
                        ev.append(independent_recovery('%s %s: re-protected with a new passphrase' % (kind, label), pb2, sm, 'a new passphrase'))
                        k3 = pgpy.PGPKey.from_blob(bytes(k))[0]
                        with k3.unlock('a new passphrase'):
                            e['sign_ok'] = e['sign_ok'] and bool(pub.verify('foreign text', k3.sign('foreign text', created=K.ts(K.T0 + 4))))
                    except Exception as ex:
                        e['sign_ok'] = False
                        e['exc'] = 're-protect: ' + repr(ex)[:90]
                except Exception as ex:
                    e.update({'raised': True, 'exc': repr(ex)[:100]})
                    for f_ in ('loaded_protected', 'wrong_refused', 'sign_ok', 'relocked'):
                        e.setdefault(f_, False)
            ev.append(e)
        # GNU dummy S2K (no secret material): must load, be protected, and refuse to sign
        body = fk.pub_body + bytes([254, 0, 101, 0]) + b'GNU\x01'
        kblob = build.pkt(5, body) + b''.join(r for t, b, r in build.read_packets(build.transferable_key(fk, [uid]))[1:])
        e = {'k': 'gnu-dummy', 'label': '%s GNU dummy' % kind}
        with warnings.catch_warnings():
            warnings.simplefilter('ignore')
            try:
                k = pgpy.PGPKey.from_blob(kblob)[0]
                e['fingerprint_ok'] = bytes.fromhex(str(k.fingerprint)) == fk.fingerprint
                try:
                    k.sign('x')
                    e['sign_refused'] = False
                except Exception:
                    e['sign_refused'] = True
                e['export_same'] = bytes(k)[:len(build.pkt(5, body))] == build.pkt(5, body)
                e['raised'] = False
            except Exception as ex:
                e.update({'raised': True, 'fingerprint_ok': False, 'sign_refused': False, 'export_same': False, 'exc': repr(ex)[:100]})
        ev.append(e)
    return ev


def run(ctx):
    import_pgpy()
    ctx.assumptions += ['TLC/SANY', 'JSON marshalling', 'CFB / SHA-1 / S2K primitives of the independent side (S2K validated by C12)',
                        '"holds no secret integer" is decided over the reachable Python object graph (gc.get_referents), not over freed memory',
                        'the bulk replays lower the S2K count through HashAlgorithm._tuned_count for speed; some behaviours keep the default']
    warnings.simplefilter('ignore')
    r = ctx.model('MC_KeyProtect', coverage=True)
    for act in ('Protect', 'UnlockOK', 'UnlockWrong', 'ScopeExit'):
        if r.coverage.get(act, (0, 0))[1] == 0:
            raise MachineryError('KeyProtect action %s never taken' % act)
    ctx.model('MC_KeyProtect', 'MC_KeyProtect_leak', must_hold=False)
    traces, rej = keylife.generate(ctx, 'C06')
    for tid, clause, step in rej:
        t = traces[tid]
        b = t['behaviour'][:step]
        ctx.violation(clause, 'alg=%s last-action=%s' % (t['meta']['alg'], b[-1][0]), {'behaviour': b, 'obs': {k: v for k, v in t['events'][step - 1]['obs'].items() if k not in ('privblob', 'pub', 'priv_uids')},
                                                                                           'raised': t['events'][step - 1]['raised']})
    # component-level protection states (KeyProtectC.tla): the design and its three as-found switches, then G + V on real keys
    rc = ctx.model('MC_KeyProtectC', coverage=True)
    for act in ('ProtectKey', 'ProtectSub', 'Unlock', 'ScopeExit', 'AddSub', 'Certify', 'Sign', 'SignBy'):
        if rc.coverage.get(act, (0, 0))[1] == 0:
            raise MachineryError('KeyProtectC action %s never taken' % act)
    for mcfg in ('MC_KeyProtectC_wipe', 'MC_KeyProtectC_protectlocked', 'MC_KeyProtectC_checkcaller'):
        ctx.model('MC_KeyProtectC', mcfg, must_hold=False)
    ctraces, crecs = component_histories(ctx)
    rcv = ctx.trace('Trace_KeyProtC', {'traces': ctraces}, name='component-histories')
    done = [p_ for p_ in rcv.prints if isinstance(p_, list) and p_ and p_[0] == 'DONE']
    if not done or done[-1][1] != len(ctraces):
        raise MachineryError('Trace_KeyProtC did not reach the end of the batch: %s' % rcv.raw[-1500:])
    crej = [p_ for p_ in rcv.prints if isinstance(p_, list) and p_ and p_[0] == 'REJECT']
    ctx.traces += len(ctraces) - len(crej)
    ctx.extra['component_histories'] = len(ctraces)
    for p_ in crej:
        tid_, clause_, step_ = p_[1], p_[2], p_[3]
        tr_ = ctraces[tid_ - 1]
        if clause_.startswith('harness'):
            raise MachineryError('Trace_KeyProtC: %s at step %d of %s' % (clause_, step_, [e_['act'] for e_ in tr_]))
        ctx.violation(clause_, 'component history, last action %s' % tr_[step_ - 1]['act'][0], {'history': [e_['act'] for e_ in tr_[:step_]], 'obs': tr_[step_ - 1]['obs'], 'exc': tr_[step_ - 1].get('exc')})
    if not crej:
        # binding demonstration: corrupt recorded fields of accepted histories; every copy must be rejected
        import copy as _copy
        longest = sorted(ctraces, key=len)[-3:]
        cor = []
        c_ = _copy.deepcopy(longest[0]); c_[-1]['obs']['st']['S'] = 'open' if c_[-1]['obs']['st']['S'] != 'open' else 'locked'; cor.append(c_)
        c_ = _copy.deepcopy(longest[1]); c_[-1]['obs']['rec']['P'] = 'lost'; cor.append(c_)
        c_ = _copy.deepcopy(next(t_ for t_ in ctraces if t_[-1]['obs']['last'] == 'refused')); c_[-1]['obs']['last'] = 'garbage'; cor.append(c_)
        rs = ctx.trace('Trace_KeyProtC', {'traces': cor}, name='component-selftest')
        nrej = len([p_ for p_ in rs.prints if isinstance(p_, list) and p_ and p_[0] == 'REJECT'])
        if nrej != len(cor):
            raise MachineryError('Trace_KeyProtC accepted a corrupted history (%d of %d rejected)' % (nrej, len(cor)))
    rev = recover_events(ctx) + mixed_state_events(ctx) + crecs
    for e in rev:
        ctx.case((e['k'], e['label']))
    ctx.sample({k: v for k, v in rev[0].items() if k not in ('body', 'pt', 'orig_secret')})
    rrej = ctx.judge('Trace_Recover', rev)
    ctx.traces += len(rev) - len(rrej)
    ctx.extra['recovery_events'] = len(rev)
    for idx, clause in rrej:
        e = rev[idx]
        if clause.startswith('harness'):
            raise MachineryError('TLC rejected harness-built secret key (%s): %s' % (clause, e['label']))
        ctx.violation(clause, e['label'].split(' cipher=')[0], {'event': {k: v for k, v in e.items() if k not in ('body', 'pt', 'orig_secret')}})
    # unbounded in the scope depth: RelockedOutsideScopes is an inductive invariant of KeyProtect (Apalache); a non-inductive candidate
    # must be rejected
    from .. import tlc as _tlc
    w1 = _tlc.apalache_inductive('Apa_KeyProtect', ['KeyProtect'], 'Init', 'IndInit', 'IndInv', ctx.work)
    w2 = _tlc.apalache_inductive('Apa_KeyProtect', ['KeyProtect'], 'Init', 'NotIndInit', 'NotInd', ctx.work, expect_ok=False)
    ctx.extra['apalache_inductive'] = {'module': 'Apa_KeyProtect', 'invariant': 'IndInv (TypeOK, RelockedOutsideScopes)', 'wall_s': round(w1, 1),
                                       'non_inductive_candidate_rejected': 'NotInd (depth <= 2)', 'wall_s_negative': round(w2, 1)}
    # whole-session walks of spec/Session.tla (protection scopes x signatures x encryption x keyring), this property's clause family
    from .. import session as _session
    for _b, _step, _clause, _detail in _session.generate(ctx, 'C06.session')[0]:
        ctx.violation(_clause, 'session: %s at %s' % (_detail, _b[_step - 1][0]), {'behaviour': [list(x) for x in _b[:_step]]})
    return ctx.finish(level='model_checking',
                      rule='every action sequence of KeyProtect.tla to depth 4 (quick: all of depth <= 3 + 450 of depth 4 on Ed25519, samples on RSA / P-256) / 5 '
                           '(thorough), plus random walks of 6-13 steps, observed after every step; recovery: key algorithms x protection ciphers x S2K hashes x '
                           'passphrase classes; foreign forms: usage 254/255 x simple/salted/iterated x 3 key kinds + GNU dummy',
                      exhaustive=not ctx.quick)


def replay(ctx, rep):
    print(rep['detail'])
    return 0
