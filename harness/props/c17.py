"""C17 - verification verdicts are coherent: disqualifying conditions always disqualify.

Spec: spec/Verdict.tla.
  MC_Verdict    all 2^11 issue sets: Disqualify, Monotone, OnlyDisq, Coherent (results of <= 3 signatures);
                spec mutation AsFound=TRUE (exact-membership test of the code as found) must fail Monotone
  Gen_Verdict   realisable scenarios (algorithm strength x expired x revoked x subject x correctness of 1..3 signatures)
                with the entry the algorithm spec predicts (binding G)
  Trace_C17     function-level and end-to-end outcomes of the real library judged by TLC (binding O)
"""
from datetime import timedelta
import itertools

from ..common import MachineryError, import_pgpy
from .. import keys as K


def function_events(ctx):
    import_pgpy()
    from pgpy.constants import SecurityIssues
    from pgpy.types import SignatureVerification
    ev = []
    for n in range(2048):
        try:
            got = bool(SecurityIssues(n).causes_signature_verify_to_fail)
        except Exception:
            got = None
        ev.append({'k': 'fails', 'bits': n, 'got': got if got is not None else 'raised'})
    reps = [0, 1, 2, 4, 16, 1024, 8, 32, 64, 256, 512, 2 | 512, 2 | 256, 1 | 64, 8 | 512, 4 | 8, 16 | 32 | 64, 1024 | 128, 2047, 2046 & ~(2 | 4 | 16 | 1024)]
    combos = []
    for n in (1, 2, 3):
        allc = list(itertools.product(reps, repeat=n))
        if n == 3 and ctx.quick:
            allc = ctx.rng.sample(allc, 1500)
        combos += allc
    same_sig = 'one signature object'
    for cn, c in enumerate(combos):
        sv = SignatureVerification()
        if len(c) >= 2 and cn % 2 == 1:
            # the same entries arriving through the combination of two result objects (`a &= b`, as PGPKey.verify builds its answer),
            # each of which has been evaluated before
            parts = [SignatureVerification(), SignatureVerification()]
            for j, bits in enumerate(c):
                # (every fourth combination examines ONE signature object several times - over different subjects / with different keys:
                # an entry is an examination, not a signature)
                parts[0 if j == 0 else 1].add_sigsubj(('sig%d' % j) if cn % 4 == 1 else same_sig, 'key', 'subj%d' % j, SecurityIssues(bits))
            bool(parts[0]), bool(parts[1]), list(parts[0].good_signatures), list(parts[1].bad_signatures)
            sv &= parts[0]
            bool(sv)
            sv &= parts[1]
        else:
          for j, bits in enumerate(c):
            sv.add_sigsubj('sig%d' % j, 'key', 'subj%d' % j, SecurityIssues(bits))
        good = [int(s.subject[4:]) + 1 for s in sv.good_signatures]
        bad = [int(s.subject[4:]) + 1 for s in sv.bad_signatures]
        # the object is a value: reading it again (lists, truth value, length) gives the same answers
        good2 = [int(s.subject[4:]) + 1 for s in sv.good_signatures]
        bad2 = [int(s.subject[4:]) + 1 for s in sv.bad_signatures]
        ev.append({'k': 'result', 'entries': list(c), 'truthy': bool(sv), 'good': good, 'bad': bad, 'good2': good2, 'bad2': bad2, 'len': len(sv), 'truthy2': bool(sv)})
    return ev


def build_key(alg, expired, revoked, nuids=1, direct=False, uidrev=False):
    pgpy = import_pgpy()
    kw = {}
    if expired:
        kw['key_expiration'] = timedelta(days=365)
    k = K.new_key(alg, name='Owner %s' % alg, email='o@x.org', uid_kw=kw)
    for j in range(1, nuids):
        uid = pgpy.PGPUID.new('Alt %d' % j, email='alt%d@x.org' % j)
        k.add_uid(uid, created=K.ts(K.T0 + 100 + j), **kw)
    if direct:
        # a direct-key self-signature (type 0x1F): the one kind of signature whose subject is the verifying key itself
        k |= k.certify(k, created=K.ts(K.T0 + 60))
    if uidrev:
        # history: an identity of the key is revoked afterwards (the last one added; the only one when there is one) - what is true of the
        # KEY (its validity period) is not changed by that
        u = k.userids[-1]
        u |= k.revoke(u, created=K.ts(K.T0 + 900))
    if revoked:
        rs = k.revoke(k, created=K.ts(K.T0 + 1000))
        k |= rs
    return k


def e2e_events(ctx, scenarios):
    pgpy = import_pgpy()
    ev = []
    other = K.new_key('ed25519', name='Other', email='other@x.org')
    other.add_uid(pgpy.PGPUID.new('Other Two', email='o2@x.org'), created=K.ts(K.T0 + 5))
    keys = {}
    for sc, predicted in scenarios:
        alg, expired, revoked, subj, sigs = sc['alg'], sc['expired'], sc['revoked'], sc['subj'], sc['sigs']
        nuids = len(sigs) if subj == 'selfcert' else 1
        direct = (subj == 'selfcert' and len(sigs) != 2) or subj == 'directsig'         # self-verification also over a direct-key self-signature
        kk = (alg, expired, revoked, nuids, direct, bool(sc.get('uidrev')))
        if kk not in keys:
            keys[kk] = build_key(alg, expired, revoked, nuids, direct, bool(sc.get('uidrev')))
        priv = keys[kk]
        pub = pgpy.PGPKey.from_blob(bytes(priv.pubkey))[0]      # as a verifier would hold it
        rec = {'k': 'e2e', 'expired': expired, 'scenario': sc, 'predicted': predicted}
        try:
            if subj == 'doc-by-subkey':
                # the signature is made by a signing subkey; the key handed to verify() is the (possibly expired / revoked) primary with its subkeys
                from pgpy.constants import KeyFlags
                if not priv.subkeys:
                    priv.add_subkey(K.raw_key('ed25519', K.T0 + 20), usage={KeyFlags.Sign}, created=K.ts(K.T0 + 20))
                    pub = pgpy.PGPKey.from_blob(bytes(priv.pubkey))[0]
                sk_ = list(priv.subkeys.values())[0]
                s = sk_.sign('the text', created=K.ts(K.T0 + 50))
                res = pub.verify('the text' if sigs[0] else 'the tex7', s)
                expected = [s]
                wrong = [not sigs[0]]
            elif subj == 'doc':
                s = priv.sign('the text', created=K.ts(K.T0 + 50))
                res = pub.verify('the text' if sigs[0] else 'the tex7', s)
                expected = [s]
                wrong = [not sigs[0]]
            elif subj == 'thirdparty':
                s = priv.certify(other.userids[0], created=K.ts(K.T0 + 50))
                res = pub.verify(other.userids[0] if sigs[0] else other.userids[1], s)
                expected = [s]
                wrong = [not sigs[0]]
            elif subj == 'directsig':
                from pgpy.constants import SignatureType
                s = next(x for x in pub.__sig__ if x.type == SignatureType.DirectlyOnKey)
                res = pub.verify(pub if sigs[0] else other.pubkey, s)
                expected = [s]
                wrong = [not sigs[0]]
            elif subj == 'message':
                msg = pgpy.PGPMessage.new('message body', compression=pgpy.constants.CompressionAlgorithm.Uncompressed)
                decoy = pgpy.PGPMessage.new('another body', compression=pgpy.constants.CompressionAlgorithm.Uncompressed)
                for j, c in enumerate(sigs):
                    msg |= priv.sign(msg if c else decoy, created=K.ts(K.T0 + 50 + j))
                msg = pgpy.PGPMessage.from_blob(bytes(msg))
                res = pub.verify(msg)
                expected = list(msg.signatures)
                wrong = [not sigs[int((s_.created - K.ts(K.T0 + 50)).total_seconds())] for s_ in expected]
            else:   # selfcert: verify the key with itself; every self-signature on it is examined
                res = pub.verify(pub)
                expected = list(pub.__sig__) + [s_ for u in pub.userids for s_ in u.__sig__]
                wrong = [False] * len(expected)
            n = len(expected)
            idx = {id(s_): j + 1 for j, s_ in enumerate(expected)}
            good_l = list(res.good_signatures)
            bad_l = list(res.bad_signatures)
            good = [idx.get(id(x.signature), 0) for x in good_l]
            bad = [idx.get(id(x.signature), 0) for x in bad_l]
            issues = [0] * n
            seen = [0] * n
            for x in good_l + bad_l:
                j = idx.get(id(x.signature), 0)
                if j:
                    issues[j - 1] = int(x.issues) if x.issues is not None else 0
                    seen[j - 1] += 1
            rec.update({'raised': False, 'n': n, 'wrong': wrong, 'truthy': bool(res), 'good': good, 'bad': bad, 'issues': issues,
                        'listed': len(res)})
        except Exception as ex:
            rec.update({'raised': True, 'exc': repr(ex)[:200], 'n': 0, 'wrong': [], 'truthy': False, 'good': [], 'bad': [], 'issues': [], 'listed': 0})
        ev.append(rec)
    return ev


def planted_expiration_events(ctx):
    """whether a key is expired is what its self-signature SIGNS: keys from the independent encoder that expired long ago, some with a
    far-future key-expiration subpacket planted in the unhashed (unsigned) area of the self-signature; verification must stay falsy."""
    pgpy = import_pgpy()
    import struct
    import warnings
    from .. import build
    ev = []
    doc = b'signed by a key that expired long ago'
    for label, planted in (('expired', []), ('expired, 100 years planted unhashed', [build.subpacket(9, struct.pack('>I', 86400 * 36500))]),
                           ('expired, two planted', [build.subpacket(9, struct.pack('>I', 86400 * 36500)), build.subpacket(9, struct.pack('>I', 0))])):
        fk = build.ForeignKey('ed25519')                      # created 2010
        kblob = build.transferable_key(fk, [b'Expired <expired@example.org>'], extra_hashed=[build.subpacket(9, struct.pack('>I', 86400 * 5))], uid_unhashed=planted)
        pkt, _ = build.sig_packet(fk, 0x00, 'sha256', [], [], build.subject_octets(0x00, doc=doc), created=fk.created + 3600)
        rec = {'k': 'e2e', 'expired': True, 'scenario': {'alg': 'ed25519-foreign', 'expired': True, 'revoked': False, 'subj': 'doc (%s)' % label, 'sigs': [True]}, 'predicted': []}
        with warnings.catch_warnings():
            warnings.simplefilter('ignore')
            try:
                pub = pgpy.PGPKey.from_blob(kblob)[0]
                s = pgpy.PGPSignature.from_blob(pkt)
                res = pub.verify(doc, s)
                good = [1 for x in res.good_signatures]
                bad = [1 for x in res.bad_signatures]
                iss = [int(x.issues) if x.issues is not None else 0 for x in list(res.good_signatures) + list(res.bad_signatures)]
                rec.update({'raised': False, 'n': 1, 'wrong': [False], 'truthy': bool(res), 'good': good, 'bad': bad, 'issues': iss[:1], 'listed': len(res)})
            except Exception as ex:
                rec.update({'raised': True, 'exc': repr(ex)[:200], 'n': 0, 'wrong': [], 'truthy': False, 'good': [], 'bad': [], 'issues': [], 'listed': 0})
        ev.append(rec)
    return ev


REPLAY_EXACT = True      # replay() re-executes exactly the stored case


def run(ctx):
    ctx.assumptions += ['TLC/SANY', 'JSON marshalling', 'signature primitives of the cryptography package',
                        'Disabled / Invalid / NoSelfSignature cannot be produced end to end (self_verified is stubbed in PGPy); they are covered at function level only']
    ctx.model('MC_Verdict')
    ctx.model('MC_Verdict', 'MC_Verdict_asfound', must_hold=False)
    g = ctx.model('Gen_Verdict')
    scen = [(p[1], p[2]) for p in g.prints if isinstance(p, list) and p and p[0] == 'SCN']
    if len(scen) < 300:
        raise MachineryError('Gen_Verdict produced %d scenarios' % len(scen))
    if ctx.quick:
        # quick: all scenarios for three algorithms, a seeded third of the rest
        scen = [s for s in scen if s[0]['alg'] in ('ed25519', 'p256', 'rsa1024') or ctx.rng.random() < 0.34]
    # every scenario again on a key one of whose identities was revoked after the fact (a history, not a new condition of the model)
    scen = scen + [(dict(sc, uidrev=True), pred) for sc, pred in scen if sc['subj'] in ('doc', 'thirdparty', 'message', 'doc-by-subkey') and sc['alg'] in ('ed25519', 'rsa1024', 'p256')]
    ev = function_events(ctx)
    nf = len(ev)
    e2e = e2e_events(ctx, scen) + planted_expiration_events(ctx)
    ev += e2e
    for e in ev:
        if e['k'] == 'e2e':
            ctx.case(('e2e', str(e['scenario'])))
        else:
            ctx.case((e['k'], str(e.get('bits', e.get('entries')))))
    ctx.sample(ev[3])
    ctx.sample(ev[2048 + 25])
    ctx.sample({k: v for k, v in e2e[0].items()})
    ctx.sample({k: v for k, v in e2e[len(e2e) // 2].items()})
    drift = 0
    for e in e2e:
        if not e['raised'] and e['scenario']['subj'] != 'selfcert':
            from pgpy.constants import SecurityIssues
            pred = [sum(1 << {'WrongSig': 0, 'Expired': 1, 'Disabled': 2, 'Revoked': 3, 'Invalid': 4, 'BrokenAsymmetricFunc': 5,
                              'HashFunctionNotCollisionResistant': 6, 'HashFunctionNotSecondPreimageResistant': 7,
                              'AsymmetricKeyLengthIsTooShort': 8, 'InsecureCurve': 9, 'NoSelfSignature': 10}[x] for x in ent)
                    for ent in e['predicted']]
            if sorted(pred) != sorted(e['issues']):
                drift += 1
    ctx.extra['algorithm_spec_drift_cases'] = drift
    if drift:
        ctx.note('%d end-to-end cases report issue sets different from the algorithm spec prediction (drift, not a verdict)' % drift)
    rej = ctx.judge('Trace_C17', ev)
    ctx.traces += len(ev) - len(rej)
    bad = {i for i, _ in rej}
    good = [e for i, e in enumerate(ev) if i not in bad]
    ctx.selftest(lambda b: ctx.judge('Trace_C17', b), good[::53] + [e for e in good if e['k'] == 'e2e'][:40],
                 [('classification of an issue value', lambda e: dict(e, got=not e['got']) if e['k'] == 'fails' and isinstance(e['got'], bool) else None),
                  ('truthiness of a result object', lambda e: dict(e, truthy=not e['truthy']) if e['k'] == 'result' else None),
                  ('expired key reported truthy', lambda e: dict(e, truthy=True, bad=[], good=list(range(1, e['n'] + 1))) if e['k'] == 'e2e' and e['expired'] and not e['raised'] else None),
                  ('a signature listed twice', lambda e: dict(e, good=e['good'] + e['good'][:1]) if e['k'] == 'e2e' and e['good'] else None)], 'C17')
    ctx.extra['function_level_events'] = nf
    ctx.extra['end_to_end_scenarios'] = len(e2e)
    ctx.extra['end_to_end_raised'] = sum(1 for e in e2e if e['raised'])
    for idx, clause in rej:
        e = ev[idx]
        if e['k'] == 'fails':
            key = 'fails bits=%d' % e['bits']
        elif e['k'] == 'result':
            key = 'result entries=%s' % e['entries']
        else:
            s = e['scenario']
            key = 'e2e alg=%s expired=%s revoked=%s subj=%s sigs=%s%s' % (s['alg'], s['expired'], s['revoked'], s['subj'], s['sigs'], ' identity-revoked' if s.get('uidrev') else '')
        ctx.violation(clause, key, {'event': e})
    return ctx.finish(level='model_checking',
                      rule='function level: all 2048 issue values and result objects of 1..3 entries over 20 representative issue sets; end to end: '
                           'scenarios enumerated by TLC (Gen_Verdict) built with real keys; distinct = distinct scenario / value',
                      exhaustive=not ctx.quick)


def replay(ctx, rep):
    e = rep['detail']['event']
    if e['k'] == 'e2e':
        ev = e2e_events(ctx, [(e['scenario'], e.get('predicted', []))])
    else:
        ev = [x for x in function_events(ctx) if x['k'] == e['k'] and x.get('bits') == e.get('bits') and x.get('entries') == e.get('entries')][:1]
    rej = ctx.judge('Trace_C17', ev)
    print('re-recorded %d event(s):' % len(ev), rej or 'accepted')
    return 1 if rej else 0
