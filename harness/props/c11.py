"""C11 - the cleartext signature framework preserves the text and the signature.

Spec: spec/Cleartext.tla (dash escaping, Frame / Unframe, CanonCleartext per RFC 4880 7.1), spec/SigHash.tla.
  MC_Cleartext   for ALL texts of length <= 4 (quick) / 6 (thorough) over {'-',' ',TAB,'a',LF,'F'}: unescape(escape(t)) = t,
                 Unframe(Frame(t)) recovers the lines, every framed line escaped, embedded armor lines harmless
  Trace_C11      'frame'   str(message) parsed by TLC's own reader: text lines, escaping, Hash: header, signature block
                 'reread'  PGPy reads its own output back (as written and after a CRLF transport): same text, same
                           number of signatures, verifies
                 'canon'   the octets PGPy signs = CanonCleartext(text) || trailer
                 'foreign' messages made by the independent cleartext signer (frame and signed octets validated by TLC)
                           must be read to the same text and verify
"""
import hashlib
import itertools
import struct
import warnings

from .. import build, keys as K
from ..common import MachineryError, codepoints, import_pgpy, octets

ALPHA = '- \ta\nF'


def texts(ctx):
    out = []
    n = 3 if ctx.quick else 4
    for ln in range(0, n + 1):
        for tup in itertools.product(ALPHA, repeat=ln):
            out.append(''.join(tup))
    extra = ['-----BEGIN PGP SIGNATURE-----', 'a\n-----BEGIN PGP SIGNATURE-----\nb', '-----BEGIN PGP SIGNED MESSAGE-----\nHash: SHA1\n\nx',
             '- already escaped', '-- two', 'From me\nFrom you', 'trailing space \nand tab\t\nend ', 'x' * 10000, ('line\n' * 400),
             'crlf\r\nlines\r\n', 'no final newline', 'final newline\n', 'two final newlines\n\n', '\n\n\n', ' ', '\t',
             'a\n\n\nb', '-', '- ', '-\n-', 'Hash: SHA256', '=abcd', '-----END PGP SIGNATURE-----',
             'Hash: SHA512\n\nbody after a header-looking first line', 'Hash: SHA1\n\nHash: MD5\n\nx', 'Hash: SHA256\n', '\nHash: SHA256\n\ny',
             'Comment: not a header\n\ntext', 'Hash: SHA256,SHA1\n\n-dash',
             # mixed line endings in one text (each ending is canonicalised on its own)
             'one\r\ntwo\nthree', 'x\ny\r\nz\n', 'a\n\r\nb\n\n\r\n', '- d\r\n-e\nf \r\ng\t\n']
    out += extra
    for _ in range(30 if ctx.quick else 600):
        ln = ctx.rng.randrange(5, 60)
        out.append(''.join(ctx.rng.choice(ALPHA + 'bc-\n ') for _ in range(ln)))
    return out


# characters Python calls whitespace but RFC 4880 7.1 does not strip (only SP and TAB are removed at line ends)
OTHER_SPACE = ['page one\x0c\npage two\x0c', 'vt\x0b\nx', 'fs\x1c\ngs\x1d\nrs\x1e\nus\x1f\n', 'nbsp\xa0\nline', 'ideographic\u3000\nend\u3000', 'nel\x85\nx',
               'mixed \x0c \t\nx', '\x0c',
               # ... and which are NOT line ends for the dash-escaping rule either (only LF / CR LF are): a dash right after one of them is
               # in the middle of a line
               'page\x0c- item\n\x0c--- 3 ---', 'x\u2028-y\n-z', 'a\x0b-b', 'c\x1c-d\x1d-e\x1e-f', 'g\x85-h', 'i\u2029-j']
NONASCII = ['café au lait', 'naïve — text\nsecond lïne', 'emoji \U0001F600 non-BMP', 'Grüße\n- dashed ü', 'кириллица']
LONE_CR = ['lone\rcr', 'a\r\rb\n', '\r']


def run(ctx):
    pgpy = import_pgpy()
    from pgpy.constants import HashAlgorithm
    ctx.assumptions += ['TLC/SANY', 'JSON marshalling (text as code points)', 'hashlib / cryptography primitives for the independent signer',
                        'lone CR handling is compared only for the self round trip (RFC 4880 is silent)']
    warnings.simplefilter('ignore')
    ctx.model('MC_Cleartext', 'MC_Cleartext_quick' if ctx.quick else 'MC_Cleartext_thorough')
    k1 = K.new_key('ed25519', name='Clear One', email='c1@x.org')
    k2 = K.new_key('rsa2048', name='Clear Two', email='c2@x.org')
    k3 = K.new_key('p256', name='Clear Three', email='c3@x.org')
    pubs = [pgpy.PGPKey.from_blob(bytes(k.pubkey))[0] for k in (k1, k2, k3)]
    hashes = [HashAlgorithm.SHA256, HashAlgorithm.SHA512, HashAlgorithm.SHA1, HashAlgorithm.SHA384, HashAlgorithm.SHA224, HashAlgorithm.MD5]
    ev = []
    allt = [(t, 'ascii') for t in texts(ctx)] + [(t, 'nonascii') for t in NONASCII + OTHER_SPACE] + [(t, 'lonecr') for t in LONE_CR]
    for n, (text, cls) in enumerate(allt):
        signers = [(k1, hashes[n % len(hashes)])]
        if n % 7 == 3:
            signers.append((k2, hashes[(n + 1) % len(hashes)]))
        if n % 21 == 3:
            signers.append((k3, HashAlgorithm.SHA256))
        try:
            m = pgpy.PGPMessage.new(text, cleartext=True)
            for j, (k, h) in enumerate(signers):
                m |= k.sign(m, hash=h, created=K.ts(K.T0 + 100 + j))
            framed = str(m)
            sigbin = bytes(m)
        except Exception as ex:
            ev.append({'k': 'reread', 'text': codepoints(text), 'raised': True, 'variant': 'lf', 'reread': [], 'verdict': 'raised', 'nsigs': 0,
                       'expected_nsigs': len(signers), 'cls': cls, 'stage': 'sign/str: ' + repr(ex)[:80]})
            continue
        ev.append({'k': 'frame', 'text': codepoints(text), 'framed': codepoints(framed), 'hashes': [codepoints(h.name) for _, h in signers],
                   'sigbin': octets(sigbin), 'cls': cls})
        for variant, data in (('lf', framed), ('crlf', framed.replace('\r\n', '\n').replace('\n', '\r\n')), ('lf', framed.encode('utf-8'))):
            if variant == 'crlf' and (cls == 'lonecr' or '\r' in text):
                continue
            if isinstance(data, bytes) and cls == 'ascii' and n % 5:
                continue                                   # the message as octets (UTF-8), as read from a file
            try:
                m2 = pgpy.PGPMessage.from_blob(data)
                verdicts = [bool(p.verify(m2)) for p, (k, h) in zip(pubs, [(k1, 0), (k2, 0), (k3, 0)]) if k.fingerprint.keyid in m2.signers]
                ev.append({'k': 'reread', 'text': codepoints(text), 'raised': False, 'variant': variant, 'reread': codepoints(m2.message),
                           'verdict': 'truthy' if verdicts and all(verdicts) else 'falsy', 'nsigs': len(m2.signatures), 'expected_nsigs': len(signers), 'cls': cls})
            except Exception as ex:
                ev.append({'k': 'reread', 'text': codepoints(text), 'raised': True, 'variant': variant, 'reread': [], 'verdict': 'raised', 'nsigs': 0,
                           'expected_nsigs': len(signers), 'cls': cls, 'stage': repr(ex)[:80]})
        if cls != 'lonecr' and '\r' not in text.replace('\r\n', ''):
            s = m.signatures[0]
            tb = text.encode('utf-8')
            # what did PGPy sign? Decided by the independent verifier: the harness proposes the RFC 4880 7.1 octets (validated by TLC against
            # CanonCleartext and the trailer of the signature as written) and the primitive says whether the signature is over their digest
            body = build.read_packets(bytes(s))[0][1]
            f = build.read_sig_body(body)
            canon_ = b'\r\n'.join(l.rstrip(' \t').encode('utf-8') for l in text.replace('\r\n', '\n').split('\n'))
            claimed = canon_ + bytes(f['region']) + b'\x04\xff' + struct.pack('>I', len(f['region']))
            hname = {1: 'md5', 2: 'sha1', 3: 'ripemd160', 8: 'sha256', 9: 'sha384', 10: 'sha512', 11: 'sha224'}[f['h']]
            kbody = next(b for t_, b, r_ in build.read_packets(bytes(signers[0][0].pubkey)) if t_ == 6)
            try:
                digest = hashlib.new(hname, claimed).digest()
                prim = bool(build.verify_digest(f['pk'], kbody[6:], digest, hname, f['ints'])) and digest[:2] == bytes(f['left16'])
            except Exception:
                prim = False
            ev.append({'k': 'canon', 'text': octets(tb), 'claimed_input': octets(claimed), 'primitive_ok': prim, 'sig': octets(bytes(s)), 'cls': cls,
                       'trailing_blank': any(l.rstrip(' \t') != l for l in text.replace('\r\n', '\n').split('\n'))})
    # ---- independent cleartext signer
    fk = build.ForeignKey('ed25519')
    fblob = build.transferable_key(fk, [b'Foreign Clear <fc@example.org>'])
    fpub = pgpy.PGPKey.from_blob(fblob)[0]
    ftexts = [t for t, c in allt if c == 'ascii'][:: (40 if ctx.quick else 6)] + ['trailing space \nand tab\t\nend ', '-dash\n- x', 'a\r\nb', 'x\n', '']
    for n, text in enumerate(ftexts):
        if '\r' in text.replace('\r\n', ''):
            continue
        tb = text.encode('utf-8')
        lines = text.replace('\r\n', '\n').split('\n')
        canon = b'\r\n'.join(l.rstrip(' \t').encode('utf-8') for l in lines)
        hname = ['sha256', 'sha512', 'sha1'][n % 3]
        pkt, hin = build.sig_packet(fk, 0x01, hname, [], [], canon, created=1262310000 + n)
        armor = armor_block('SIGNATURE', pkt)
        eol = '\r\n' if n % 5 == 4 else '\n'
        esc = eol.join(('- ' + l) if l.startswith('-') else l for l in lines)
        # the Hash armor header(s) as other implementations may write them (RFC 4880 section 7: one OR MORE Hash headers, each a
        # comma-separated list)
        hdr = ['Hash: ' + hname.upper(), 'Hash: ' + hname.upper() + eol + 'Hash: MD5', 'Hash: RIPEMD160,' + hname.upper(), 'Hash: ' + hname.upper()][n % 4]
        framed = '-----BEGIN PGP SIGNED MESSAGE-----' + eol + hdr + eol + eol + esc + eol + armor.replace('\n', eol)
        if n % 8 == 7:
            # no Hash header at all: MD5 is implied (RFC 4880 section 7) - sign with MD5 and frame without the header
            hname = 'md5'
            pkt, hin = build.sig_packet(fk, 0x01, hname, [], [], canon, created=1262310000 + n)
            armor = armor_block('SIGNATURE', pkt)
            framed = '-----BEGIN PGP SIGNED MESSAGE-----' + eol + eol + esc + eol + armor.replace('\n', eol)
        e = {'k': 'foreign', 'text': codepoints(text), 'framed': codepoints(framed), 'sig': octets(pkt), 'signed_over': octets(hin), 'cls': 'foreign',
             'eol': ('crlf' if eol == '\r\n' else 'lf') + (['', ' two-hash-lines', ' hash-list', ''][n % 4] if n % 8 != 7 else ' no-hash-header-md5'), 'trailing_blank': any(l.rstrip(' \t') != l for l in lines)}
        try:
            m2 = pgpy.PGPMessage.from_blob(framed)
            e.update({'raised': False, 'reread': codepoints(m2.message), 'verdict': 'truthy' if fpub.verify(m2) else 'falsy'})
        except Exception as ex:
            e.update({'raised': True, 'reread': [], 'verdict': 'raised', 'stage': repr(ex)[:80]})
        ev.append(e)
    for e in ev:
        ctx.case((e['k'], e.get('variant', ''), bytes(str(e['text']), 'ascii')[:200]))
    for j in (3, len(ev) // 3, len(ev) // 2, len(ev) - 2):
        ctx.sample({k: (v if not isinstance(v, list) or len(v) < 80 else v[:80] + ['...']) for k, v in ev[j].items()})
    rej = ctx.judge('Trace_C11', ev, chunk=1500)
    ctx.traces += len(ev) - len(rej)
    bad = {i for i, _ in rej}
    good = [e for i, e in enumerate(ev) if i not in bad and len(e['text']) < 200]

    def c_unescaped(e):
        if e['k'] != 'frame':
            return None
        f = e['framed']
        for j in range(len(f) - 3):
            if f[j] == 10 and f[j + 1] == 45 and f[j + 2] == 32 and f[j + 3] == 45:
                e['framed'] = f[:j + 1] + f[j + 3:]
                return e
        return None
    ctx.selftest(lambda b: ctx.judge('Trace_C11', b), good,
                 [('a dash line left unescaped', c_unescaped), ('re-read text differs', lambda e: dict(e, reread=e['reread'] + [120]) if e['k'] == 'reread' and not e['raised'] else None),
                  ('verification falsy', lambda e: dict(e, verdict='falsy') if e['k'] == 'reread' and not e['raised'] else None),
                  ('signature is not over the RFC octets', lambda e: dict(e, primitive_ok=False) if e['k'] == 'canon' else None),
                  ('Hash header misses a hash', lambda e: dict(e, hashes=e['hashes'] + [[88]]) if e['k'] == 'frame' else None)], 'C11')
    ctx.extra['events_by_kind'] = {k: sum(1 for e in ev if e['k'] == k) for k in ('frame', 'reread', 'canon', 'foreign')}
    for idx, clause in rej:
        e = ev[idx]
        if clause.startswith('harness.'):
            raise MachineryError('TLC rejected harness-built cleartext material: %s %r' % (clause, ''.join(chr(c) for c in e['text'])[:80]))
        key = '%s %s %s%s' % (e['k'], e.get('variant', e.get('eol', '')), e['cls'], ' (text with trailing blanks)' if e.get('trailing_blank') else '')
        ctx.violation(clause, key, {'text': ''.join(chr(c) for c in e['text']) if e['k'] != 'canon' else bytes(e['text']).decode('utf-8', 'replace'),
                                    'event': {k: v for k, v in e.items() if k in ('k', 'variant', 'verdict', 'raised', 'cls', 'stage', 'eol')}})
    return ctx.finish(level='model_checking',
                      rule='all texts of length <= 3 (quick) / 4 (thorough) over the alphabet {-, SP, TAB, a, LF, F} plus adversarial and random texts, '
                           'non-ASCII and lone-CR texts; 1-3 signers, 6 hashes; each text gives frame / reread(lf, crlf) / canon events; the independent '
                           'signer covers a spread of the same texts with LF and CRLF framing',
                      exhaustive=False)


def armor_block(label, payload):
    import base64
    b = base64.b64encode(payload).decode()
    crc = 0xB704CE
    for x in payload:
        crc ^= x << 16
        for _ in range(8):
            crc <<= 1
            if crc & 0x1000000:
                crc ^= 0x1864CFB
    crc &= 0xFFFFFF
    lines = [b[i:i + 64] for i in range(0, len(b), 64)]
    return '-----BEGIN PGP %s-----\n\n%s\n=%s\n-----END PGP %s-----\n' % (label, '\n'.join(lines), base64.b64encode(crc.to_bytes(3, 'big')).decode(), label)


def replay(ctx, rep):
    print(rep['detail'])
    return 0
