"""C20 - messages are well-formed OpenPGP compositions and keep content and metadata.

Spec: spec/Message.tla (section 11.3 grammar, one-pass nesting and "last" flag, literal fields), models/MC_Message
(the recogniser equals an independently written description of the language for all tag sequences up to length 5),
models/Gen_Message (composition histories), models/Trace_C20.
  'export'  bytes(message) split and recognised by TLC: grammar, compression wraps the whole signed sequence (the harness
            only inflates), exactly one literal, OPS count / order / fields match the trailing signatures, only the last OPS
            flagged, literal content / file name / time / format as given, signature multiset
  'import'  the export (binary or armored; also foreign encodings: old-format, partial lengths, GnuPG fixtures) read back:
            same content, file name, time, format, compression, signature multiset; after encrypt + decrypt too
"""
import bz2
import calendar
import glob
import hashlib
import struct
import warnings
import zlib

from .. import build, keys as K
from ..common import MachineryError, import_pgpy, octets

PW = 'message passphrase'


def content_of(cls, rng, big):
    if cls == 'empty':
        return b'', None
    if cls == 'ascii':
        return b'plain ascii content\nsecond line\n', None
    if cls == 'utf8':
        return 'Grüße — ünïcode ✓ \U0001F600\nzweite Zeile\n', None
    if cls == 'latin1-hint':
        return 'caf\xe9 cr\xe8me br\xfbl\xe9e\n'.encode('latin-1'), 'latin-1'
    if cls == 'binary':
        return bytes(range(256)) + b'\x00\xff\r\n\r\x1a', None
    if cls == 'armorinside':
        # content that quotes an armored OpenPGP block (and a cleartext signed one) after other text, plus octets outside ASCII
        return ('forwarded \u2014 see below:\n-----BEGIN PGP MESSAGE-----\n\nyxJiAAAAAABxdW90ZWQ=\n=1gKx\n-----END PGP MESSAGE-----\n'
                '-----BEGIN PGP SIGNED MESSAGE-----\nHash: SHA256\n\nquoted note\n-----BEGIN PGP SIGNATURE-----\n\nwnUEARYIAB0=\n=abcd\n-----END PGP SIGNATURE-----\n'), None
    if cls == 'bom':
        return '\ufeffa byte-order mark is a character like any other\n\ufeffsecond line\n', None
    if cls == 'farcopy':
        return bytes(rng.randrange(256) for _ in range(12000)) * 2, None
    return bytes(rng.randrange(256) for _ in range(4096)) * (big // 4096), None


def inflate(alg, data):
    if alg == 1:
        return zlib.decompress(data, -15)
    if alg == 2:
        return zlib.decompress(data)
    if alg == 3:
        return bz2.decompress(data)
    return data


def project(msg):
    lit = msg._message
    m = msg.message
    if isinstance(m, str):
        # PGPy hands out text for formats 't' / 'u'; the content OCTETS are the literal's (the text itself is judged by the text events)
        m = bytes(lit._contents)
    return {'content_sha': hashlib.sha256(bytes(m)).hexdigest(), 'content_len': len(m), 'filename': octets(msg.filename.encode('utf-8', 'surrogateescape')),
            'time': calendar.timegm(lit.mtime.utctimetuple()), 'format': lit.format, 'compression': int(msg._compression),
            'sigs': sorted(hashlib.sha256(bytes(s)).hexdigest() for s in msg.signatures), 'sensitive': bool(msg.is_sensitive)}


def run(ctx):
    pgpy = import_pgpy()
    from pgpy.constants import CompressionAlgorithm, SymmetricKeyAlgorithm, KeyFlags
    ctx.assumptions += ['TLC/SANY', 'JSON marshalling', 'zlib / bz2 as primitives (the harness only inflates; scope and content are judged by TLC)',
                        'content equality of texts is under the message\'s declared character set']
    warnings.simplefilter('ignore')
    ctx.model('MC_Message')
    g = ctx.model('Gen_Message')
    scen = [p[1] for p in g.prints if isinstance(p, list) and p and p[0] == 'SCN']
    if len(scen) < 300:
        raise MachineryError('Gen_Message produced %d scenarios' % len(scen))
    if ctx.quick:
        scen = [s for j, s in enumerate(scen) if j % 2 == 0 or len(s['signers']) >= 2]
    keyset = {'k1': K.new_key('ed25519', name='Signer One', email='s1@x.org', subs=[('cv25519', {KeyFlags.EncryptCommunications})]),
              'k2': K.new_key('rsa2048', name='Signer Two', email='s2@x.org'), 'k3': K.new_key('p256', name='Signer Three', email='s3@x.org')}
    ev = []
    big = (1 << 16) if ctx.quick else (4 << 20)
    for n, sc in enumerate(scen):
        content, enc_hint = content_of(sc['content'], ctx.rng, big)
        kw = {'compression': CompressionAlgorithm(sc['comp'])}
        if sc['format'] != 'auto':
            kw['format'] = sc['format']
        if enc_hint:
            kw['encoding'] = enc_hint
        if sc['name'] == 'console':
            kw['sensitive'] = True
        label = '%s' % {k: v for k, v in sc.items()}
        try:
            callerbuf = None
            if isinstance(content, bytes) and n % 3 == 0:
                # the message is built from a bytearray the caller goes on using (overwritten and shrunk below, after signing)
                callerbuf = bytearray(content)
            msg = pgpy.PGPMessage.new(callerbuf if callerbuf is not None else content, **kw)
            if sc['name'] == 'nonascii':
                msg._message.filename = 'dätei-✓.txt'
                msg._message.update_hlen()
            elif sc['name'] == 'long255':
                msg._message.filename = 'f' * 255
                msg._message.update_hlen()
            msg._message.mtime = [0, 1, 2 ** 31 - 1, 1262304000, 2 ** 32 - 1][n % 5]
            msg._message.update_hlen()
            sigs_made = []
            # the export is a function of the message's current state, not of earlier exports: on every other scenario the message
            # is written out (binary and armored) before each signature is attached (draft -> signed -> counter-signed)
            early = n % 2 == 1
            if early:
                bytes(msg), str(msg)
            if sc['when'] == 'sign-then-encrypt':
                for j, kid in enumerate(sc['signers']):
                    s = keyset[kid].sign(msg, created=K.ts(K.T0 + 7000 + (0 if sc['sametick'] else j)))
                    msg |= s
                    sigs_made.append(s)
                    if early:
                        bytes(msg), str(msg)
            if callerbuf is not None:
                callerbuf[:] = b'the caller has re-used its buffer'
            blob = bytes(msg)
        except Exception as ex:
            ev.append({'k': 'import', 'label': label, 'raised': True, 'before': {}, 'after': {}, 'clause': 'C20.import', 'exc': 'construct: ' + repr(ex)[:100]})
            continue
        lit = msg._message
        cbytes = bytes(lit._contents)
        exp = {'content': octets(cbytes) if len(cbytes) <= 70000 else octets(cbytes[:64]), 'content_len': len(cbytes),
               'filename': octets(bytes(lit.__bytearray__()[len(lit.header) + 2:len(lit.header) + 2 + lit.__bytearray__()[len(lit.header) + 1]])),
               'time': octets(struct.pack('>I', calendar.timegm(lit.mtime.utctimetuple()))), 'format': ord(lit.format), 'comp': int(sc['comp']), 'nsig': len(sigs_made),
               'sigs': [octets(build.read_packets(bytes(s))[0][1]) for s in sigs_made], 'encrypted': False}
        inner = b''
        pk = build.read_packets(blob)
        if len(pk) == 1 and pk[0][0] == 8:
            try:
                inner = inflate(pk[0][1][0], pk[0][1][1:])
            except Exception:
                inner = b''
        if len(cbytes) > 70000:
            # large bodies: TLC sees the packet structure with the literal content cut down to its first 64 octets (the full content
            # is compared by digest in the import event)
            blob_t, inner_t = shrink(blob, inner)
        else:
            blob_t, inner_t = blob, inner
        ev.append({'k': 'export', 'label': label, 'blob': octets(blob_t), 'inner': octets(inner_t), 'expect': exp})
        # ---- import of the export (binary / armored)
        before = project(msg)
        # "the same content" is the content the message was built from, not what the message object says about itself
        if isinstance(content, str):
            before['content_sha'], before['content_len'] = hashlib.sha256(content.encode("utf-8")).hexdigest(), len(content.encode("utf-8"))
        elif enc_hint is None:
            before['content_sha'], before['content_len'] = hashlib.sha256(bytes(content)).hexdigest(), len(content)
        try:
            m2 = pgpy.PGPMessage.from_blob(str(msg) if sc['armor'] else blob)
            ev.append({'k': 'import', 'label': label, 'raised': False, 'before': before, 'after': project(m2), 'clause': 'C20.content' if before['content_sha'] != project(m2)['content_sha'] else 'C20.metadata'})
        except Exception as ex:
            ev.append({'k': 'import', 'label': label, 'raised': True, 'before': before, 'after': {}, 'clause': 'C20.import', 'exc': repr(ex)[:100]})
        # ---- encryption on top
        if sc['enc'] != 'none':
            try:
                if sc['enc'] == 'pw':
                    em = msg.encrypt(PW, cipher=SymmetricKeyAlgorithm.AES128)
                else:
                    em = keyset['k1'].pubkey.encrypt(msg, cipher=SymmetricKeyAlgorithm.AES128)
                if sc['when'] == 'encrypt-then-sign':
                    for j, kid in enumerate(sc['signers']):
                        em |= keyset[kid].sign(em, created=K.ts(K.T0 + 7100 + j))
                eblob = bytes(em)
                ev.append({'k': 'export', 'label': label + ' [encrypted]', 'blob': octets(eblob[:400000]), 'inner': [], 'expect': dict(exp, encrypted=True)})
                if n % 3 == 0 and len(eblob) < 400000:
                    # a copy of a message is a message: same export (the grammar clauses then hold for it as well)
                    import copy as _copy
                    ev.append({'k': 'export', 'label': label + ' [copy of the encrypted message]', 'blob': octets(bytes(_copy.copy(em))), 'inner': [],
                               'expect': dict(exp, encrypted=True)})
                    ev.append({'k': 'import', 'label': label + ' [copy of the plain message exports identically]', 'raised': False, 'before': {'same': True},
                               'after': {'same': bytes(_copy.copy(msg)) == bytes(msg)}, 'clause': 'C20.metadata'})
                em2 = pgpy.PGPMessage.from_blob(str(em) if sc['armor'] else eblob)
                dec = em2.decrypt(PW) if sc['enc'] == 'pw' else keyset['k1'].decrypt(em2)
                dblob = bytes(dec)
                dinner = b''
                dpk = build.read_packets(dblob)
                if len(dpk) == 1 and dpk[0][0] == 8:
                    dinner = inflate(dpk[0][1][0], dpk[0][1][1:])
                if len(cbytes) <= 70000 and sc['when'] == 'sign-then-encrypt':
                    ev.append({'k': 'export', 'label': label + ' [decrypted message exported again]', 'blob': octets(dblob), 'inner': octets(dinner), 'expect': exp})
                ev.append({'k': 'import', 'label': label + ' [decrypted]', 'raised': False, 'before': before, 'after': project(dec),
                           'clause': 'C20.sigs' if before['sigs'] != project(dec)['sigs'] else 'C20.content'})
                if sc['when'] == 'encrypt-then-sign':
                    ok = all(bool(keyset[kid].pubkey.verify(em2)) for kid in sc['signers'])
                    ev.append({'k': 'import', 'label': label + ' [signatures over the encrypted message verify]', 'raised': False, 'before': {'ok': True}, 'after': {'ok': ok}, 'clause': 'C20.sigs'})
            except Exception as ex:
                ev.append({'k': 'import', 'label': label + ' [encrypt/decrypt]', 'raised': True, 'before': before, 'after': {}, 'clause': 'C20.import', 'exc': repr(ex)[:100]})
    ev += foreign_imports(ctx, pgpy)
    for e in ev:
        ctx.case((e['k'], e['label']))
    for j in (0, len(ev) // 2, len(ev) - 1):
        ctx.sample({k: (v if k not in ('blob', 'inner', 'expect') else '<...>') for k, v in ev[j].items()})
    rej = ctx.judge('Trace_C20', ev, chunk=150)
    ctx.traces += len(ev) - len(rej)
    bad = {i for i, _ in rej}
    good = [e for i, e in enumerate(ev) if i not in bad and len(e.get('blob', [])) < 3000]

    def c_expect(field, val):
        def f(e):
            if e['k'] != 'export' or e['expect']['encrypted'] or e['expect']['content_len'] > 3000:
                return None
            e['expect'] = dict(e['expect'])
            e['expect'][field] = val(e['expect'][field])
            return e
        return f
    ctx.selftest(lambda b: ctx.judge('Trace_C20', b), good,
                 [('content differs', c_expect('content', lambda c: c + [1])), ('file name differs', c_expect('filename', lambda c: c + [120])),
                  ('one signature fewer than expected', c_expect('nsig', lambda n: n + 1)), ('compression differs', c_expect('comp', lambda c: 0 if c else 2)),
                  ('import projection differs', lambda e: dict(e, after=dict(e['after'], content_len=(e['after'].get('content_len') or 0) + 1)) if e['k'] == 'import' and not e['raised'] and 'content_len' in e.get('after', {}) else None)], 'C20')
    ctx.extra['events_by_kind'] = {k: sum(1 for e in ev if e['k'] == k) for k in ('export', 'import')}
    for idx, clause in rej:
        e = ev[idx]
        lab = e['label']
        nsig = lab.count("'k") if "'signers'" in lab else 0
        key = '%s signers=%d %s' % (e['k'], nsig, 'encrypted' if lab.endswith(']') else 'plain')
        if clause == 'C20.metadata' and ("'name': 'nonascii'" in lab or "'name': 'long255'" in lab):
            key = 'non-ASCII or very long file name'
        ctx.violation(clause, key, {'label': lab, 'before': e.get('before'), 'after': e.get('after'), 'exc': e.get('exc')})
    return ctx.finish(level='model_checking',
                      rule='composition histories from Gen_Message (content class, format, file name class, compression, 0-3 signers in any order at equal / different '
                           'times, passphrase / public-key encryption before or after signing, armor): every dimension pair against a base + multi-signer x '
                           'compression product; foreign encodings (old-format, partial lengths) and the repository\'s GnuPG-made messages are imported',
                      exhaustive=False)


def shrink(blob, inner):
    """cut the literal content of a big message down to 64 octets for TLC (structure preserved)."""
    def cut(b):
        out = b''
        for tag, body, raw in build.read_packets(b):
            if tag == 11:
                fl = body[1]
                out += build.pkt(11, body[:6 + fl + 64])
            else:
                out += raw
        return out
    if inner:
        # the compressed packet keeps its algorithm octet; its (huge) deflated data is cut down - TLC reads the structure inside from `inner`
        top = build.read_packets(blob)
        return build.pkt(8, bytes(top[0][1][:65])), cut(inner)
    return cut(blob), b''


def foreign_imports(ctx, pgpy):
    ev = []
    content = b'foreign message content \x00\xff'
    litbody = b'b' + b'\x05f.bin' + struct.pack('>I', 1262304000) + content
    variants = [('new format', build.pkt(11, litbody)), ('old format', build.pkt(11, litbody, fmt='old')), ('old format 4-octet length', build.pkt(11, litbody, fmt='old', form=2)),
                ('5-octet length', build.pkt(11, litbody, form=5)), ('partial lengths', build.pkt(11, litbody + bytes(600), chunks=[9])),
                ('compressed ZIP, old format', build.pkt(8, b'\x01' + zlib.compress(build.pkt(11, litbody), 9)[2:-4], fmt='old')),
                ('compressed ZLIB', build.pkt(8, b'\x02' + zlib.compress(build.pkt(11, litbody)))), ('compressed BZ2', build.pkt(8, b'\x03' + bz2.compress(build.pkt(11, litbody)))),
                ('marker packet first', build.pkt(10, b'PGP') + build.pkt(11, litbody))]
    for label, blob in variants:
        want = content + (bytes(600) if 'partial' in label else b'')
        before = {'content_sha': hashlib.sha256(want).hexdigest(), 'filename': octets(b'f.bin'), 'time': 1262304000, 'format': 'b'}
        try:
            m = pgpy.PGPMessage.from_blob(blob)
            p = project(m)
            after = {k: p[k] for k in before}
            ev.append({'k': 'import', 'label': 'foreign: ' + label, 'raised': False, 'before': before, 'after': after, 'clause': 'C20.content'})
            # and PGPy's re-export is again a valid message with the same content
            m2 = pgpy.PGPMessage.from_blob(bytes(m))
            ev.append({'k': 'import', 'label': 'foreign re-exported: ' + label, 'raised': False, 'before': before, 'after': {k: project(m2)[k] for k in before}, 'clause': 'C20.content'})
        except Exception as ex:
            ev.append({'k': 'import', 'label': 'foreign: ' + label, 'raised': True, 'before': before, 'after': {}, 'clause': 'C20.import', 'exc': repr(ex)[:100]})
    # ---- histories on imported messages: signed AFTER import, exported, imported again (whatever header the literal arrived with, what is
    #      written is a well-formed composition: the signature after the literal is found again)
    from .. import keys as K_
    sk_ = K_.new_key('ed25519', name='Import Signer', email='is@x.org')
    for label, blob in variants + [('old format, indeterminate length', build.pkt(11, litbody, fmt='old', form=3)),
                                   ('compressed, old format indeterminate length', build.pkt(8, b'\x02' + zlib.compress(build.pkt(11, litbody)), fmt='old', form=3)),
                                   # the literal INSIDE a compressed packet has the indeterminate length (every compression algorithm)
                                   ('ZLIB-compressed literal of indeterminate length', build.pkt(8, b'\x02' + zlib.compress(build.pkt(11, litbody, fmt='old', form=3)))),
                                   ('ZIP-compressed literal of indeterminate length', build.pkt(8, b'\x01' + zlib.compress(build.pkt(11, litbody, fmt='old', form=3), 9)[2:-4])),
                                   ('BZ2-compressed literal of indeterminate length', build.pkt(8, b'\x03' + bz2.compress(build.pkt(11, litbody, fmt='old', form=3))))]:
        want = content + (bytes(600) if 'partial' in label else b'')
        before = {'content_sha': hashlib.sha256(want).hexdigest(), 'filename': octets(b'f.bin'), 'time': 1262304000, 'format': 'b', 'nsigs': 1, 'verifies': True}
        try:
            m = pgpy.PGPMessage.from_blob(blob)
            m |= sk_.sign(m)
            m2 = pgpy.PGPMessage.from_blob(bytes(m))
            p = project(m2)
            after = {k: p[k] for k in ('content_sha', 'filename', 'time', 'format')}
            after['nsigs'] = len(m2.signatures)
            try:
                after['verifies'] = bool(sk_.pubkey.verify(m2))
            except Exception:
                after['verifies'] = False
            ev.append({'k': 'import', 'label': 'foreign, signed after import, exported and imported again: ' + label, 'raised': False, 'before': before, 'after': after, 'clause': 'C20.sigs'})
        except Exception as ex:
            ev.append({'k': 'import', 'label': 'foreign, signed after import, exported and imported again: ' + label, 'raised': True, 'before': before, 'after': {}, 'clause': 'C20.import', 'exc': repr(ex)[:100]})
    # ---- a one-pass signed message of another producer whose signature names its issuer by fingerprint only
    fk_ = build.ForeignKey('ed25519')
    fpub_ = pgpy.PGPKey.from_blob(build.transferable_key(fk_, [b'Foreign Signer <fs@example.org>']))[0]
    for label, kw in (('issuer key id', {}), ('issuer fingerprint only', dict(issuer_in='none', hashed=[build.subpacket(33, b'\x04' + fk_.fingerprint)])),
                      ('issuer fingerprint and key id', dict(hashed=[build.subpacket(33, b'\x04' + fk_.fingerprint)]))):
        hashed = kw.pop('hashed', [])
        sigp, _ = build.sig_packet(fk_, 0x00, 'sha256', hashed, [], build.subject_octets(0x00, doc=content), created=1262305000, **kw)
        blob = build.pkt(4, bytes([3, 0, 8, 22]) + fk_.keyid + b'\x01') + build.pkt(11, litbody) + sigp
        before = {'content_sha': hashlib.sha256(content).hexdigest(), 'nsigs': 1, 'signer': fk_.keyid.hex().upper(), 'verifies': True, 'reexport_same': True}
        try:
            m = pgpy.PGPMessage.from_blob(blob)
            after = {'content_sha': project(m)['content_sha'], 'nsigs': len(m.signatures), 'signer': sorted(m.signers)[0] if m.signers else '', 'verifies': bool(fpub_.verify(m)),
                     'reexport_same': bytes(m) == blob}
            ev.append({'k': 'import', 'label': 'foreign one-pass signed message, ' + label, 'raised': False, 'before': before, 'after': after, 'clause': 'C20.sigs'})
        except Exception as ex:
            ev.append({'k': 'import', 'label': 'foreign one-pass signed message, ' + label, 'raised': True, 'before': before, 'after': {}, 'clause': 'C20.import', 'exc': repr(ex)[:100]})
    # ---- text given as str comes back as the same str (formats 't' and 'u' and the default), directly and after export / import
    for text in ('plain ascii\n', 'h\xe9llo w\xf6rld\n', 'Gr\xfc\xdfe \u2014 \u2713 \U0001f600\n', '\ufeffa byte-order mark is a character like any other\n\ufeffsecond line\n',
                 'name;value\r\nmixed\rendings\n'):
        for fmt in (None, 't', 'u'):
            label = 'text %r format %s' % (text[:8], fmt)
            before = {'text': [ord(ch) for ch in text]}
            try:
                m = pgpy.PGPMessage.new(text, **({'format': fmt} if fmt else {}))
                for route, mm in (('as created', lambda: m), ('exported and imported', lambda: pgpy.PGPMessage.from_blob(bytes(m))), ('armored and imported', lambda: pgpy.PGPMessage.from_blob(str(m)))):
                    got = mm().message
                    got = got if isinstance(got, str) else bytes(got).decode('utf-8', 'replace')
                    ev.append({'k': 'import', 'label': label + ' ' + route, 'raised': False, 'before': before, 'after': {'text': [ord(ch) for ch in got]}, 'clause': 'C20.content'})
            except Exception as ex:
                ev.append({'k': 'import', 'label': label, 'raised': True, 'before': before, 'after': {}, 'clause': 'C20.import', 'exc': repr(ex)[:100]})
    for f in sorted(glob.glob('/repo/tests/testdata/messages/*.asc')):
        try:
            m = pgpy.PGPMessage.from_file(f)
            if m.is_encrypted or m.type == 'cleartext':
                continue
            m2 = pgpy.PGPMessage.from_blob(bytes(m))
            ev.append({'k': 'import', 'label': 'fixture: ' + f.split('/')[-1], 'raised': False, 'before': project(m), 'after': project(m2), 'clause': 'C20.content'})
        except Exception as ex:
            ctx.note('fixture %s not loadable: %s' % (f.split('/')[-1], repr(ex)[:80]))
    return ev


def replay(ctx, rep):
    print(rep['detail'])
    return 0
