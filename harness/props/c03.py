"""C03 - encryption round-trips and conforms to RFC 4880 / RFC 6637 in both directions.

Spec: spec/Encrypt.tla (PKESK / SKESK / SEIPD / MDC layouts, RFC 6637 KDF parameter block, session block, PKCS5 padding),
      models/Gen_Enc (scenario space), models/Trace_Enc (judgement).
  'rt'      PGPy encrypts, PGPy decrypts with each recipient: content, literal metadata, compression and signatures equal
  'dec'     PGPy encrypts to foreign keys / passphrases, the independent decryptor opens it; every primitive input / output it
            used is checked by TLC against the layouts (so the Python decryptor is not trusted), and the recovered packets equal
            the original message
  'foreign' the independent encryptor (its log validated by TLC in the same way) produces messages; PGPy must open them
"""
import os
import warnings
from cryptography.hazmat.primitives import serialization
import zlib
import bz2

from .. import build, enc, keys as K
from ..common import MachineryError, import_pgpy, octets

BODIES = {
    'empty': b'', 'ascii': b'The quick brown fox jumps over the lazy dog.\n' * 3, 'utf8': 'Grüße — ünïcode ✓ \U0001F600\n'.encode('utf-8') * 2,
    'binary': bytes(range(256)) * 2,
}
PW = {'pw': 'correct horse battery staple', 'pw2': 'pässwörd ✓'}


class World(object):
    """keys used by all scenarios of one run."""

    def __init__(self, ctx):
        pgpy = import_pgpy()
        from pgpy.constants import KeyFlags
        self.pgpy = pgpy
        self.ctx = ctx
        # foreign recipients (private halves known to the independent decryptor), imported into PGPy as public keys
        self.foreign = {}
        for kind, name in (('rsa2048', 'rsa'), ('cv25519', 'cv25519'), ('ecdh256', 'ecdh256'), ('ecdh384', 'ecdh384')):
            prim = build.ForeignKey('ed25519')
            rec = enc.Recipient(kind, created=prim.created + 7)
            blob = build.transferable_key(prim, [('Foreign %s <f@example.org>' % name).encode()], subkeys=[(rec, 0x0C)])
            with warnings.catch_warnings():
                warnings.simplefilter('ignore')
                pub = pgpy.PGPKey.from_blob(blob)[0]
            self.foreign[name] = (rec, pub, blob)
        # PGPy's own recipients
        self.own = {}
        for alg, name in (('rsa2048', 'rsa'), ('cv25519', 'cv25519'), ('ecdh256', 'ecdh256'), ('ecdh384', 'ecdh384'), ('rsa2047', 'rsa2047'), ('rsa2052', 'rsa2052')):
            k = K.new_key('ed25519', name='Own %s' % name, email='own@x.org', subs=[(alg, {KeyFlags.EncryptCommunications, KeyFlags.EncryptStorage})])
            self.own[name] = k
        self.signer = K.new_key('ed25519', name='Msg Signer', email='ms@x.org')
        self.large = os.urandom(1 << 16) * (2 if ctx.quick else 16)
        self.incompressible = os.urandom(5000 if ctx.quick else 1 << 18)

    def body(self, cls):
        if cls == 'large':
            return b'large text body line\n' * (3000 if self.ctx.quick else 50000)
        if cls == 'incompressible':
            return self.incompressible
        return BODIES[cls]


def project(msg):
    m = msg.message
    if isinstance(m, str):
        m = m.encode('utf-8')
    lit = msg._message
    import calendar
    return {'content_sha': _sha(bytes(m)), 'content_len': len(m), 'filename': octets(msg.filename.encode('utf-8', 'surrogateescape')),
            'format': lit.format if hasattr(lit, 'format') else '?',
            'mtime': calendar.timegm(lit.mtime.utctimetuple()) if hasattr(lit, 'mtime') else -1,
            'compression': int(msg._compression), 'sigs': sorted(_sha(bytes(s)) for s in msg.signatures)}


def _sha(b):
    import hashlib
    return hashlib.sha256(b).hexdigest()


def inner_projection(inner):
    """projection of the plaintext packets recovered by the independent decryptor (own tiny reader; the content is
    also compared octet-for-octet by TLC through e.inner = bytes(original))."""
    return _sha(inner)


def pgpy_encrypt(W, sc, msg, keyset, n=0):
    pgpy = W.pgpy
    from pgpy.constants import SymmetricKeyAlgorithm
    cipher = SymmetricKeyAlgorithm(sc['cipher'])
    sk = None
    if sc['supplied']:
        # caller-supplied session keys of every checksum class: random, all-zero (sum 0), low sum (< 256: one-octet checksum value),
        # sum exactly 255 / 256, all-0xFF (largest sum)
        klen = cipher.key_size // 8
        sk = [cipher.gen_key(), bytes(klen), bytes(range(klen))[:klen] if klen <= 22 else b'\x01' * klen, b'\xff' + bytes(klen - 1),
              b'\xff\x01' + bytes(klen - 2), b'\xff' * klen, cipher.gen_key()][n % 7]
    encm = msg
    first = True
    for r in sc['recips']:
        if r in PW:
            encm = encm.encrypt(PW[r], sessionkey=sk, cipher=cipher)
        else:
            pub = keyset[r]
            encm = pub.encrypt(encm, sessionkey=sk, cipher=cipher)
        first = False
    return encm, sk


def run(ctx):
    pgpy = import_pgpy()
    from pgpy.constants import CompressionAlgorithm, SymmetricKeyAlgorithm
    ctx.assumptions += ['TLC/SANY', 'JSON marshalling', 'cryptography / hashlib as primitives (CFB, RSA PKCS#1 v1.5, X25519/ECDH, AES key wrap, SHA-x)',
                        'S2K derivation of the independent side is the one validated by C12']
    warnings.simplefilter('ignore')
    ctx.model('MC_Encrypt')
    g = ctx.model('Gen_Enc')
    scen = [p[1] for p in g.prints if isinstance(p, list) and p and p[0] == 'SCN']
    if len(scen) < 300:
        raise MachineryError('Gen_Enc produced %d scenarios' % len(scen))
    if ctx.quick:
        scen = [s for j, s in enumerate(scen) if j % 4 == 0 or (s['cipher'] == 9 and s['comp'] == 1 and not s['armor'] and s['body'] == 'ascii')]
        scen = [s for s in scen if s['body'] not in ('large',) or s['cipher'] == 9]
    W = World(ctx)
    ev = []
    for n, sc in enumerate(scen):
        body = W.body(sc['body'])
        fname = ['', 'file.txt', '_CONSOLE', 'r\xe9sum\xe9-\u5c65\u6b74.txt'][n % 4]
        try:
            msg = pgpy.PGPMessage.new(body, compression=CompressionAlgorithm(sc['comp']), format='b' if sc['body'] in ('binary', 'incompressible') else None,
                                      sensitive=(fname == '_CONSOLE'))
            if fname not in ('', '_CONSOLE'):
                msg._message.filename = fname            # literal metadata travels inside the encrypted container
                msg._message.update_hlen()
            if sc['signed']:
                msg |= W.signer.sign(msg, created=K.ts(K.T0 + 10 + n))
            before = project(msg)
            plain = bytes(msg)
        except Exception as ex:
            ctx.note('message construction failed for %s: %s' % (sc, repr(ex)[:100]))
            continue
        # ---- (a) PGPy -> PGPy with own keys
        own_pubs = {r: pgpy.PGPKey.from_blob(bytes(W.own[r].pubkey))[0] for r in sc['recips'] if r not in PW}
        try:
            encm, _ = pgpy_encrypt(W, sc, msg, own_pubs, n)
            blob = bytes(encm) if not sc['armor'] else str(encm)
            for r in sc['recips']:
                rec = {'k': 'rt', 'scenario': sc, 'recipient': r, 'before': before}
                try:
                    em2 = pgpy.PGPMessage.from_blob(blob)
                    dec = em2.decrypt(PW[r]) if r in PW else W.own[r].decrypt(em2)
                    rec.update({'raised': False, 'after': project(dec)})
                except Exception as ex:
                    rec.update({'raised': True, 'after': {}, 'exc': repr(ex)[:120]})
                ev.append(rec)
        except Exception as ex:
            ev.append({'k': 'rt', 'scenario': sc, 'recipient': 'encrypt', 'before': before, 'raised': True, 'after': {}, 'exc': repr(ex)[:120]})
        # ---- (b) PGPy -> independent decryptor, with foreign recipients
        try:
            fpubs = {r: W.foreign[r][1] for r in sc['recips'] if r not in PW}
            encm, sk = pgpy_encrypt(W, sc, msg, fpubs, n + 3)
            fblob = bytes(encm)
        except Exception as ex:
            ev.append({'k': 'rt', 'scenario': sc, 'recipient': 'encrypt-to-foreign', 'before': before, 'raised': True, 'after': {}, 'exc': repr(ex)[:120]})
            continue
        for r in sc['recips']:
            e = {'k': 'dec', 'scenario': sc, 'recipient': r, 'blob': octets(fblob), 'inner': octets(plain)}
            try:
                if r in PW:
                    inner, log = enc.decrypt_message(fblob, passphrase=PW[r].encode('utf-8'))
                    rcs = [{'keyid': [], 'body': [], 'fpr': []}] * len(log['esk'])
                else:
                    rec = W.foreign[r][0]
                    inner, log = enc.decrypt_message(fblob, recipient=rec)
                    rcs = [{'keyid': octets(rec.keyid), 'body': octets(rec.pub_body), 'fpr': octets(rec.fingerprint)}] * len(log['esk'])
                e.update({'indep_raised': False, 'log': log, 'recipients': rcs})
                if bytes(inner) != plain:
                    e['inner_mismatch'] = True
            except Exception as ex:
                e.update({'indep_raised': True, 'log': {'esk': [], 'seipd': {}}, 'recipients': [], 'exc': repr(ex)[:120]})
            ev.append(e)
        if sk is not None and sc['supplied']:
            pass
    # ---- (c) independent encryptor -> PGPy
    fev = foreign_events(ctx, W)
    ev += fev
    for e in ev:
        ctx.case((e['k'], str(e.get('scenario', e.get('label'))), e.get('recipient', '')))
    for j in (0, len(ev) // 3, len(ev) // 2, len(ev) - 1):
        ctx.sample({k: (v if k not in ('blob', 'inner', 'log') else '<%d octets>' % len(v) if isinstance(v, list) else '<log>') for k, v in ev[j].items()})
    rej = ctx.judge('Trace_Enc', ev, chunk=120)
    ctx.traces += len(ev) - len(rej)
    bad = {i for i, _ in rej}
    good = [e for i, e in enumerate(ev) if i not in bad and len(e.get('blob', [])) < 4000]
    import copy as _copy

    def c_log(fn):
        def f(e):
            if e['k'] != 'dec' or e.get('indep_raised'):
                return None
            e = _copy.deepcopy(e)
            return fn(e)
        return f

    def kdf(e):
        l = e['log']['esk'][0]
        if l['kind'] != 'ecdh':
            return None
        l['param'][-1] ^= 1
        l['kdf_input'][-1] ^= 1
        return e

    def chk(e):
        l = e['log']['esk'][0]
        if l['kind'] != 'rsa':
            return None
        l['m'][-1] ^= 1
        return e

    def mdc(e):
        e['log']['seipd']['sha1_over_all_but_last_20'][0] ^= 1
        return e

    def inner(e):
        if not e['inner']:
            return None
        e['inner'][-1] ^= 1
        return e
    ctx.selftest(lambda b: ctx.judge('Trace_Enc', b), good,
                 [('KDF parameter block differs (recipient fingerprint)', c_log(kdf)), ('session-key checksum wrong', c_log(chk)), ('MDC over another range', c_log(mdc)),
                  ('recovered packets differ from the original', c_log(inner)),
                  ('PGPy round trip changed the file name', lambda e: dict(e, after=dict(e['after'], filename=e['after']['filename'] + [1])) if e['k'] == 'rt' and not e['raised'] else None)], 'C03')
    ctx.extra['events_by_kind'] = {k: sum(1 for e in ev if e['k'] == k) for k in ('rt', 'dec', 'foreign')}
    ctx.extra['scenarios'] = len(scen)
    for idx, clause in rej:
        e = ev[idx]
        if e['k'] == 'foreign' and (clause.startswith('C03.layout') or clause.startswith('C03.indep-plaintext') or clause.startswith('harness')):
            raise MachineryError('TLC rejected the independent encryptor\'s own message (%s): %s' % (clause, e.get('label')))
        if clause.startswith('harness'):
            raise MachineryError('harness clause %s on %s' % (clause, e.get('scenario')))
        sc = e.get('scenario', {})
        key = '%s recipient=%s cipher=%s' % (e['k'], e.get('recipient', e.get('label', '')), sc.get('cipher', '')) if e['k'] != 'foreign' else 'foreign %s' % e['label']
        ctx.violation(clause, key, {'scenario': sc, 'event': {k: v for k, v in e.items() if k not in ('blob', 'inner', 'log', 'recipients')}})
    # whole-session walks of spec/Session.tla (protection scopes x signatures x encryption x keyring), this property's clause family
    from .. import session as _session
    for _b, _step, _clause, _detail in _session.generate(ctx, 'C03.session')[0]:
        ctx.violation(_clause, 'session: %s at %s' % (_detail, _b[_step - 1][0]), {'behaviour': [list(x) for x in _b[:_step]]})
    return ctx.finish(level='model_checking',
                      rule='scenarios from Gen_Enc (9 ciphers x 9 recipient multisets full product; every body / compression / signed / supplied-key / armor '
                           'value against a base; extra pairs), each run PGPy->PGPy per recipient, PGPy->independent decryptor per recipient, and the '
                           'independent encryptor -> PGPy over ciphers x recipient kinds x foreign encodings; distinct = distinct (direction, scenario, recipient)',
                      exhaustive=False)


def pubparams(W, name):
    """public parameters of one of PGPy's own recipients, read from its exported public key (claim, rechecked by TLC through rc.body)."""
    k = W.own[name]
    blob = bytes(k.pubkey)
    sub = [b for t, b, r in build.read_packets(blob) if t == 14][0]
    import hashlib
    import struct
    fpr = hashlib.sha1(b'\x99' + struct.pack('>H', len(sub)) + sub).digest()
    if sub[5] == 1:
        n, p = enc.mpi_at(sub, 6)
        e, p = enc.mpi_at(sub, p)
        return {'kind': 'rsa', 'keyid': fpr[-8:], 'n': int.from_bytes(n, 'big'), 'e': int.from_bytes(e, 'big')}, sub, fpr
    ol = sub[6]
    oid = bytes(sub[7:7 + ol])
    pt, p = enc.mpi_at(sub, 7 + ol)
    curve = next(kk for kk, v in build.OID.items() if v == oid)
    return {'kind': 'ecdh', 'keyid': fpr[-8:], 'oid': oid, 'curve': curve, 'point': pt, 'kdf': (sub[p + 2], sub[p + 3]), 'fpr': fpr}, sub, fpr


def foreign_events(ctx, W):
    pgpy = W.pgpy
    ev = []
    inner_msgs = []
    lit = build.pkt(11, b'b' + b'\x08file.bin' + b'\x00\x00\x00\x01' + b'foreign literal content \x00\xff')
    inner_msgs.append(('literal', lit, b'foreign literal content \x00\xff'))
    inner_msgs.append(('literal old-format header', build.pkt(11, b't\x00' + b'\x00\x00\x00\x00' + b'text', fmt='old'), b'text'))
    comp = zlib.compressobj(9, zlib.DEFLATED, -15)
    z = comp.compress(lit) + comp.flush()
    inner_msgs.append(('ZIP-compressed literal', build.pkt(8, b'\x01' + z), b'foreign literal content \x00\xff'))
    inner_msgs.append(('ZLIB-compressed literal', build.pkt(8, b'\x02' + zlib.compress(lit)), b'foreign literal content \x00\xff'))
    inner_msgs.append(('BZ2-compressed literal', build.pkt(8, b'\x03' + bz2.compress(lit)), b'foreign literal content \x00\xff'))
    big = build.pkt(11, b'b\x00' + b'\x00\x00\x00\x02' + bytes(range(256)) * 8, chunks=[9, 8])
    inner_msgs.append(('literal with partial body lengths', big, bytes(range(256)) * 8))
    # the last packet inside the container with an old-format header of INDETERMINATE length (length type 3): it extends to the end of the
    # plaintext proper, i.e. up to the MDC packet (which is not part of the message)
    inner_msgs.append(('literal of indeterminate length', build.pkt(11, b'b\x00' + b'\x00\x00\x00\x03' + b'runs to the end', fmt='old', form=3), b'runs to the end'))
    inner_msgs.append(('ZIP-compressed literal of indeterminate length', build.pkt(8, b'\x01' + z, fmt='old', form=3), b'foreign literal content \x00\xff'))
    ciphers = [9, 7, 2, 3, 4, 8, 11, 12, 13]
    # RSA recipients whose modulus is not a whole number of octets long (2047, 2052 bits): the integer in the session-key packet is left-padded
    # to the length of the modulus in OCTETS
    rkinds = ['rsa', 'cv25519', 'ecdh256', 'ecdh384', 'rsa2047', 'rsa2052']
    n = 0
    for ci, alg in enumerate(ciphers):
        for ri, rk in enumerate(rkinds + ['pw', 'pw-simple', 'pw-salted', 'pw-nosession', 'multi']):
            if ctx.quick and (ci + ri) % 3 != 0 and alg != 9 and not (alg in (7, 8) and rk in ('cv25519', 'ecdh256')):
                continue
            if rk in ('rsa2047', 'rsa2052') and alg not in (9, 7, 3):
                continue
            label, inner, content = inner_msgs[n % len(inner_msgs)]
            n += 1
            kw = {}
            recips, pws, rcs = [], [], []
            if rk in rkinds:
                prm, body, fpr = pubparams(W, rk)
                recips = [prm]
                rcs = [{'keyid': octets(prm['keyid']), 'body': octets(body), 'fpr': octets(fpr)}]
            elif rk == 'multi':
                for x in ('cv25519', 'rsa'):
                    prm, body, fpr = pubparams(W, x)
                    recips.append(prm)
                    rcs.append({'keyid': octets(prm['keyid']), 'body': octets(body), 'fpr': octets(fpr)})
                pws = [PW['pw2'].encode('utf-8')]
                rcs.append({'keyid': [], 'body': [], 'fpr': []})
            else:
                pws = [PW['pw'].encode('utf-8')]
                rcs = [{'keyid': [], 'body': [], 'fpr': []}]
                if rk == 'pw-simple':
                    kw['s2k'] = (0, 8, 0)
                elif rk == 'pw-salted':
                    kw['s2k'] = (1, 2, 0)
                elif rk == 'pw-nosession':
                    kw['esk_plain_session'] = True
                    kw['s2k'] = (3, 10, 16)
                else:
                    kw['s2k'] = (3, [8, 2, 10, 9, 11, 1][ci % 6], [0, 96, 16][ri % 3])
                    if rk == 'pw' and n % 2 == 0:
                        # gpg --s2k-cipher-algo X --cipher-algo Y: the SKESK cipher (with another key size) wraps the key of the data cipher
                        kw['skesk_alg'] = {9: 7, 7: 9, 8: 3, 3: 9, 2: 7, 11: 13, 12: 7, 13: 2, 4: 9}.get(alg, 9 if alg != 9 else 7)
            zl = (rk in ('cv25519', 'ecdh256', 'ecdh384') and alg in (9, 7)) or (rk == 'rsa' and alg in (9, 8, 3)) or rk in ('rsa2047', 'rsa2052')
            p40 = rk in ('cv25519', 'ecdh256', 'ecdh384') and alg in (8, 11, 7)
            blob, log = enc.encrypt_message(inner, alg, recipients=recips, passphrases=pws, fmt='old' if n % 5 == 0 else 'new', partial=(n % 4 == 0), zero_lead_shared=zl, pad40=p40, **kw)
            e = {'k': 'foreign', 'label': 'cipher=%d to=%s inner=%s%s%s' % (alg, rk, label, (' (RSA integer with a leading zero octet)' if rk.startswith('rsa') else ' (shared secret with a leading zero octet)') if zl else '', ' (session block padded to 40 octets)' if p40 else ''), 'blob': octets(blob), 'log': log, 'recipients': rcs, 'inner': octets(inner),
                 'expected': _sha(content)}
            try:
                m = pgpy.PGPMessage.from_blob(blob)
                if rk in rkinds:
                    dec = W.own[rk].decrypt(m)
                elif rk == 'multi':
                    dec = W.own['rsa'].decrypt(m)
                    dec2 = m.decrypt(PW['pw2'])
                    if bytes(dec2) != bytes(dec):
                        raise ValueError('different plaintext for different recipients')
                else:
                    dec = m.decrypt(PW['pw'])
                c = dec.message
                if isinstance(c, str):
                    c = bytes(dec._message._contents)          # the literal's octets, whatever text decoding .message applies to them
                e.update({'raised': False, 'after': _sha(bytes(c))})
            except Exception as ex:
                e.update({'raised': True, 'after': '', 'exc': repr(ex)[:120]})
            ev.append(e)
    # ---- directed classes, independent of the rotation above (which shifts whenever a class is added) -------------------------------------
    def directed(label, inner, content, alg, **kw):
        pw = PW['pw'].encode('utf-8')
        blob, log = enc.encrypt_message(inner, alg, passphrases=[pw], **kw)
        e = {'k': 'foreign', 'label': 'cipher=%d to=pw %s' % (alg, label), 'blob': octets(blob), 'log': log, 'recipients': [{'keyid': [], 'body': [], 'fpr': []}],
             'inner': octets(inner), 'expected': _sha(content)}
        try:
            dec = pgpy.PGPMessage.from_blob(blob).decrypt(PW['pw'])
            c = dec.message
            if isinstance(c, str):
                c = bytes(dec._message._contents)          # the literal's octets, whatever text decoding .message applies to them
            e.update({'raised': False, 'after': _sha(bytes(c))})
        except Exception as ex:
            e.update({'raised': True, 'after': '', 'exc': repr(ex)[:120]})
        ev.append(e)
    # (a) partial body lengths of the container with every class of FINAL length: 0, one octet (1, 191), two octets (192, 193, 8383), five octets (8384, 20000)
    for fl, size in ((0, 3000), (1, 3000), (191, 3000), (192, 3000), (193, 3000), (1000, 3000), (8383, 12000), (8384, 12000), (20000, 30000)):
        content = bytes((i * 11 + fl) % 256 for i in range(size))
        directed('inner=literal, container in partial lengths with a final length of %d' % fl, build.pkt(11, b'b\x00' + bytes(4) + content), content,
                 9 if fl % 2 == 0 else 7, final_len=fl, s2k=(3, 8, 0))
    # (a') a literal in partial body lengths that is FOLLOWED by another packet inside the container (a one-pass signed message: the
    #      signature comes after the literal) - a misread final length shows as wrong content / a lost signature, it cannot hide at the end
    sk_ = build.ForeignKey('ed25519')
    for fl, size in ((100, 2000), (192, 2000), (1000, 5000), (8384, 20000)):
        content = bytes((i * 13 + fl) % 256 for i in range(size))
        lit_body = b'b\x00' + bytes(4) + content
        rest = len(lit_body) - fl
        lit = build.pkt(11, lit_body, chunks=[k for k in range(30, -1, -1) if rest & (1 << k)])
        sigp, _ = build.sig_packet(sk_, 0x00, 'sha256', [], [], build.subject_octets(0x00, doc=content), created=1262305000)
        ops = build.pkt(4, bytes([3, 0, 8, 22]) + sk_.keyid + b'\x01')
        directed('inner=one-pass signed literal in partial lengths with a final length of %d, signature after it' % fl, ops + lit + sigp, content, 9, s2k=(3, 8, 0))
    # (a'') recipients from ANOTHER producer, imported into PGPy as secret keys, whose secret scalar has leading zero octets as stored
    #       (an unclamped Curve25519 secret below 2^248, below 2^240; a small NIST scalar): PGPy decrypts what is encrypted to them
    import os as _os
    for rlabel, rkind, rawp in (('cv25519, top octet of the stored secret zero', 'cv25519', _os.urandom(31) + b'\x00'),
                                ('cv25519, two top octets of the stored secret zero', 'cv25519', _os.urandom(30) + b'\x00\x00'),
                                ('cv25519, stored secret clamped', 'cv25519', None),
                                ('P-256, scalar with two leading zero octets', 'ecdh256', b'\x00\x00' + _os.urandom(30)),
                                ('P-384, scalar with a leading zero octet', 'ecdh384', b'\x00' + _os.urandom(47))):
        try:
            prim_ = build.ForeignKey('ed25519')
            rec_ = enc.Recipient(rkind, created=prim_.created + 9, raw_private=rawp)
            sblob = build.transferable_key(prim_, [b'Foreign Secret Recipient <fsr@example.org>'], subkeys=[(rec_, 0x0C)], secret=True)
            with warnings.catch_warnings():
                warnings.simplefilter('ignore')
                skey = pgpy.PGPKey.from_blob(sblob)[0]
        except Exception as ex:
            ctx.note('foreign secret recipient (%s) not constructible / importable: %s' % (rlabel, repr(ex)[:80]))
            continue
        content = b'to a recipient key made elsewhere'
        inner = build.pkt(11, b'b\x00' + bytes(4) + content)
        prm = {'kind': 'ecdh', 'keyid': rec_.keyid, 'oid': rec_.oid, 'curve': 'cv25519' if rkind == 'cv25519' else {'ecdh256': 'p256', 'ecdh384': 'p384'}[rkind],
               'point': (b'\x40' + rec_.priv.public_key().public_bytes(serialization.Encoding.Raw, serialization.PublicFormat.Raw)) if rkind == 'cv25519' else
               (lambda n_, sz_: b'\x04' + n_.x.to_bytes(sz_, 'big') + n_.y.to_bytes(sz_, 'big'))(rec_.priv.public_key().public_numbers(), (rec_.priv.curve.key_size + 7) // 8),
               'kdf': rec_.kdf, 'fpr': rec_.fingerprint}
        blob, log = enc.encrypt_message(inner, 9, recipients=[prm])
        e = {'k': 'foreign', 'label': 'cipher=9 to=foreign secret key imported into PGPy (%s) inner=literal' % rlabel, 'blob': octets(blob), 'log': log,
             'recipients': [{'keyid': octets(rec_.keyid), 'body': octets(rec_.pub_body), 'fpr': octets(rec_.fingerprint)}], 'inner': octets(inner), 'expected': _sha(content)}
        try:
            dec = skey.decrypt(pgpy.PGPMessage.from_blob(blob))
            e.update({'raised': False, 'after': _sha(bytes(dec._message._contents))})
        except Exception as ex:
            e.update({'raised': True, 'after': '', 'exc': repr(ex)[:120]})
        ev.append(e)
    # (b) the SKESK cipher (which wraps the session key) differs from the data cipher, in both directions of every key-size pair
    small = b'wrapped under another cipher'
    for alg, walg in ((9, 7), (7, 9), (9, 8), (8, 9), (7, 8), (8, 7), (3, 9), (9, 3), (2, 7), (7, 2), (4, 9), (13, 11), (11, 13), (12, 7)):
        directed('inner=literal, session key of cipher %d wrapped under cipher %d' % (alg, walg), build.pkt(11, b'b\x00' + bytes(4) + small), small, alg, skesk_alg=walg, s2k=(3, 8, 0))
    # (c) every S2K specifier x with / without an encrypted session key
    for spec, hid in ((0, 8), (1, 8), (3, 8), (0, 2), (1, 10), (3, 11)):
        for plain in (False, True):
            directed('inner=literal, s2k specifier %d hash %d%s' % (spec, hid, ' (no encrypted session key)' if plain else ''), build.pkt(11, b'b\x00' + bytes(4) + small), small,
                     9 if spec != 1 else 7, s2k=(spec, hid, 16), esk_plain_session=plain)
    return ev


def replay(ctx, rep):
    print(rep['detail'])
    return 0
