"""C08 - packet codec: own output re-parses byte-exactly; foreign input normalises once.

Spec: spec/Packets.tla (PacketAt: header formats, lengths, partial bodies), spec/Codec.tla (Norm: which encodings may be
normalised - MPI zero bits, unhashed subpacket length forms - and that everything else is kept), models/MC_Codec,
models/Trace_C08.
  'own'      every packet of objects built through the API (literal data with arbitrary names / formats / times, user ids incl.
             invalid UTF-8, keys of every algorithm x protection state, signatures with every option, user attributes,
             compressed and encrypted containers, one-pass / ESK packets), and of parsed objects mutated in place
             (protect, edited user id, grown literal), followed by arbitrary trailing data: exact consumption, header length =
             body length, re-emission identical
  'foreign'  every fixture packet of tests/testdata/packets and builder-made packets re-encoded with every legal header
             (old 1/2/4-octet and indeterminate, new 1/2/5-octet, partial chunkings), foreign keys incl. secret usage 0/254/255,
             signatures with unusual subpackets, unknown tags / versions: if PGPy accepts, its output is well-formed, carries
             the same field values (Norm), and is a fixed point of a second pass
"""
import glob
import os
import struct
import warnings

from .. import build, enc, keylife, keys as K
from ..common import MachineryError, import_pgpy, octets

TAILS = [b'', b'\xc3\x01\x00', b'\xb4\x02hi', b'\x00\x01\x02', b'\xff' * 7]


def own_event(label, raw, tail):
    import_pgpy()
    from pgpy.packet import Packet
    buf = bytearray(raw + tail)
    e = {'k': 'own', 'label': label, 'emitted': octets(raw), 'tail': octets(tail)}
    with warnings.catch_warnings():
        warnings.simplefilter('ignore')
        try:
            p = Packet(buf)
            e.update({'raised': False, 'remaining': octets(buf), 'reemitted': octets(bytes(p.__bytearray__()))})
        except Exception as ex:
            e.update({'raised': True, 'remaining': [], 'reemitted': [], 'exc': repr(ex)[:100]})
    return e


def foreign_event(label, raw, tail, wellformed=False):
    import_pgpy()
    from pgpy.packet import Packet
    buf = bytearray(raw + tail)
    e = {'k': 'foreign', 'label': label, 'f': octets(raw), 'tail': octets(tail), 'wellformed': wellformed}
    with warnings.catch_warnings():
        warnings.simplefilter('ignore')
        try:
            p = Packet(buf)
            o1 = bytes(p.__bytearray__())
            e.update({'accepted': True, 'remaining': octets(buf), 'o1': octets(o1)})
            if type(p).__name__ == 'SignatureV4':
                # field values as the parsed OBJECT presents them (the octets are written back verbatim, so only the object can show a
                # value that was lost on the way in): subpacket types and critical bits of both areas
                try:
                    e['objsubs'] = {'h': [[int(sp_.header.typeid) & 0x7F, bool(sp_.header.critical)] for sp_ in p.subpackets._hashed_sp.values()],
                                    'u': [[int(sp_.header.typeid) & 0x7F, bool(sp_.header.critical)] for sp_ in p.subpackets._unhashed_sp.values()]}
                except Exception:
                    pass
            if type(p).__name__ == 'PKESessionKeyV3':
                # the integers of the algorithm-specific part as the parsed OBJECT presents them (RSA ids 1 / 2: one, ElGamal ids 16 / 20: two)
                try:
                    ct = p.ct
                    e['objmpis'] = [octets(int(x).to_bytes((int(x).bit_length() + 7) // 8, 'big')) for x in ct] if ct is not None and int(p.pkalg) in (1, 2, 16, 20) else [[256]]
                except Exception:
                    e['objmpis'] = [[256]]
            try:
                b2 = bytearray(o1)
                p2 = Packet(b2)
                e.update({'reparsed': len(b2) == 0, 'o2': octets(bytes(p2.__bytearray__()))})
            except Exception as ex:
                e.update({'reparsed': False, 'o2': [], 'exc': repr(ex)[:100]})
        except Exception as ex:
            e.update({'accepted': False, 'remaining': [], 'o1': [], 'o2': [], 'reparsed': False, 'exc': repr(ex)[:100]})
    return e


def api_objects(ctx):
    """(label, bytes of an object built through the API) - every packet inside is examined."""
    pgpy = import_pgpy()
    from pgpy.constants import KeyFlags, CompressionAlgorithm, SymmetricKeyAlgorithm, HashAlgorithm, SignatureType, RevocationReason, KeyServerPreferences
    from datetime import timedelta
    out = []
    algs = [('ed25519', ['cv25519']), ('rsa2048', ['rsa2048']), ('p256', ['ecdh256']), ('dsa1024', [])] + ([] if ctx.quick else [('p384', ['ecdh384']), ('p521', ['ecdh521']), ('k256', []), ('dsa2048', []), ('rsa3072', [])])
    saved = keylife.fast_s2k()
    keys_ = []
    try:
        for alg, subs in algs:
            try:
                k = K.new_key(alg, name='Codec %s' % alg, comment='c', email='codec@x.org', subs=[(s, {KeyFlags.EncryptCommunications}) for s in subs])
            except Exception as ex:
                ctx.note('%s unavailable: %s' % (alg, repr(ex)[:80]))
                continue
            keys_.append(k)
            out.append(('%s private key' % alg, bytes(k)))
            out.append(('%s public key' % alg, bytes(k.pubkey)))
            for cipher, h in ((SymmetricKeyAlgorithm.AES256, HashAlgorithm.SHA256), (SymmetricKeyAlgorithm.CAST5, HashAlgorithm.SHA1)):
                kk = pgpy.PGPKey.from_blob(bytes(k))[0]
                kk.protect('pw', cipher, h)
                out.append(('%s private key protected %s' % (alg, cipher.name), bytes(kk)))
    finally:
        keylife.restore_s2k(saved)
    k = keys_[0]
    other = K.new_key('ed25519', name='Codec Other', email='o@x.org')
    ua = pgpy.PGPUID.new(bytearray(open('/repo/tests/testdata/simple.jpg', 'rb').read()))
    uk = dict(usage={KeyFlags.Sign, KeyFlags.Certify}, hashes=[HashAlgorithm.SHA256], ciphers=[SymmetricKeyAlgorithm.AES128], compression=[CompressionAlgorithm.Uncompressed])
    k.add_uid(ua, created=K.ts(K.T0 + 3), **uk)
    k.add_uid(pgpy.PGPUID.new('Ünï©ode Näme ✓', comment='cömment', email='ü@x.org'), created=K.ts(K.T0 + 4), **uk)
    k.add_uid(pgpy.PGPUID.new('L' * 300), created=K.ts(K.T0 + 5), **uk)
    out.append(('key with attribute, unicode and long identities', bytes(k)))
    sigs_ = [k.sign('doc', created=K.ts(K.T0 + 9), notation={'n@x.org': 'v ✓', 'b@x.org': bytearray(b'\x00\xff')}, policy_uri='https://x.org/p', expires=timedelta(days=3), revocable=False,
                    intended_recipients=[other.pubkey]),
             k.sign(None, created=K.ts(K.T0 + 9)), k.certify(other.userids[0], level=SignatureType.Casual_Cert, trust=(2, 120), regex='<[^>]+@x.org>$', exportable=True, created=K.ts(K.T0 + 9)),
             k.certify(other, created=K.ts(K.T0 + 9)), k.revoke(k.userids[0], reason=RevocationReason.UserID, comment='gone ✓', created=K.ts(K.T0 + 9)),
             k.revoker(other, sensitive=True, created=K.ts(K.T0 + 9)),
             k.certify(k.userids[0], level=SignatureType.Positive_Cert, usage={KeyFlags.Sign}, hashes=[HashAlgorithm.SHA512], ciphers=[SymmetricKeyAlgorithm.AES256], compression=[CompressionAlgorithm.BZ2],
                       key_expiration=timedelta(days=900), keyserver='hkps://k.x.org', keyserver_flags={KeyServerPreferences.NoModify}, primary=True, created=K.ts(K.T0 + 9))]
    for n, s in enumerate(sigs_):
        out.append(('signature with options #%d' % n, bytes(s)))
    for n, (content, kw) in enumerate([(b'', {}), (b'x' * 191, {}), (b'y' * 192, {}), (bytes(range(256)) * 40, {}), ('text ✓\n', {}), (b'bin', {'format': 'b'}), (b'sens', {'sensitive': True})]):
        for comp in CompressionAlgorithm:
            if ctx.quick and n > 2 and comp not in (CompressionAlgorithm.Uncompressed, CompressionAlgorithm.ZLIB):
                continue
            m = pgpy.PGPMessage.new(content, compression=comp, **kw)
            m._message.mtime = [0, 1, 2 ** 31 - 1, 2 ** 32 - 1][n % 4]
            if n == 3:
                m._message.filename = 'dätei ✓.bin'
            if n == 4:
                m._message.filename = 'n' * 255
            m._message.update_hlen()
            if n % 2:
                m |= k.sign(m, created=K.ts(K.T0 + 10))
                m |= keys_[1].sign(m, created=K.ts(K.T0 + 11))
            out.append(('message #%d %s' % (n, comp.name), bytes(m)))
            if comp == CompressionAlgorithm.ZLIB:
                out.append(('encrypted message #%d to key' % n, bytes(k.pubkey.encrypt(m))))
    out.append(('passphrase-encrypted message', bytes(pgpy.PGPMessage.new(b'pw message').encrypt('pw'))))
    # file names at and beyond what the one-octet name length can hold (255 octets), ASCII and not: a name that does not fit may be refused
    # (nothing emitted - outside the property), but whatever IS emitted parses back
    for nm in ('n' * 255, 'n' * 256, '\u00e9' * 127 + 'x', '\u00e9' * 128, 'x' + '\u00e9' * 127, '\u2713' * 85, '\u2713' * 86, 'ab' + '\u2713' * 85, '\U0001f511' * 64):
        for comp in (CompressionAlgorithm.Uncompressed, CompressionAlgorithm.ZIP):
            try:
                m = pgpy.PGPMessage.new(b'named content', compression=comp)
                m._message.filename = nm
                m._message.update_hlen()
                out.append(('message with a file name of %d characters / %d octets %s' % (len(nm), len(nm.encode('utf-8')), comp.name), bytes(m)))
            except Exception as ex:
                ctx.note('file name of %d octets refused: %s' % (len(nm.encode('utf-8')), repr(ex)[:60]))
    return out


def own_events(ctx):
    pgpy = import_pgpy()
    from pgpy.packet import Packet
    ev = []
    for label, blob in api_objects(ctx):
        for j, (tag, body, raw) in enumerate(build.read_packets(blob)):
            tail = TAILS[(j + len(raw)) % len(TAILS)]
            ev.append(own_event('%s / packet %d (tag %d)' % (label, j, tag), raw, tail))
            if tag == 8:
                # packets nested in a compressed packet
                try:
                    inner = {1: lambda d: __import__('zlib').decompress(d, -15), 2: __import__('zlib').decompress, 3: __import__('bz2').decompress, 0: lambda d: d}[body[0]](bytes(body[1:]))
                    for jj, (t2, b2, r2) in enumerate(build.read_packets(inner)):
                        ev.append(own_event('%s / nested packet %d (tag %d)' % (label, jj, t2), r2, TAILS[jj % len(TAILS)]))
                except Exception:
                    pass
    # ---- in-place mutation of parsed objects, then update_hlen
    with warnings.catch_warnings():
        warnings.simplefilter('ignore')
        for fmt, form in (('old', 0), ('old', 1), ('new', None), ('new', 5)):
            for n2 in (0, 191, 192, 255, 256, 8383, 8384, 70000):
                p = Packet(bytearray(build.pkt(13, b'short', fmt=fmt, form=form)))
                p.uid = 'é' * (n2 // 2) + 'x' * (n2 % 2)
                p.update_hlen()
                ev.append(own_event('user id parsed (%s/%s) then edited to %d octets' % (fmt, form, n2), bytes(p.__bytearray__()), TAILS[n2 % len(TAILS)]))
                p = Packet(bytearray(build.pkt(11, b'b\x00\x00\x00\x00\x00abc', fmt=fmt, form=form)))
                p._contents = bytearray(b'z' * n2)
                p.update_hlen()
                ev.append(own_event('literal parsed (%s/%s) then grown to %d octets' % (fmt, form, n2), bytes(p.__bytearray__()), TAILS[(n2 + 1) % len(TAILS)]))
        # signatures with text in their subpackets (policy URI, notation name / value, regular expression, revocation comment): the
        # parsed object presents the text that was given, and a subpacket ADDED to the parsed object leaves the others as they are
        from pgpy.constants import RevocationReason
        from datetime import timedelta
        ks = K.new_key('ed25519', name='Text Subpackets', email='ts@x.org')
        ko = K.new_key('ed25519', name='Other', email='o@x.org')
        texts = ['https://x.org/\xfc\u2713', 'v\xe4lue \u2713 \U0001f511', 'gr\xfcnde \u2014 gone']

        def text_fields(pk):
            out = []
            for nm, attr in (('Policy', 'uri'), ('NotationData', 'value'), ('ReasonForRevocation', 'string'), ('PreferredKeyServer', 'uri')):
                for sp_ in pk.subpackets[nm] if nm in pk.subpackets else []:
                    v_ = getattr(sp_, attr)
                    out.append([nm, [ord(c_) for c_ in v_] if isinstance(v_, str) else list(v_)])
            return out
        for label, mk, given in (('document signature with policy and notation', lambda: ks.sign('doc', policy_uri=texts[0], notation={'n@x.org': texts[1]}, created=K.ts(K.T0 + 9)),
                                  [['Policy', texts[0]], ['NotationData', texts[1]]]),
                                 ('identity revocation with a comment', lambda: ks.revoke(ks.userids[0], reason=RevocationReason.UserID, comment=texts[2], created=K.ts(K.T0 + 9)),
                                  [['ReasonForRevocation', texts[2]]]),
                                 ('certification with a key server', lambda: ks.certify(ks.userids[0], keyserver=texts[0], created=K.ts(K.T0 + 9)), [['PreferredKeyServer', texts[0]]])):
            try:
                raw = bytes(mk()._signature.__bytearray__())
            except Exception as ex:
                ctx.note('%s not made: %s' % (label, repr(ex)[:80]))
                continue
            want = [[nm, [ord(c_) for c_ in tx]] for nm, tx in given]
            p = Packet(bytearray(raw))
            ev.append({'k': 'text', 'label': label + ' / as parsed', 'given': want, 'got': text_fields(p)})
            for hashed_ in (False, True):
                p = Packet(bytearray(raw))
                try:
                    p.subpackets.addnew('Features', hashed=hashed_, flags=set())
                    p.update_hlen()
                    raw2 = bytes(p.__bytearray__())
                    ev.append(own_event('%s parsed, a subpacket added to the %s area' % (label, 'hashed' if hashed_ else 'unhashed'), raw2, TAILS[1]))
                    ev.append({'k': 'text', 'label': '%s / re-parsed after a subpacket was added to the %s area' % (label, 'hashed' if hashed_ else 'unhashed'), 'given': want,
                               'got': text_fields(Packet(bytearray(raw2)))})
                except Exception as ex:
                    ev.append({'k': 'text', 'label': '%s / adding a subpacket raised %s' % (label, repr(ex)[:60]), 'given': want, 'got': []})
        # user attribute packets from another producer whose image header is not the usual one (another version / length, reserved octets in
        # use): parsed, the PICTURE replaced through the public setter, written: what comes out parses back to the header that was received
        # and the new picture
        for hl_, ihdr_ in (('version 1', b'\x10\x00\x01\x01' + bytes(12)), ('version 2, 20 octets', b'\x14\x00\x02\x01' + bytes(16)), ('version 3, 16 octets', b'\x10\x00\x03\x01' + bytes(12)),
                           ('version 1, reserved octets in use', b'\x10\x00\x01\x01' + bytes(range(1, 13)))):
            pic0, pic1 = bytes(range(40)), bytes(range(100, 180))
            raw = build.pkt(17, build.sub_len(1 + len(ihdr_) + len(pic0)) + b'\x01' + ihdr_ + pic0)
            want = [['version', [ihdr_[2]]], ['encoding', [ihdr_[3]]], ['image', list(pic1)]]
            try:
                p = Packet(bytearray(raw))
                p.image.image = bytearray(pic1)
                p.update_hlen()
                raw2 = bytes(p.__bytearray__())
                ev.append(own_event('user attribute (%s image header) parsed, picture replaced' % hl_, raw2, TAILS[2]))
                p2 = Packet(bytearray(raw2))
                got = [['version', [int(p2.image.version)]], ['encoding', [int(p2.image.iencoding)]], ['image', list(bytes(p2.image.image))]]
                ev.append({'k': 'text', 'label': 'user attribute (%s image header) / re-parsed after the picture was replaced' % hl_, 'given': want, 'got': got})
            except Exception as ex:
                ev.append({'k': 'text', 'label': 'user attribute (%s image header) / replacing the picture raised %s' % (hl_, repr(ex)[:60]), 'given': want, 'got': []})
        saved = keylife.fast_s2k()
        try:
            for alg in ('ed25519', 'rsa2048', 'p256'):
                k = pgpy.PGPKey.from_blob(bytes(K.new_key(alg)))[0]
                k.protect('pw', pgpy.constants.SymmetricKeyAlgorithm.AES128, pgpy.constants.HashAlgorithm.SHA256)
                raw = bytes(k._key.__bytearray__())
                ev.append(own_event('%s secret key parsed then protected' % alg, raw, TAILS[2]))
                with k.unlock('pw'):
                    raw2 = bytes(k._key.__bytearray__())
                    ev.append(own_event('%s secret key parsed, protected, unlocked' % alg, raw2, TAILS[1]))
                raw3 = bytes(k._key.__bytearray__())
                ev.append(own_event('%s secret key after the unlock scope' % alg, raw3, TAILS[3]))
        finally:
            keylife.restore_s2k(saved)
        # foreign protected secret keys (usage 254 / 255, all specifiers): parsed, unlocked once, written back
        import hashlib
        for kind in ('rsa2048', 'ed25519', 'dsa1024', 'p256'):
            fk = build.ForeignKey(kind)
            sm = fk.secret_mpis()
            rest = b''.join(r for t, b, r in build.read_packets(build.transferable_key(fk, [b'Foreign Own <fo@example.org>']))[1:])
            for usage, spec in ((254, 3), (255, 3), (255, 0), (254, 1)):
                k_ = enc.s2k_derive(spec, 8, b'12345678' if spec else b'', 0, b'pw', 16)
                iv = bytes(range(16))
                tail_ = hashlib.sha1(sm).digest() if usage == 254 else struct.pack('>H', sum(sm) & 0xFFFF)
                s2k = bytes([usage, 7, spec, 8]) + (b'12345678' if spec else b'') + (b'\x00' if spec == 3 else b'') + iv
                body = fk.pub_body + s2k + enc.cfb(7, k_, sm + tail_, False, iv=iv)
                lab = 'foreign %s secret key usage %d s2k %d' % (kind, usage, spec)
                try:
                    k = pgpy.PGPKey.from_blob(build.pkt(5, body) + rest)[0]
                    with k.unlock('pw'):
                        ev.append(own_event(lab + ' while unlocked', bytes(k._key.__bytearray__()), TAILS[1]))
                    ev.append(own_event(lab + ' after the unlock scope', bytes(k._key.__bytearray__()), TAILS[2]))
                    ev.append(own_event(lab + ' whole key after the unlock scope, first packet', build.read_packets(bytes(k))[0][2], TAILS[3]))
                except Exception as ex:
                    ctx.note('%s could not be exercised: %s' % (lab, repr(ex)[:80]))
    return ev


def header_variants(tag, body, rng, quick):
    vs = [('new shortest', build.pkt(tag, body)), ('new 5-octet', build.pkt(tag, body, form=5))]
    if 192 <= len(body) < 8384 or len(body) < 192:
        if len(body) >= 192:
            vs.append(('new 2-octet', build.pkt(tag, body, form=2)))
    if tag < 16:
        vs.append(('old narrowest', build.pkt(tag, body, fmt='old')))
        vs.append(('old 4-octet', build.pkt(tag, body, fmt='old', form=2)))
        if len(body) < 65536:
            vs.append(('old 2-octet', build.pkt(tag, body, fmt='old', form=1)))
        vs.append(('old indeterminate', build.pkt(tag, body, fmt='old', form=3)))
    if len(body) >= 2 and tag in (8, 9, 11, 18):
        exps = [e for e in (0, 1, 3, 9) if (1 << e) <= len(body)]
        vs.append(('partial', build.pkt(tag, body, chunks=[exps[-1]])))
        if len(body) >= 3:
            vs.append(('partial x2', build.pkt(tag, body, chunks=[0, 1] if len(body) >= 3 else [0])))
    return vs


def foreign_events(ctx):
    ev = []
    corpus = []
    fixture_names = set()
    for f in sorted(glob.glob('/repo/tests/testdata/packets/*')):
        raw = open(f, 'rb').read()
        tag, body, r = build.read_packets(raw)[0]
        corpus.append((os.path.basename(f), tag, body))
        fixture_names.add(os.path.basename(f))
    # builder-made packets
    fk = build.ForeignKey('rsa2048')
    ek = build.ForeignKey('ed25519')
    dk = build.ForeignKey('dsa1024')
    rec = enc.Recipient('ecdh256')
    corpus.append(('foreign rsa public key', 6, fk.pub_body))
    corpus.append(('foreign rsa secret key usage 0', 5, fk.secret_body()))
    corpus.append(('foreign dsa secret key usage 0', 5, dk.secret_body()))
    corpus.append(('foreign ecdh public subkey', 14, rec.pub_body))
    corpus.append(('foreign ecdh secret subkey usage 0', 7, rec.secret_body()))
    import hashlib
    for name, key in (('rsa', fk), ('dsa', dk), ('ed25519', ek)):
        sm = key.secret_mpis()
        for usage, spec in ((254, 3), (255, 3), (255, 0), (254, 1)):
            k_ = enc.s2k_derive(spec, 8, b'12345678' if spec else b'', 0, b'pw', 16)
            iv = bytes(range(16))
            tail = hashlib.sha1(sm).digest() if usage == 254 else struct.pack('>H', sum(sm) & 0xFFFF)
            ct = enc.cfb(7, k_, sm + tail, False, iv=iv)
            s2k = bytes([usage, 7, spec, 8]) + (b'12345678' if spec else b'') + (b'\x00' if spec == 3 else b'') + iv
            corpus.append(('foreign %s secret key usage %d s2k %d' % (name, usage, spec), 5, key.pub_body + s2k + ct))
    # RSA public key whose modulus MPI declares leading zero bits (non-canonical but readable)
    n_ = fk.priv.public_key().public_numbers().n
    padded = struct.pack('>H', n_.bit_length() + 8) + b'\x00' + n_.to_bytes((n_.bit_length() + 7) // 8, 'big')
    corpus.append(('foreign rsa public key with zero-padded modulus', 6, b'\x04' + struct.pack('>I', fk.created) + b'\x01' + padded + build.mpi(65537)))
    doc = build.subject_octets(0x00, doc=b'd')
    for label, hashed, unhashed, kw in (
            ('critical unknown subpacket in the unhashed area', [], [build.subpacket(101, b'adv', critical=True)], {}),
            ('five-octet subpacket lengths in both areas', [build.subpacket(100, b'h', form=5)], [build.subpacket(101, b'u', form=5)], {}),
            ('embedded signature and notation unhashed', [build.subpacket(27, b'\x03')], [build.subpacket(20, bytes([0x80, 0, 0, 0]) + struct.pack('>HH', 3, 2) + b'n@xvv')], {}),
            ('hashed issuer, padded MPIs', [], [], {'issuer_in': 'hashed', 'pad_mpi': 1}),
            ('key flags with unknown bits, two-octet flags', [build.subpacket(27, b'\xc3\x01'), build.subpacket(30, b'\x0f'), build.subpacket(23, b'\xff\x00')], [], {})):
        pk, _ = build.sig_packet(ek, 0x00, 'sha256', hashed, unhashed, doc, created=1262304000, **kw)
        corpus.append(('foreign signature: ' + label, 2, build.read_packets(pk)[0][1]))
    pk, _ = build.sig_packet(fk, 0x00, 'sha512', [], [], doc, created=1262304000, pad_mpi=2)
    corpus.append(('foreign rsa signature with padded MPI', 2, build.read_packets(pk)[0][1]))
    # fixed header fields with values PGPy's enums do not know: the hash algorithm octet (SHA3 ids 12 / 14, a private id) - the packet
    # cannot be verified here but it is well-formed and must be written back as it is
    base_sig = build.read_packets(build.sig_packet(ek, 0x00, 'sha256', [build.subpacket(27, b'\x03')], [], doc, created=1262304000)[0])[0][1]
    for hid_ in (12, 14, 100, 110):
        corpus.append(('foreign signature: hash algorithm id %d' % hid_, 2, base_sig[:3] + bytes([hid_]) + base_sig[4:]))
    # every subpacket type with every well-formed body class in the UNHASHED area (PGPy re-encodes that area from its typed objects:
    # nothing but the length encoding may change)
    from . import c05 as _c05
    for t_ in range(0, 128):
        if t_ == 32:
            continue                      # embedded signatures: separate cases above
        for cname_, body_ in _c05.bodies(t_, ctx.rng, True):
            if body_ is None:
                continue
            try:
                pk, _ = build.sig_packet(ek, 0x00, 'sha256', [], [build.subpacket(t_, body_)], doc, created=1262304000)
            except ValueError:
                continue
            corpus.append(('foreign signature: unhashed subpacket type %d (%s)' % (t_, cname_.split('-')[0]), 2, build.read_packets(pk)[0][1]))
    img = open('/repo/tests/testdata/simple.jpg', 'rb').read()
    imgsp = build.sub_len(len(img) + 17) + b'\x01' + b'\x10\x00\x01\x01' + bytes(12) + img
    corpus.append(('user attribute with two image subpackets', 17, imgsp + imgsp))
    corpus.append(('user attribute with an unknown subpacket', 17, build.sub_len(4) + b'\x64abc'))
    corpus.append(('literal with a long file name', 11, b'b' + bytes([255]) + b'n' * 255 + struct.pack('>I', 0) + b'content'))
    corpus.append(('literal with a latin-1 file name', 11, b't' + bytes([4]) + b'caf\xe9' + struct.pack('>I', 1) + b'x'))
    corpus.append(('literal with utf-8 file name', 11, b'u' + bytes([6]) + 'dät✓'.encode('utf-8')[:6].ljust(6, b'x') + struct.pack('>I', 2 ** 32 - 1) + b''))
    corpus.append(('user id with invalid utf-8', 13, b'Name \xff\xfe <x@y>'))
    corpus.append(('empty user id', 13, b''))
    corpus.append(('unknown tag 15', 15, b'opaque body'))
    corpus.append(('unknown tag 60', 60, b'new-format only'))
    corpus.append(('public key version 5 (unknown)', 6, b'\x05' + bytes(20)))
    corpus.append(('signature version 5 (unknown)', 2, b'\x05' + bytes(12)))
    corpus.append(('one-pass version 4 (unknown)', 4, b'\x04' + bytes(12)))
    # session-key packets of every public-key algorithm id a reader may meet (RFC 4880 9.1), incl. the deprecated RSA-encrypt-only (2) and
    # ElGamal ids (16, 20): ids x integer counts per 5.1; SKESK of every S2K specifier; one-pass packets with every flag value
    for alg_, nmpi in ((1, 1), (2, 1), (16, 2), (20, 2)):
        mp = b''.join(build.mpi(int.from_bytes(bytes((i * 37 + alg_ + j) % 251 + 1 for i in range(64 + j)), 'big')) for j in range(nmpi))
        corpus.append(('foreign pkesk algorithm %d' % alg_, 1, b'\x03' + bytes(range(1, 9)) + bytes([alg_]) + mp))
    # algorithm ids the reader knows by name but has no ciphertext / key-material layout for (sign-only ids in a session-key packet, the
    # reserved Diffie-Hellman id 21 in key packets): whatever it makes of the algorithm-specific octets, an ACCEPTED packet is consumed
    # exactly, comes back with the same octets and is a fixed point
    for alg_ in (3, 17, 19, 21, 22):
        corpus.append(('pkesk for algorithm id %d (no ciphertext layout)' % alg_, 1, b'\x03' + bytes(range(1, 9)) + bytes([alg_]) + build.mpi(0xff) + build.mpi(0x01ff) + b'\x05rest.'))
    km21 = build.mpi(0xc5) + build.mpi(0x1234567)
    corpus.append(('public key of algorithm id 21 (no key-material layout)', 6, b'\x04' + struct.pack('>I', 1262304000) + b'\x15' + km21))
    corpus.append(('public subkey of algorithm id 21 (no key-material layout)', 14, b'\x04' + struct.pack('>I', 1262304000) + b'\x15' + km21))
    for usage_, s2k_ in ((0, b'\x00'), (254, bytes([254, 7, 3, 8]) + b'12345678' + b'\x60' + bytes(range(16))), (255, bytes([255, 9, 0, 2]) + bytes(range(16)))):
        corpus.append(('secret key of algorithm id 21 (no key-material layout) usage %d' % usage_, 5, b'\x04' + struct.pack('>I', 1262304000) + b'\x15' + km21 + s2k_ + build.mpi(0x7f) + b'\x00\x7f'))
        corpus.append(('secret subkey of algorithm id 21 (no key-material layout) usage %d' % usage_, 7, b'\x04' + struct.pack('>I', 1262304000) + b'\x15' + km21 + s2k_ + build.mpi(0x7f) + b'\x00\x7f'))
    # versions other than the ones PGPy implements, for every versioned tag (known to RFC 4880 / 2440 / later drafts, unknown here)
    for tag_, vers in ((1, (2, 6)), (2, (2, 6)), (3, (5, 6)), (4, (6,)), (5, (2, 3, 6)), (6, (2, 3, 6)), (7, (3, 5)), (14, (3, 5)), (18, (2,))):
        for v_ in vers:
            corpus.append(('tag %d version %d (not implemented)' % (tag_, v_), tag_, bytes([v_]) + bytes((i * 29 + v_ + tag_) % 256 for i in range(37))))
    # ElGamal (ids 16 and 20) key packets: structurally well-formed integers (no primality needed for the codec), public and secret,
    # every S2K usage form incl. the legacy one (usage octet = cipher id, IV and data follow, 5.5.3)
    elg_p = int.from_bytes(bytes((i * 13 + 5) % 251 + 1 for i in range(128)), 'big') | 1
    elg_pub = build.mpi(elg_p) + build.mpi(5) + build.mpi(elg_p // 3)
    elg_x = build.mpi(elg_p // 7)
    for alg_ in (16, 20):
        kb = b'\x04' + struct.pack('>I', 1262304000) + bytes([alg_]) + elg_pub
        corpus.append(('foreign elgamal (%d) public subkey' % alg_, 14, kb))
        corpus.append(('foreign elgamal (%d) secret subkey usage 0' % alg_, 7, kb + b'\x00' + elg_x + struct.pack('>H', sum(elg_x) & 0xFFFF)))
        corpus.append(('foreign elgamal (%d) secret subkey usage 254' % alg_, 7, kb + bytes([254, 9, 3, 8]) + b'saltsalt' + b'\x60' + bytes(range(16)) + bytes((i * 3) % 256 for i in range(len(elg_x) + 20))))
        corpus.append(('foreign elgamal (%d) secret subkey usage 255 simple' % alg_, 7, kb + bytes([255, 7, 0, 2]) + bytes(range(16)) + bytes((i * 3) % 256 for i in range(len(elg_x) + 2))))
    for name, key in (('rsa', fk), ('dsa', dk), ('ed25519', ek), ('ecdh', rec)):
        sm_ = key.secret_mpis() if hasattr(key, 'secret_mpis') else None
        if sm_ is None:
            continue
        for cid_, bl_ in ((7, 16), (3, 8), (2, 8)):
            corpus.append(('foreign %s secret key legacy usage (cipher id %d)' % (name, cid_), 5, key.pub_body + bytes([cid_]) + bytes(range(bl_)) + bytes((i * 5 + cid_) % 256 for i in range(len(sm_) + 2))))
    # compressed packets of every algorithm nesting several packets of different kinds
    import bz2 as _bz2
    nest = build.pkt(4, b'\x03\x00\x08\x16' + bytes(range(8)) + b'\x01') + build.pkt(11, b'b\x00\x00\x00\x00\x00nested', fmt='old') + build.pkt(60, b'unknown inside')
    corpus.append(('compressed packet (uncompressed, id 0) with three packets', 8, b'\x00' + nest))
    corpus.append(('compressed packet (ZIP) with three packets', 8, b'\x01' + __import__('zlib').compress(nest)[2:-4]))
    corpus.append(('compressed packet (ZLIB) with three packets', 8, b'\x02' + __import__('zlib').compress(nest)))
    corpus.append(('compressed packet (BZ2) with three packets', 8, b'\x03' + _bz2.compress(nest)))
    # GNU S2K extension (usage 254 / 255, specifier 101): the dummy without secret (mode 1) and the smartcard stub (mode 2) with a serial
    # number of 16, 4 and ZERO octets
    for usage_ in (254, 255):
        corpus.append(('foreign gnu dummy secret key usage %d' % usage_, 5, fk.pub_body + bytes([usage_, 0, 101, 0]) + b'GNU\x01'))
        for serial_ in (bytes(range(16)), b'\x01\x02\x03\x04', b''):
            corpus.append(('foreign gnu card stub usage %d serial of %d octets' % (usage_, len(serial_)), 5, fk.pub_body + bytes([usage_, 0, 101, 0]) + b'GNU\x02' + bytes([len(serial_)]) + serial_))
    corpus.append(('foreign pkesk wildcard recipient', 1, b'\x03' + bytes(8) + b'\x01' + build.mpi(0x1234567890abcdef1234567890abcdef)))
    for spec_, s2k_ in ((0, bytes([0, 8])), (1, bytes([1, 2]) + bytes(range(8))), (3, bytes([3, 10]) + bytes(range(8)) + b'\x60')):
        corpus.append(('foreign skesk s2k %d' % spec_, 3, b'\x04\x09' + s2k_))
        corpus.append(('foreign skesk s2k %d with an encrypted session key' % spec_, 3, b'\x04\x07' + s2k_ + bytes(range(17))))
    # trust packets: their content is defined by the implementation that wrote them (5.10) - any length
    for tb_ in (b'', b'\x05', b'\x00\x00', b'\x01\x02\x03', bytes(range(1, 7)), bytes(40)):
        corpus.append(('foreign trust packet of %d octets' % len(tb_), 12, tb_))
    for last_ in (0, 1, 2, 255):
        corpus.append(('foreign one-pass flag %d' % last_, 4, b'\x03\x01\x0a\x16' + bytes(range(8)) + bytes([last_])))
    import zlib
    inner = build.pkt(11, b'b\x00\x00\x00\x00\x00in') + build.pkt(11, b'b\x00\x00\x00\x00\x00two')
    corpus.append(('compressed packet with two literals', 8, b'\x02' + zlib.compress(inner)))
    corpus.append(('compressed packet with an old-format inner header', 8, b'\x01' + zlib.compress(build.pkt(11, b'b\x00\x00\x00\x00\x00in', fmt='old'), 9)[2:-4]))
    for name, tag, body in corpus:
        if tag > 15 and False:
            continue
        for vname, raw in header_variants(tag, body, ctx.rng, ctx.quick):
            tail = b'' if 'indeterminate' in vname else TAILS[(len(raw) + tag) % len(TAILS)]
            ev.append(foreign_event('%s / %s' % (name, vname), raw, tail, wellformed=(name in fixture_names or name.startswith('foreign '))))
    return ev


def run(ctx):
    import_pgpy()
    ctx.assumptions += ['TLC/SANY', 'JSON marshalling', 'rejection of foreign input is always allowed; equality for foreign input is on Codec.Norm (spec-level fields), not on octets',
                        'the fixtures of tests/testdata/packets double as validation of the wire spec (they must split as single packets)']
    warnings.simplefilter('ignore')
    ctx.model('MC_Codec')
    oev = own_events(ctx)
    fev = foreign_events(ctx)
    ev = oev + fev
    for e in ev:
        ctx.case((e['k'], e['label']))
    ctx.sample({k: (v if not isinstance(v, list) or len(v) < 40 else v[:40] + ['...']) for k, v in oev[3].items()})
    ctx.sample({k: (v if not isinstance(v, list) or len(v) < 40 else v[:40] + ['...']) for k, v in fev[len(fev) // 2].items()})
    rej = ctx.judge('Trace_C08', ev, chunk=250)
    ctx.traces += len(ev) - len(rej)
    bad = {i for i, _ in rej}
    good = [e for i, e in enumerate(ev) if i not in bad and len(e.get('emitted', e.get('f', []))) < 2000]
    ctx.selftest(lambda b: ctx.judge('Trace_C08', b), good,
                 [('one trailing octet swallowed', lambda e: dict(e, remaining=e['remaining'][1:]) if e['k'] == 'own' and not e['raised'] and e['remaining'] else None),
                  ('re-emission differs', lambda e: dict(e, reemitted=e['reemitted'][:-1] + [e['reemitted'][-1] ^ 1]) if e['k'] == 'own' and not e['raised'] and e['reemitted'] else None),
                  ('second pass differs', lambda e: dict(e, o2=e['o2'][:-1] + [e['o2'][-1] ^ 1]) if e['k'] == 'foreign' and e['accepted'] and e['o2'] else None),
                  ('a field value changed by normalisation', lambda e: dict(e, o1=e['o1'][:-1] + [e['o1'][-1] ^ 1], o2=e['o1'][:-1] + [e['o1'][-1] ^ 1]) if e['k'] == 'foreign' and e['accepted'] and e['o1'] and 'literal' in e['label'] else None)], 'C08')
    ctx.extra['own_packets'] = len(oev)
    ctx.extra['foreign_packets'] = len(fev)
    ctx.extra['foreign_accepted'] = sum(1 for e in fev if e['accepted'])
    ctx.extra['foreign_rejected_by_pgpy'] = sorted({e['label'].split(' / ')[0] for e in fev if not e['accepted']})[:40]
    for idx, clause in rej:
        e = ev[idx]
        if clause.startswith('harness'):
            raise MachineryError('TLC rejected a harness-built packet (%s): %s' % (clause, e['label']))
        parts = e['label'].split(' / ')
        name = parts[0]
        for w in ('usage 255',):
            if w in name and ('dsa' in name or 'elgamal' in name):
                name = 'DSA/ElGamal secret key with S2K usage 255'
        ctx.violation(clause, '%s: %s' % (e['k'], name if e['k'] == 'foreign' else name.split(' #')[0]), {'label': e['label'], 'exc': e.get('exc'),
                                                                                                         'packet': (e.get('f') or e.get('emitted') or [])[:64], 'given': e.get('given'), 'got': e.get('got')})
    return ctx.finish(level='model_checking',
                      rule='own: every packet (also nested in compressed packets) of ~120 objects built through the API x trailing data, plus parsed packets mutated '
                           'in place across every length boundary; foreign: 50 fixture packets + ~45 builder-made packets x every legal header encoding x trailing data',
                      exhaustive=False)


def replay(ctx, rep):
    print(rep['detail'])
    return 0
