"""C14 - transferable keys survive export and import with their structure intact.

Spec: spec/Cert.tla (SigsOn / ExportableSigsOn: which ledger signatures belong to which component and which survive an
export), models/Gen_Cert, models/Trace_Cert (FOCUS=C14), spec/Packets.tla (Trace_Split).
Per view (private key, public twin, export -> import of each, copy): same fingerprint and subkey material; same identities;
the set of signatures attached to every component equals the ledger's (association: no signature on a neighbouring
component; exportable: non-exportable ones, and only those, are missing after an export); every signature verifies on the
component it is attached to; the export follows the transferable-key grammar; a copy exports identically.
Trace_Split: several keys (public and private, with and without subkeys, GnuPG-style trust packets interleaved, keys from
the independent encoder) concatenated in one blob are separated into exactly those keys.
"""
import hashlib
import struct
import warnings

from .. import build, certlife, enc, keys as K
from ..common import MachineryError, import_pgpy, octets


def split_events(ctx):
    pgpy = import_pgpy()
    from pgpy.constants import KeyFlags
    ev = []
    ka = K.new_key('ed25519', name='Split A', email='a@s.org', subs=[('cv25519', {KeyFlags.EncryptCommunications}), ('ed25519', {KeyFlags.Sign})])
    ka.add_uid(pgpy.PGPUID.new('Split A second', email='a2@s.org'), created=K.ts(K.T0 + 4))
    kb = K.new_key('ed25519', name='Split B', email='b@s.org')
    kc = K.new_key('rsa2048', name='Split C', email='c@s.org', subs=[('rsa2048', {KeyFlags.EncryptCommunications})])
    fk = build.ForeignKey('ed25519')
    rec = enc.Recipient('cv25519', created=fk.created)
    fpub = build.transferable_key(fk, [b'Foreign One <f1@example.org>', b'Foreign Two <f2@example.org>'], subkeys=[(rec, 0x0C)])
    ftrust = build.transferable_key(fk, [b'Foreign One <f1@example.org>'], subkeys=[(rec, 0x0C)], trust_packets=True)
    fsec = build.transferable_key(fk, [b'Foreign One <f1@example.org>'], secret=True)
    pool = {'Apub': bytes(ka.pubkey), 'Asec': bytes(ka), 'Bpub': bytes(kb.pubkey), 'Bsec': bytes(kb), 'Cpub': bytes(kc.pubkey), 'Csec': bytes(kc),
            'Fpub': fpub, 'Ftrust': ftrust, 'Fsec': fsec}
    combos = [['Apub'], ['Apub', 'Bpub'], ['Bpub', 'Apub'], ['Apub', 'Bpub', 'Cpub'], ['Asec', 'Bsec'], ['Bsec', 'Asec', 'Csec'], ['Apub', 'Asec'], ['Asec', 'Apub'],
              ['Apub', 'Bpub', 'Asec', 'Bsec'], ['Bsec', 'Apub', 'Bpub'], ['Fpub', 'Apub'], ['Ftrust', 'Bpub'], ['Bpub', 'Ftrust', 'Cpub'], ['Fsec', 'Fpub'], ['Cpub', 'Fpub', 'Bpub', 'Apub'],
              # the same key again later in the blob (same half, other half), with another key in between
              ['Apub', 'Bpub', 'Asec'], ['Asec', 'Bpub', 'Apub'], ['Apub', 'Bpub', 'Apub'], ['Bpub', 'Apub', 'Cpub', 'Asec'], ['Csec', 'Apub', 'Cpub']]
    for names in combos:
        for armor in (False, True, 'blocks'):
            blob = b''.join(pool[n] for n in names)
            data = blob
            if armor == 'blocks':
                # every key in an armor block of its own, the blocks one after the other in one text (cat alice.asc bob.asc)
                if len(names) < 2:
                    continue
                import base64
                from pgpy.types import Armorable
                parts = []
                for n_ in names:
                    label = 'PRIVATE KEY BLOCK' if build.read_packets(pool[n_])[0][0] == 5 else 'PUBLIC KEY BLOCK'
                    b64 = base64.b64encode(pool[n_]).decode()
                    crc = base64.b64encode(Armorable.crc24(pool[n_]).to_bytes(3, 'big')).decode()
                    parts.append('-----BEGIN PGP %s-----\nComment: %s\n\n%s\n=%s\n-----END PGP %s-----\n' % (label, n_, '\n'.join(b64[i:i + 64] for i in range(0, len(b64), 64)), crc, label))
                data = '\n'.join(parts)
            elif armor:
                if len({n[-3:] for n in names}) > 1 or any(n.startswith('F') for n in names):
                    continue
                first = pgpy.PGPKey.from_blob(pool[names[0]])[0]
                import base64
                from pgpy.types import Armorable
                label = 'PUBLIC KEY BLOCK' if first.is_public else 'PRIVATE KEY BLOCK'
                b64 = base64.b64encode(blob).decode()
                crc = base64.b64encode(Armorable.crc24(blob).to_bytes(3, 'big')).decode()
                data = '-----BEGIN PGP %s-----\n\n%s\n=%s\n-----END PGP %s-----\n' % (label, '\n'.join(b64[i:i + 64] for i in range(0, len(b64), 64)), crc, label)
            e = {'k': 'split', 'label': '+'.join(names) + (' armored blocks one after the other' if armor == 'blocks' else ' armored' if armor else ''), 'blob': octets(blob)}
            if armor:
                e['text'] = [ord(ch) for ch in data]       # the armored text itself: TLC decodes it (all blocks) and compares with the blob
            # claims about the primaries in the blob (preimages rechecked by TLC)
            prim, counts = [], []
            for tag, body, raw in build.read_packets(blob):
                if tag in (5, 6):
                    pb = body[:build.pub_portion_len(body)]
                    pre = b'\x99' + struct.pack('>H', len(pb)) + pb
                    prim.append({'preimage': octets(pre), 'digest': octets(hashlib.sha1(pre).digest()), 'secret': tag == 5})
                    counts.append({'subs': 0, 'uids': 0})
                elif tag in (7, 14):
                    counts[-1]['subs'] += 1
                elif tag in (13, 17):
                    counts[-1]['uids'] += 1
            e['primaries'] = prim
            e['counts'] = counts
            with warnings.catch_warnings():
                warnings.simplefilter('ignore')
                try:
                    first, others = pgpy.PGPKey.from_blob(data)
                    got = [first] + [k for k in others.values() if k is not first]
                    e['got'] = [{'fpr': octets(bytes.fromhex(str(k.fingerprint))), 'secret': not k.is_public, 'subs': len(k.subkeys), 'uids': len(k.userids) + len(k.userattributes),
                                 'reexport_same': bytes(k) == pool.get(next((n for n in names if pool[n][:40] == bytes(k)[:40]), ''), b'') or any(n.startswith('F') for n in names)} for k in got]
                    e['raised'] = False
                except Exception as ex:
                    e['got'] = []
                    e['raised'] = True
                    e['exc'] = repr(ex)[:100]
            ev.append(e)
    return ev


def assoc_events(ctx):
    """keys from the independent encoder, some with components a reader must skip (a version-5 subkey, a packet of an
    unassigned tag) followed by signatures: which signatures does PGPy hold on which component, in memory and after export."""
    pgpy = import_pgpy()
    ev = []
    for variant in ('plain', 'v5-subkey-between', 'unknown-tag-after-uid', 'v5-subkey-last', 'v5-subkey-first', 'trust-and-v5', 'two-unknown', 'five-octet-subpacket-lengths', 'latin1-uid', 'local-signatures', 'certification-by-unsupported-algorithm', 'subkey-without-binding', 'photo-id-private-encoding'):
        for secret in (False, True):
            fk = build.ForeignKey('ed25519')
            s1 = enc.Recipient('cv25519', created=fk.created + 1)
            s2 = build.ForeignKey('ed25519', created=fk.created + 2)
            uids = [b'Assoc One <a1@example.org>', b'Assoc Two <a2@example.org>']
            if variant == 'latin1-uid':
                uids = [b'Assoc One <a1@example.org>', 'J\xf6rg M\xfcller <jm@example.org>'.encode('latin-1')]     # not UTF-8: old keys carry such identities
            xh = []
            if variant == 'five-octet-subpacket-lengths':
                # hashed areas another implementation may write and PGPy never does: what is exported must still be what was signed
                xh = [build.subpacket(26, b'https://example.org/policy', form=5), build.subpacket(100, b'private', form=5)]
            whole = build.transferable_key(fk, uids, subkeys=[(s1, 0x0C), (s2, 0x02)], secret=secret, trust_packets=(variant == 'trust-and-v5'), extra_hashed=xh)
            pk = build.read_packets(whole)
            # an unreadable subkey (version 5 layout: version, time, algorithm, 4-octet material length, material) with a binding-like and a
            # revocation-like signature by the primary over it
            v5 = b'\x05' + struct.pack('>I', fk.created + 3) + bytes([22]) + struct.pack('>I', 43) + bytes([9]) + build.OID['ed25519'] + build.mpi_bytes(b'\x40' + bytes(range(32)))
            v5pk = build.pkt(14, v5)
            b5, _ = build.sig_packet(fk, 0x18, 'sha256', [build.subpacket(27, bytes([0x02]))], [], build.subject_octets(0x18, primary=fk.pub_body, sub=v5), created=fk.created + 30)
            r5, _ = build.sig_packet(fk, 0x28, 'sha256', [build.subpacket(29, b'\x00gone')], [], build.subject_octets(0x28, primary=fk.pub_body, sub=v5), created=fk.created + 31)
            unk = build.pkt(60, b'private or experimental packet')
            su, _ = build.sig_packet(fk, 0x10, 'sha256', [], [], build.subject_octets(0x10, primary=fk.pub_body, uid=b'unknown'), created=fk.created + 32)
            raws = [r for t, b, r in pk]
            tags = [t for t, b, r in pk]
            subidx = [j for j, t in enumerate(tags) if t in (7, 14)]
            uididx = [j for j, t in enumerate(tags) if t == 13]
            ins = {}
            if variant in ('v5-subkey-between', 'trust-and-v5', 'two-unknown'):
                ins[subidx[1]] = v5pk + b5 + r5
            if variant == 'v5-subkey-first':
                ins[subidx[0]] = v5pk + b5 + r5
            if variant == 'v5-subkey-last':
                ins[len(raws)] = v5pk + b5 + r5
            if variant in ('unknown-tag-after-uid', 'two-unknown'):
                ins[uididx[1]] = unk + su
            if variant == 'local-signatures':
                # signatures marked non-exportable (hashed Exportable Certification = 0) of several types and places, by a third party: a local
                # certification of an identity, a local direct-key signature, a local signature over a subkey; plus exportable ones beside them
                tp = build.ForeignKey('ed25519', created=fk.created + 50)
                loc = [build.subpacket(4, b'\x00')]
                l_uid, _ = build.sig_packet(tp, 0x10, 'sha256', loc, [], build.subject_octets(0x10, primary=fk.pub_body, uid=uids[0]), created=fk.created + 60)
                e_uid, _ = build.sig_packet(tp, 0x12, 'sha256', [build.subpacket(4, b'\x01')], [], build.subject_octets(0x12, primary=fk.pub_body, uid=uids[0]), created=fk.created + 61)
                l_key, _ = build.sig_packet(tp, 0x1F, 'sha256', loc, [], build.subject_octets(0x1F, primary=fk.pub_body), created=fk.created + 62)
                e_key, _ = build.sig_packet(tp, 0x1F, 'sha256', [], [], build.subject_octets(0x1F, primary=fk.pub_body), created=fk.created + 63)
                ins[uididx[0]] = l_key + e_key          # directly after the primary key packet
                ins[uididx[1]] = l_uid + e_uid          # after the signatures of the first identity
            if variant == 'certification-by-unsupported-algorithm':
                # a third-party certification made with a public-key algorithm PGPy has no signature class for (id 20, formerly ElGamal
                # encrypt-or-sign): it cannot be verified here, but it belongs to the key and must be kept as it is
                hs = build.subpacket(2, struct.pack('>I', fk.created + 70))
                ob = bytes([4, 0x10, 20, 8]) + struct.pack('>H', len(hs)) + hs + struct.pack('>H', 10) + build.subpacket(16, bytes(range(8))) + b'\xab\xcd' + \
                    build.mpi(2 ** 255 + 12345) + build.mpi(2 ** 254 + 999)
                ins[uididx[1]] = build.pkt(2, ob)
            if variant == 'photo-id-private-encoding':
                # a user attribute whose image subpacket uses a private-use encoding octet (101), self-certified and certified by a third party
                imgdata = bytes((7 * i_) % 256 for i_ in range(96))
                ua = build.sub_len(1 + 16 + len(imgdata)) + b'\x01' + b'\x10\x00\x01\x65' + bytes(12) + imgdata
                tp = build.ForeignKey('ed25519', created=fk.created + 50)
                c1, _ = build.sig_packet(fk, 0x13, 'sha256', [], [], build.subject_octets(0x13, primary=fk.pub_body, uid=ua, isuid=False), created=fk.created + 64)
                c2, _ = build.sig_packet(tp, 0x10, 'sha256', [], [], build.subject_octets(0x10, primary=fk.pub_body, uid=ua, isuid=False), created=fk.created + 65)
                ins[subidx[0]] = build.pkt(17, ua) + c1 + c2        # after the identities, before the first subkey
            if variant == 'subkey-without-binding':
                # what a key server or a minimiser may hand out: the last subkey packet without any signature after it
                raws = raws[:-1]
            blob = b''.join(ins.get(j, b'') + r for j, r in enumerate(raws)) + ins.get(len(raws), b'')
            e = {'k': 'assoc', 'label': '%s %s' % (variant, 'secret' if secret else 'public'), 'blob': octets(blob), 'got': [], 'reexport': [], 'copy_export': [], 'pub_export': []}
            with warnings.catch_warnings():
                warnings.simplefilter('ignore')
                try:
                    k = pgpy.PGPKey.from_blob(blob)[0]

                    def sigbodies(sigs):
                        return [octets(build.read_packets(bytes(s_))[0][1]) for s_ in sigs if not s_.embedded]   # embedded back-signatures live inside their binding signature

                    def keycomp(kk):
                        body = build.read_packets(bytes(kk._key))[0][1]
                        return octets(body[:build.pub_portion_len(body)])
                    e['got'].append({'comp': keycomp(k), 'sigs': sigbodies(k.__sig__)})
                    for u in list(k.userids) + list(k.userattributes):
                        e['got'].append({'comp': octets(build.read_packets(bytes(u._uid))[0][1]), 'sigs': sigbodies(u.__sig__)})
                    for sk in k.subkeys.values():
                        e['got'].append({'comp': keycomp(sk), 'sigs': sigbodies(sk.__sig__)})
                    e['reexport'] = octets(bytes(k))
                    import copy as _copy
                    e['copy_export'] = octets(bytes(_copy.copy(k)))
                    e['pub_export'] = octets(bytes(k.pubkey if not k.is_public else _copy.copy(k)))
                    e['raised'] = False
                except Exception as ex:
                    e['raised'] = True
                    e['exc'] = repr(ex)[:120]
            ev.append(e)
    return ev


def run(ctx):
    import_pgpy()
    ctx.assumptions += ['TLC/SANY', 'JSON marshalling', 'each issued signature is tagged with its ledger position through the policy URI subpacket',
                        'order of identities and of signatures is unconstrained (only membership and attachment are)']
    warnings.simplefilter('ignore')
    traces, rej = certlife.generate(ctx, 'C14')
    for t, clause, step, vw in rej:
        tr = traces[t]
        hist = [(e['act']['op'], e['act']['a'], e['act']['tag']) for e in tr[:step]]
        ctx.violation(clause, 'last-op=%s view=%s' % (hist[-1][0], vw), {'history': hist, 'view': vw})
    ev = split_events(ctx) + assoc_events(ctx)
    for e in ev:
        ctx.case(('split', e['label']))
    ctx.sample({k: v for k, v in ev[3].items() if k not in ('blob', 'primaries')})
    ctx.extra['association_events'] = sum(1 for e in ev if e['k'] == 'assoc')
    rej2 = ctx.judge('Trace_Split', ev)
    ctx.traces += len(ev) - len(rej2)
    ctx.extra['split_events'] = len(ev)
    for idx, clause in rej2:
        e = ev[idx]
        if clause.startswith('harness'):
            raise MachineryError('TLC rejected the harness claims about a concatenation: %s' % e['label'])
        if e['k'] == 'assoc':
            ctx.violation(clause, 'import of a foreign key: %s' % e['label'], {'label': e['label'], 'exc': e.get('exc'), 'blob': bytes(e['blob']).hex()})
            continue
        ctx.violation(clause, 'concatenation %s' % ('both halves of one key' if len({n[0] for n in e['label'].split(' ')[0].split('+')}) < len(e['label'].split(' ')[0].split('+')) else 'different keys'),
                      {'label': e['label'], 'got': [dict(g, fpr=bytes(g['fpr']).hex()) for g in e['got']], 'exc': e.get('exc')})
    return ctx.finish(level='model_checking',
                      rule='the key-management histories of C15 (identities incl. an image attribute, third-party and non-exportable certifications, revocations, '
                           'direct-key signatures, two subkeys with rebinding, equal timestamps, copy, export-import in the middle), 4 views each; concatenations of '
                           '1-4 keys incl. both halves of one key, trust packets, foreign keys, armored and binary',
                      exhaustive=False)


def replay(ctx, rep):
    print(rep['detail'])
    return 0
