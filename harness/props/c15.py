"""C15 - key-management histories keep a key self-consistent.

Spec: spec/Cert.tla (ledger of issued signatures; EffSelf / EffBind / revocation / tie candidates), models/Gen_Cert
(all histories to depth 3 / 4 + TLC-simulated walks of depth 12), models/Trace_Cert (FOCUS=C15).
After the history (exhaustive set) or after EVERY step (walks) four views are projected - private key, public twin derived
now, export -> import of each - and TLC checks per view: identities present = those not removed; every self-signature,
binding (with embedded cross-signature for the signing subkey) and revocation verifies under the public half; the effective
self-signature is one with the greatest timestamp and the reported flags / preferences / primary mark are its values; the
effective binding likewise; revocations reported for exactly the revoked components; tie rule (C15.tie): among equal
timestamps the signature issued last.
"""
import warnings

from .. import certlife
from ..common import MachineryError, import_pgpy


def run(ctx):
    import_pgpy()
    ctx.assumptions += ['TLC/SANY', 'JSON marshalling', 'each issued signature is tagged with its ledger position through the policy URI subpacket (public API) so that '
                        'the projection can name it', 'for a revoked identity the effective values are unconstrained (only the revocation report binds)']
    warnings.simplefilter('ignore')
    traces, rej = certlife.generate(ctx, 'C15')
    for t, clause, step, vw in rej:
        tr = traces[t]
        ops = [e['act']['op'] for e in tr[:step]]
        hist = [(e['act']['op'], e['act']['a'], e['act']['tag']) for e in tr[:step]]
        ctx.violation(clause, 'last-op=%s view=%s%s' % (ops[-1], vw, ' same-second' if clause == 'C15.tie' else ''), {'history': hist, 'view': vw, 'exc': tr[step - 1].get('exc')})
    # keys that ARRIVE from elsewhere (independent encoder: non-minimal subpacket lengths, local signatures, a latin-1 identity, an
    # unreadable component in between): the public twin and a copy must carry the same signatures on the same components, octet for octet
    # (Trace_Split Assoc / AssocExported - the association rule of C14 applied to the derived public key)
    from . import c14 as _c14
    aev = [e for e in _c14.assoc_events(ctx) if e['label'].split(' ')[0] in ('plain', 'five-octet-subpacket-lengths', 'latin1-uid', 'local-signatures', 'v5-subkey-between')]
    arej = ctx.judge('Trace_Split', aev)
    ctx.traces += len(aev) - len(arej)
    for idx, clause in [(r[0], r[1]) for r in arej]:
        if clause.startswith('harness'):
            raise MachineryError('TLC rejected the harness claims about a foreign key: %s' % aev[idx]['label'])
        ctx.violation('C15.twin', 'foreign key: %s (%s)' % (aev[idx]['label'], clause), {'label': aev[idx]['label'], 'clause': clause})
    return ctx.finish(level='model_checking',
                      rule='every enabled history of Cert.tla over 27 actions to depth 2 + 260 of depth 3 (quick) / depth 3 + 3000 of depth 4 (thorough), observed at the end; '
                           'TLC-simulated walks of depth 12 observed after every step; 4 views per observation',
                      exhaustive=False)


def replay(ctx, rep):
    print(rep['detail'])
    return 0
