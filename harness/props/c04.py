"""C04 - ciphertext integrity: tampered or mis-keyed encrypted messages never decrypt.

Spec: spec/Tamper.tla (symbolic CFB / MDC model with the decrypt checks as switches), models/Trace_Enc (TamperEv).
  MC_Tamper     Integrity / WrongKeyRaises / UntouchedDecrypts for all <= 2-step attacks on a 4-block message
                (flip, truncate, extend, swap, splice with a second message under the same key, replace all, wrong key);
                spec mutation CheckMDC = FALSE must give a counterexample
  Trace_Enc     every concrete attack on real messages (bit flips of every region, truncation, extension, block swaps,
                splices between two messages under one session key, MDC replacement, ESK drop / duplicate / reorder /
                field changes, wrong passphrase, non-recipient key): outcome is "raised" or exactly one of the plaintexts
                that were encrypted
"""
import hashlib
import warnings

from .. import build, enc, keys as K
from ..common import MachineryError, import_pgpy
from . import c03


def sha(b):
    return hashlib.sha256(bytes(b)).hexdigest()


def attempt(pgpy, blob, opener):
    with warnings.catch_warnings():
        warnings.simplefilter('ignore')
        try:
            m = pgpy.PGPMessage.from_blob(bytes(blob))
            d = opener(m)
            if d.is_encrypted:
                return 'raised', ''
            # (decrypt() handing back the very object it was given counts as a result too: the caller reads .message from it)
            c = d.message
            return 'returned', sha(c.encode('utf-8') if isinstance(c, str) else bytes(c))
        except Exception:
            return 'raised', ''


def regions(blob):
    """[(name, start, end)] of the fields of an encrypted message's packets."""
    out = []
    p = 0
    for tag, body, raw in build.read_packets(blob):
        h = len(raw) - len(body)
        out.append(('tag%d-header' % tag, p, p + h))
        b0 = p + h
        if tag == 1:
            out += [('pkesk-version', b0, b0 + 1), ('pkesk-keyid', b0 + 1, b0 + 9), ('pkesk-algorithm', b0 + 9, b0 + 10), ('pkesk-mpi-length', b0 + 10, b0 + 12),
                    ('pkesk-fields', b0 + 12, p + len(raw))]
        elif tag == 3:
            out += [('skesk-version', b0, b0 + 1), ('skesk-algorithm', b0 + 1, b0 + 2), ('skesk-s2k', b0 + 2, min(b0 + 13, p + len(raw))),
                    ('skesk-esk', min(b0 + 13, p + len(raw)), p + len(raw))]
        elif tag == 18:
            n = len(body)
            out += [('seipd-version', b0, b0 + 1), ('seipd-prefix', b0 + 1, b0 + 19), ('seipd-body', b0 + 19, p + len(raw) - 22),
                    ('seipd-mdc-header', p + len(raw) - 22, p + len(raw) - 20), ('seipd-mdc-hash', p + len(raw) - 20, p + len(raw))]
        p += len(raw)
    return [r for r in out if r[2] > r[1]]


def attacks(ctx, blobA, blobB, full):
    """yield (action, region, mutated blob)."""
    rng = ctx.rng
    regs = regions(blobA)
    for name, s, e in regs:
        bits = list(range(s * 8, e * 8))
        if not full and len(bits) > 24:
            bits = sorted(rng.sample(bits, min(len(bits), 24 if ctx.quick else 96)))
        for b in bits:
            m = bytearray(blobA)
            m[b // 8] ^= 1 << (b % 8)
            yield 'flip', name, bytes(m)
    step = 1 if full else (7 if ctx.quick else 3)
    if len(blobA) > 20000:
        step = len(blobA) // 60                      # large messages: a spread of cut points
    for n in range(0, len(blobA), step):
        yield 'truncate', 'at %d' % n, blobA[:n]
    for extra in (b'\x00', b'\xd3\x14' + bytes(20), blobA[-22:]):
        yield 'extend', '+%d' % len(extra), blobA + extra
    pA, pB = build.read_packets(blobA), build.read_packets(blobB)
    cA, cB = pA[-1], pB[-1]
    if cA[0] == 18 and cB[0] == 18:
        bodyA, bodyB = cA[1], cB[1]
        esks = b''.join(r for t, b, r in pA[:-1])
        bs = 16
        nblk = (len(bodyA) - 1) // bs
        for i in range(0, min(nblk, 12)):
            for j in range(i + 1, min(nblk, 12)):
                if (i + j) % (3 if ctx.quick else 1) == 0:
                    m = bytearray(bodyA)
                    m[1 + i * bs:1 + (i + 1) * bs], m[1 + j * bs:1 + (j + 1) * bs] = bodyA[1 + j * bs:1 + (j + 1) * bs], bodyA[1 + i * bs:1 + (i + 1) * bs]
                    yield 'swap-blocks', '%d<->%d' % (i, j), esks + build.pkt(18, bytes(m))
        for at in range(1, min(len(bodyA), len(bodyB)), (bs if not full else 4) if len(bodyA) <= 20000 else (len(bodyA) // 150) // bs * bs + bs):
            yield 'splice', 'A[:%d]+B' % at, esks + build.pkt(18, bodyA[:at] + bodyB[at:])
            yield 'splice', 'B[:%d]+A' % at, esks + build.pkt(18, bodyB[:at] + bodyA[at:])
        yield 'replace-mdc', 'mdc of B', esks + build.pkt(18, bodyA[:-22] + bodyB[-22:])
        yield 'replace-mdc', 'zero mdc', esks + build.pkt(18, bodyA[:-20] + bytes(20))
        yield 'container', 'tag 18 -> 9 (no integrity protection)', esks + build.pkt(9, bodyA[1:])
        yield 'container', 'version 2', esks + build.pkt(18, b'\x02' + bodyA[1:])
        # ESK manipulations (neutral ones may decrypt to A; they must never give anything else)
        if len(pA) > 1:
            yield 'esk', 'duplicated', pA[0][2] + esks + cA[2]
            yield 'esk', 'dropped first', b''.join(r for t, b, r in pA[1:])
            yield 'esk', 'reversed', b''.join(r for t, b, r in reversed(pA[:-1])) + cA[2]
            yield 'esk', 'ESKs of B with container of A', b''.join(r for t, b, r in pB[:-1]) + cA[2]
            yield 'esk', 'container first', cA[2] + esks
        # packets added around the (untouched) encrypted container: number / order of packets changes, the encrypted data stays. An
        # unencrypted literal packet carries the attacker's text; nothing but the original plaintext may ever come out of decrypt()
        forged = build.pkt(11, b'b\x00' + bytes(4) + b'FORGED|F')
        marker = build.pkt(10, b'PGP')
        raws = [r for t, b, r in pA]
        for pos in range(len(raws) + 1):
            yield 'insert', 'literal before packet %d of %d' % (pos + 1, len(raws)), b''.join(raws[:pos]) + forged + b''.join(raws[pos:])
            yield 'insert', 'marker before packet %d of %d' % (pos + 1, len(raws)), b''.join(raws[:pos]) + marker + b''.join(raws[pos:])
        yield 'insert', 'container of B before container of A', esks + cB[2] + cA[2]
        yield 'insert', 'container of A before container of B with ESKs of A', esks + cA[2] + cB[2]
        yield 'insert', 'compressed forged literal first', build.pkt(8, b'\x00' + forged) + blobA
        # the encrypted container replaced by an unencrypted literal packet, the session-key packets kept (what is left over when a
        # damaged session-key packet swallows the container): still presented as an encrypted message, must not yield the literal
        yield 'replace-container', 'by a literal packet', esks + forged
        yield 'replace-container', 'by a compressed literal packet', esks + build.pkt(8, b'\x00' + forged)


def run(ctx):
    pgpy = import_pgpy()
    from pgpy.constants import SymmetricKeyAlgorithm, CompressionAlgorithm, KeyFlags
    ctx.assumptions += ['TLC/SANY', 'JSON marshalling', 'second-preimage resistance of SHA-1 inside the MDC construction and secrecy of the random prefix (symbolic model)',
                        'any exception counts as refusal']
    warnings.simplefilter('ignore')
    r = ctx.model('MC_Tamper', 'MC_Tamper_all', coverage=True)
    for act in ('Attack', 'Downgrade', 'WrongKey', 'Decrypt'):
        if r.coverage.get(act, (0, 0))[0] == 0:
            raise MachineryError('Tamper action %s never taken' % act)
    ctx.model('MC_Tamper', 'MC_Tamper_nomdc', must_hold=False)
    # a reader that decrypts containers without integrity protection like any other (AcceptSED = TRUE - PGPy as it is, open finding 55)
    # does NOT satisfy Integrity: TLC must find the downgrade + modification
    ctx.model('MC_Tamper', 'MC_Tamper_sed', must_hold=False)
    ctx.model('MC_Encrypt')
    ev = []
    W = c03.World(ctx)
    outsider = K.new_key('ed25519', name='Outsider', email='out@x.org', subs=[('cv25519', {KeyFlags.EncryptCommunications}), ('rsa2048', {KeyFlags.EncryptCommunications})])
    ciphers = [SymmetricKeyAlgorithm.AES256, SymmetricKeyAlgorithm.CAST5, SymmetricKeyAlgorithm.Camellia128] if not ctx.quick else [SymmetricKeyAlgorithm.AES128]
    plan = []
    for ci, cipher in enumerate(ciphers):
        for rk in ('cv25519', 'rsa', 'ecdh256'):
            for size in ((0, 31) if ctx.quick else (0, 1, 15, 16, 200)):
                plan.append((cipher, rk, size))
    # one message whose plaintext is longer than 64 KiB (the MDC covers all of it; most tampering positions lie beyond 64 KiB)
    plan.append((ciphers[0], 'cv25519', 70000))
    for n, (cipher, rk, size) in enumerate(plan):
        pub = pgpy.PGPKey.from_blob(bytes(W.own[rk].pubkey))[0]
        sk = cipher.gen_key()
        msgs = []
        for tagc in (b'A', b'B'):
            m = pgpy.PGPMessage.new(tagc * size + b'|' + tagc, compression=CompressionAlgorithm.Uncompressed if n % 2 == 0 else CompressionAlgorithm.ZLIB, format='b')
            msgs.append((m, bytes(pub.encrypt(m, cipher=cipher, sessionkey=sk))))
        originals = [sha(tagc * size + b'|' + tagc) for tagc in (b'A', b'B')]
        blobA, blobB = msgs[0][1], msgs[1][1]

        def opener(m, key=W.own[rk]):
            return key.decrypt(m)
        o, p = attempt(pgpy, blobA, opener)
        if o != 'returned' or p != originals[0]:
            raise MachineryError('untampered message does not decrypt (%s, %s)' % (rk, cipher))
        full = (not ctx.quick) and size <= 16 and rk != 'rsa'
        for action, region, blob in attacks(ctx, blobA, blobB, full):
            o, p = attempt(pgpy, blob, opener)
            ev.append({'k': 'tamper', 'action': action, 'region': region, 'recipient': rk, 'cipher': int(cipher), 'outcome': o, 'plain': p,
                       'originals': originals, 'wrongkey': False, 'size': size})
        # a private key that is not a recipient
        o, p = attempt(pgpy, blobA, lambda m: outsider.decrypt(m))
        ev.append({'k': 'tamper', 'action': 'non-recipient key', 'region': '-', 'recipient': rk, 'cipher': int(cipher), 'outcome': o, 'plain': p,
                   'originals': originals, 'wrongkey': True, 'size': size})
        # histories on ONE parsed message object: a refused attempt by an outsider, then the recipient, then the outsider again - the
        # outsider must be refused both times whatever the object has seen in between
        mobj = pgpy.PGPMessage.from_blob(blobA)
        for who, actor in (('outsider first', lambda m: outsider.decrypt(m)), ('recipient', opener), ('outsider after the recipient', lambda m: outsider.decrypt(m))):
            with warnings.catch_warnings():
                warnings.simplefilter('ignore')
                try:
                    d_ = actor(mobj)
                    c_ = d_.message
                    o, p = ('raised', '') if d_.is_encrypted else ('returned', sha(c_.encode('utf-8') if isinstance(c_, str) else bytes(c_)))
                except Exception:
                    o, p = 'raised', ''
            ev.append({'k': 'tamper', 'action': 'same message object: %s' % who, 'region': '-', 'recipient': rk, 'cipher': int(cipher), 'outcome': o, 'plain': p,
                       'originals': originals, 'wrongkey': who != 'recipient', 'size': size})
        # the PKESK relabelled to the outsider's subkey id: the outsider now "is addressed" but holds the wrong key
        pk = build.read_packets(blobA)
        body = bytearray(pk[0][1])
        alg = body[9]
        for sk_ in outsider.subkeys.values():
            if int(sk_.key_algorithm) == alg:
                body[1:9] = bytes.fromhex(sk_.fingerprint.keyid)
                o, p = attempt(pgpy, build.pkt(1, bytes(body)) + b''.join(r_ for t_, b_, r_ in pk[1:]), lambda m: outsider.decrypt(m))
                ev.append({'k': 'tamper', 'action': 'non-recipient key, key id relabelled', 'region': '-', 'recipient': rk, 'cipher': int(cipher), 'outcome': o,
                           'plain': p, 'originals': originals, 'wrongkey': True, 'size': size})
    # ---- passphrase messages: PGPy-made (few attempts: S2K count 255) and foreign-made with coded count 0 (many)
    m = pgpy.PGPMessage.new(b'passphrase protected', compression=CompressionAlgorithm.Uncompressed, format='b')
    blobP = bytes(m.encrypt('right passphrase', cipher=SymmetricKeyAlgorithm.AES256))
    origP = [sha(b'passphrase protected')]
    for pw, wk in (('right passphrase', False), ('wrong passphrase', True), ('', True), ('right passphrase ', True), ('Right passphrase', True),
                   # near misses: a passphrase is an octet string; anything but the exact one is a wrong one
                   ('right passphrase\n', True), ('right passphrase\r\n', True), ('right passphrase\t', True), (' right passphrase', True),
                   ('right passphrase\x00', True), ('right passphras', True), ('right  passphrase', True), ('right passphrase'.encode('utf-16-le').decode('latin-1'), True)):
        o, p = attempt(pgpy, blobP, lambda mm, pw=pw: mm.decrypt(pw))
        ev.append({'k': 'tamper', 'action': 'passphrase %r' % pw, 'region': '-', 'recipient': 'pw', 'cipher': 9, 'outcome': o, 'plain': p, 'originals': origP, 'wrongkey': wk, 'size': 20})
    # histories on ONE message object: a successful decryption must not make later wrong passphrases acceptable, and vice versa
    def on_same_object(obj, seq, label):
        for pw_, wk_ in seq:
            with warnings.catch_warnings():
                warnings.simplefilter('ignore')
                try:
                    d_ = obj.decrypt(pw_)
                    c_ = d_.message
                    o_, p_ = 'returned', sha(c_.encode('utf-8') if isinstance(c_, str) else bytes(c_))
                except Exception:
                    o_, p_ = 'raised', ''
            ev.append({'k': 'tamper', 'action': 'passphrase %r on the same object (%s)' % (pw_, label), 'region': '-', 'recipient': 'pw', 'cipher': 9, 'outcome': o_, 'plain': p_,
                       'originals': origP, 'wrongkey': wk_, 'size': 20, 'must_succeed': not wk_})
    on_same_object(pgpy.PGPMessage.from_blob(blobP), [('right passphrase', False), ('wrong passphrase', True), ('right passphrase', False)], 'parsed, right-wrong-right')
    on_same_object(pgpy.PGPMessage.from_blob(blobP), [('wrong passphrase', True), ('right passphrase', False), ('', True)], 'parsed, wrong-right-empty')
    fresh_enc = pgpy.PGPMessage.new(b'passphrase protected', compression=CompressionAlgorithm.Uncompressed, format='b').encrypt('right passphrase', cipher=SymmetricKeyAlgorithm.AES256)
    on_same_object(fresh_enc, [('wrong passphrase', True), ('right passphrase', False)], 'object returned by encrypt()')
    # the form `gpg -c` writes: the S2K output IS the session key (no encrypted session key in the SKESK packet), so every passphrase
    # "yields" a session key of the right size and only the prefix / MDC checks stand between a wrong passphrase and a result
    for alg_ in (9, 7, 3):
        fS, _ = enc.encrypt_message(build.pkt(11, b'b\x00' + bytes(4) + b'passphrase protected'), alg_, passphrases=[b'right passphrase'], esk_plain_session=True, s2k=(3, 8, 0))
        on_same_object(pgpy.PGPMessage.from_blob(fS), [('right passphrase', False), ('wrong passphrase', True), ('another wrong one', True), ('right passphrase', False), ('', True)],
                       'foreign, no encrypted session key, cipher %d, right-wrong-wrong-right-empty' % alg_)
        on_same_object(pgpy.PGPMessage.from_blob(fS), [('wrong passphrase', True), ('right passphrase', False), ('right passphrase ', True)],
                       'foreign, no encrypted session key, cipher %d, wrong-right-nearmiss' % alg_)
    cnt = 0
    for action, region, blob in attacks(ctx, blobP, blobP, False):
        if action == 'flip' and cnt % (6 if ctx.quick else 2) != 0:
            cnt += 1
            continue
        cnt += 1
        if action in ('truncate',) and cnt % (5 if ctx.quick else 2) != 0:
            continue
        o, p = attempt(pgpy, blob, lambda mm: mm.decrypt('right passphrase'))
        ev.append({'k': 'tamper', 'action': action, 'region': region, 'recipient': 'pw', 'cipher': 9, 'outcome': o, 'plain': p, 'originals': origP, 'wrongkey': False, 'size': 20})
    litA = build.pkt(11, b'b\x00' + b'\x00\x00\x00\x01' + b'foreign A')
    litB = build.pkt(11, b'b\x00' + b'\x00\x00\x00\x01' + b'foreign B')
    import os
    sk = os.urandom(16)
    fA, _ = enc.encrypt_message(litA, 7, passphrases=[b'pw'], sk=sk, s2k=(3, 8, 0))
    fB, _ = enc.encrypt_message(litB, 7, passphrases=[b'pw'], sk=sk, s2k=(3, 8, 0))
    mA = pgpy.PGPMessage.from_blob(fA).decrypt('pw')
    mB = pgpy.PGPMessage.from_blob(fB).decrypt('pw')
    origF = [sha(b'foreign A'), sha(b'foreign B')]
    for action, region, blob in attacks(ctx, fA, fB, not ctx.quick):
        o, p = attempt(pgpy, blob, lambda mm: mm.decrypt('pw'))
        ev.append({'k': 'tamper', 'action': action, 'region': region, 'recipient': 'pw-foreign', 'cipher': 7, 'outcome': o, 'plain': p, 'originals': origF, 'wrongkey': False, 'size': 9})
    # ---- downgrade: the integrity-protected container re-packed as a Symmetrically Encrypted Data packet (tag 9, no integrity
    #      protection) and decrypt() used as an oracle. The attacker (no key) keeps the first block + 2 octets (the quick check still passes),
    #      inserts one block X of his choice and replays original ciphertext from a block boundary on: the plaintext is two garbage blocks,
    #      then original plaintext. He tries values of X until the garbage happens to be a Marker packet (which the message reader skips)
    #      whose length lands on a packet boundary inside the victim's plaintext - here a binary body that ends with octets the attacker
    #      supplied (a quoted attachment): marker packets as landing pads and a literal packet with his text.
    BS = 16
    evil_text = b'PAY MALLORY 1000000'
    evil = build.pkt(11, b'b\x00' + bytes(4) + evil_text)
    pads = b''.join(build.pkt(10, b'PGP' + bytes(11)) for _ in range(12))
    honest = b'Quarterly figures attached. Do not pay anything to Mallory.\n'
    for fill in range(16):
        body_ = honest + b' ' * fill + pads + evil
        lit_hdr = len(build.pkt(11, b'b\x00' + bytes(4) + body_)) - len(body_)
        if (BS + 2 + lit_hdr + len(honest) + fill) % BS == 0:
            break
    fD, _ = enc.encrypt_message(build.pkt(11, b'b\x00' + bytes(4) + body_), 7, passphrases=[b'pw'], s2k=(0, 8, 0))
    pk_ = build.read_packets(fD)
    esk_ = b''.join(r for t_, b, r in pk_ if t_ == 3)
    ct_ = next(b for t_, b, r in pk_ if t_ == 18)[1:]
    pad_block = (BS + 2 + lit_hdr + len(honest) + fill) // BS
    replay_ = ct_[(pad_block - 1) * BS:]
    origD = [sha(body_)]
    first = None
    tries = 0
    for x in range(65536 if not ctx.quick else 24000):
        tries += 1
        forged = esk_ + build.pkt(9, ct_[:BS + 2] + bytes([x & 0xff, x >> 8]) + bytes(BS - 2) + replay_)
        o, p = attempt(pgpy, forged, lambda mm: mm.decrypt('pw'))
        if o == 'returned' and p not in origD:
            first = (x, p)
            break
    ctx.extra['downgrade_oracle_tries'] = tries
    ev.append({'k': 'tamper', 'action': 'downgrade to a tag-9 packet, decrypt() as an oracle over two octets', 'region': 'container', 'recipient': 'pw-foreign', 'cipher': 7,
               'outcome': 'returned' if first else 'raised', 'plain': first[1] if first else '', 'originals': origD, 'wrongkey': False, 'size': len(body_),
               'note': ('try %d returned %s' % (first[0], 'the text the attacker planted' if first[1] == sha(evil_text) else 'another plaintext')) if first else 'no value accepted in %d tries' % tries})
    for e in ev:
        ctx.case((e['action'], e['region'], e['recipient'], e['cipher'], e['size']))
    for j in (0, len(ev) // 3, len(ev) // 2, len(ev) - 1):
        ctx.sample(ev[j])
    rej = ctx.judge('Trace_Enc', ev, chunk=20000)
    ctx.traces += len(ev) - len(rej)
    bad = {i for i, _ in rej}
    good = [e for i, e in enumerate(ev) if i not in bad]
    ctx.selftest(lambda b: ctx.judge('Trace_Enc', b), good,
                 [('a tampered message returned some other plaintext', lambda e: dict(e, outcome='returned', plain='0' * 64) if e['outcome'] == 'raised' and not e['wrongkey'] else None),
                  ('a wrong key returned the original', lambda e: dict(e, outcome='returned', plain=e['originals'][0]) if e['wrongkey'] and e['outcome'] == 'raised' else None)], 'C04')
    oc = {}
    for e in ev:
        k = '%s/%s' % (e['action'].split(' ')[0], 'raised' if e['outcome'] == 'raised' else ('original' if e['plain'] in e['originals'] else 'OTHER'))
        oc[k] = oc.get(k, 0) + 1
    ctx.extra['attempts'] = len(ev)
    ctx.extra['outcomes'] = oc
    if sum(v for k, v in oc.items() if k.endswith('/original')) < 5:
        raise MachineryError('no attack variant ever decrypts: the harness is not reaching the decryptor (%s)' % oc)
    for idx, clause in rej:
        e = ev[idx]
        ctx.violation(clause, '%s %s recipient=%s' % (e['action'].split(' ')[0], e['region'].split(' ')[0] if e['action'] == 'flip' else '-', e['recipient']), {'event': e})
    return ctx.finish(level='model_checking',
                      rule='attacks concretised on real messages: every region of every packet (all bits of small messages in the thorough tier, seeded bits '
                           'otherwise), truncation, extension, block swaps, splices between two messages under one session key, MDC replacement, container '
                           'downgrade, ESK drop/duplicate/reorder/exchange, wrong passphrases, non-recipient keys; distinct = distinct (action, region, recipient, cipher, size)',
                      exhaustive=False)


def replay(ctx, rep):
    print(rep['detail'])
    return 0
