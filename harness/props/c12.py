"""C12 - string-to-key derivation equals RFC 4880 section 3.7.1.

Spec: spec/S2K.tla (Unit, StreamLen, Cycle, NCtx, ContextInput, Assemble).
  MC_S2K      stream-length / cycle / context-count facts for all 256 coded counts x unit lengths 0..80 x 3 specifiers
  Trace_C12   every String2Key.derive_key call recorded with the harness's claimed stream descriptors and the hashlib
              digests of those streams; TLC validates the descriptors against the spec (so the harness's own stream
              construction is not trusted), the explicit expansion for short streams, and PGPy's key = Assemble(digests)
"""
import hashlib

from ..common import import_pgpy, octets

HASHES = [('MD5', 'md5', 128), ('SHA1', 'sha1', 160), ('RIPEMD160', 'ripemd160', 160), ('SHA224', 'sha224', 224),
          ('SHA256', 'sha256', 256), ('SHA384', 'sha384', 384), ('SHA512', 'sha512', 512)]
CIPHERS = [('CAST5', 128), ('TripleDES', 192), ('AES256', 256), ('AES128', 128), ('Camellia192', 192), ('Blowfish', 128)]


def passphrases(ctx):
    out = [b'', b'a', b'1234567', b'12345678', b'123456789', b'x' * 63, b'y' * 64, b'z' * 65,
           'pässwörd'.encode('utf-8'), 'パスワード', 'naïve ☃ snow', bytes(range(256)), b'\x00\x00', bytes([0xff, 0xfe, 0x80]),
           ('long-' * 800)[:4000].encode(), 'correct horse battery staple']
    for _ in range(4 if ctx.quick else 40):
        n = ctx.rng.choice([2, 5, 13, 31, 100, 1000, 3000])
        out.append(bytes(ctx.rng.randrange(256) for _ in range(n)))
    return out


def one(spec, hname, hlib, hbits, cname, kbits, salt, c, pw, explicit_limit=400, used=False):
    import_pgpy()
    from pgpy.packet.fields import String2Key
    from pgpy.constants import HashAlgorithm, SymmetricKeyAlgorithm, String2KeyType
    s = String2Key()
    s.usage = 254
    s.encalg = getattr(SymmetricKeyAlgorithm, cname)
    s.specifier = String2KeyType(spec)
    s.halg = getattr(HashAlgorithm, hname)
    s.salt = bytearray(salt)
    s.count = c
    pwb = pw if isinstance(pw, bytes) else pw.encode('utf-8')
    if used:
        # the key is a function of (specifier, hash, salt, count, passphrase), not of what the object derived before
        try:
            s.derive_key('an earlier, different passphrase')
            # ... nor of the parameters the object had when it last derived from the SAME passphrase (protect() re-parameterises
            # the specifier of a key it has unlocked before)
            s.salt = bytearray(bytes(salt)[::-1])
            s.halg = HashAlgorithm.SHA1 if hname != 'SHA1' else HashAlgorithm.SHA256
            s.count = (c + 17) % 256 if c < 100 else c
            s.derive_key(pw)
            s.salt = bytearray(salt)
            s.halg = getattr(HashAlgorithm, hname)
            s.count = c
        except Exception:
            pass
    try:
        key = octets(s.derive_key(pw))
    except Exception as ex:
        key = [256]
    # harness proposal of the RFC stream (validated by TLC, not trusted)
    unit = pwb if spec == 0 else bytes(salt) + pwb
    n = len(unit)
    if spec == 3:
        n = max((16 + (c & 15)) << ((c >> 4) + 6), len(unit))
    nctx = (kbits + hbits - 1) // hbits
    if len(unit):
        stream = (unit * (n // len(unit) + 1))[:n]
    else:
        stream = b''
    ctxs = []
    for i in range(nctx):
        h = hashlib.new(hlib)
        h.update(b'\x00' * i)
        h.update(stream)
        d = {'zeros': i, 'unit': octets(unit), 'len': n, 'digest': octets(h.digest())}
        if n + i <= explicit_limit:
            d['exp'] = octets(b'\x00' * i + stream)
        ctxs.append(d)
    return {'spec': spec, 'halg': hname, 'hbits': hbits, 'cipher': cname, 'kbits': kbits, 'salt': octets(salt), 'c': c,
            'pass': octets(pwb), 'ctx': ctxs, 'key': key, 'passtype': type(pw).__name__}


def cases(ctx):
    pws = passphrases(ctx)
    salts = [bytes(8), bytes(range(1, 9)), b'\xff' * 8]
    out = []
    # every coded count once (rotating hash / cipher / passphrase); big counts use fast hashes
    for c in range(256):
        h = HASHES[c % 7] if c < 200 else HASHES[[1, 4, 0][c % 3]]
        ci = CIPHERS[c % len(CIPHERS)]
        out.append((3, h, ci, salts[c % 3], c, pws[(c * 5) % len(pws)]))
    # three specifiers x seven hashes x key sizes x passphrase classes with small counts
    small_counts = [0, 1, 15, 16, 17, 96] if ctx.quick else [0, 1, 2, 15, 16, 17, 31, 32, 95, 96, 97, 128]
    combos = []
    for spec in (0, 1, 3):
        for h in HASHES:
            for ci in CIPHERS[:3] if ctx.quick else CIPHERS:
                for pi, pw in enumerate(pws):
                    combos.append((spec, h, ci, salts[(pi + spec) % 3], small_counts[(pi + ci[1] + h[2]) % len(small_counts)] if spec == 3 else 0, pw))
    if ctx.quick:
        # pairwise-ish thinning: keep every 3rd combination plus all with the boundary passphrases
        combos = [x for j, x in enumerate(combos) if j % 3 == 0 or x[5] in (b'', b'a', b'y' * 64, b'z' * 65)]
    out += combos
    # the boundary of the octet count against the length of salt + passphrase (3.7.1.3: a count smaller than that still hashes the whole of
    # salt + passphrase): every passphrase length from 18 below to 2 above the decoded count, for counts 1024 (coded 0), 1088 (1), 2048 (16)
    for c, cnt in ((0, 1024), (1, 1088), (16, 2048)):
        for d in range(-18, 3):
            if not ctx.quick or c == 0 or d % 3 == 0:
                pw = bytes((i * 7 + d) % 251 + 1 for i in range(cnt + d))
                out.append((3, HASHES[(d + 18) % 7], CIPHERS[(d + 18) % 3], salts[(d + 18) % 3], c, pw))
    if not ctx.quick:
        # all counts x SHA-256 x AES-256 (two contexts... no: one) and x MD5 x AES-256 (two contexts)
        for c in range(0, 200):
            out.append((3, HASHES[0], CIPHERS[2], salts[1], c, pws[c % len(pws)]))
    return out


def classify(e):
    if e['pass'] == [] and e['spec'] == 0:
        return 'simple-empty-passphrase'
    return 'spec=%d hash=%s kbits=%d passlen=%d' % (e['spec'], e['halg'], e['kbits'], len(e['pass']))


REPLAY_EXACT = True      # replay() re-executes exactly the stored case


def run(ctx):
    ctx.assumptions += ['TLC/SANY', 'JSON marshalling', 'hashlib digests of streams whose descriptors TLC validated',
                        'for streams longer than 400 octets the harness\'s expansion Cycle(unit, n) is trusted (descriptor checked, expansion checked only for short streams)']
    ctx.model('MC_S2K')
    ev = []
    for spec, h, ci, salt, c, pw in cases(ctx):
        ev.append(one(spec, h[0], h[1], h[2], ci[0], ci[1], salt, c, pw, used=(len(ev) % 3 == 2 and (spec != 3 or c < 120))))
        ctx.case((spec, h[0], ci[1], c, bytes(ev[-1]['pass'])[:40], len(ev[-1]['pass'])))
    for j in (0, 300, len(ev) // 2, len(ev) - 1):
        e = ev[j]
        ctx.sample({'spec': e['spec'], 'halg': e['halg'], 'kbits': e['kbits'], 'c': e['c'], 'passlen': len(e['pass']),
                    'contexts': [{'zeros': x['zeros'], 'len': x['len']} for x in e['ctx']], 'key': bytes(e['key']).hex() if 256 not in e['key'] else 'raised'})
    rej = ctx.judge('Trace_C12', ev, chunk=400)
    ctx.traces += len(ev) - len(rej)
    bad = {i for i, _ in rej}
    good = [e for i, e in enumerate(ev) if i not in bad and len(e['pass']) < 100][::11]

    def c_key(e):
        e['key'][0] ^= 1
        return e

    def c_len(e):
        e['ctx'][0]['len'] += 1
        return e

    def c_zeros(e):
        if len(e['ctx']) < 2:
            return None
        e['ctx'][1]['zeros'] = 0
        return e
    ctx.selftest(lambda b: ctx.judge('Trace_C12', b), good, [('derived key octet', c_key), ('stream length of context 0', c_len), ('preload zeros of context 1', c_zeros)], 'C12')
    ctx.extra['derivations'] = len(ev)
    ctx.extra['multi_context_derivations'] = sum(1 for e in ev if len(e['ctx']) > 1)
    for idx, clause in rej:
        e = ev[idx]
        if clause.startswith('C12.harness'):
            from ..common import MachineryError
            raise MachineryError('TLC rejected the harness\'s own stream proposal (%s) for %s' % (clause, classify(e)))
        ctx.violation(clause, classify(e), {'case': {k: e[k] for k in ('spec', 'halg', 'cipher', 'kbits', 'salt', 'c', 'pass', 'key')}})
    return ctx.finish(level='model_checking',
                      rule='all 256 coded counts once; specifier x 7 hashes x cipher key sizes x passphrase classes (empty, 1, 7, 8, 9, 63, 64, 65, '
                           '4000 octets, UTF-8 str, raw bytes) thinned in the quick tier; distinct = distinct (spec, hash, key size, count, passphrase)',
                      exhaustive=False)


def replay(ctx, rep):
    c = rep['detail']['case']
    h = next(x for x in HASHES if x[0] == c['halg'])
    e = one(c['spec'], h[0], h[1], h[2], c['cipher'], c['kbits'], bytes(c['salt']), c['c'], bytes(c['pass']))
    rej = ctx.judge('Trace_C12', [e])
    print('re-derived:', 'key=%s' % e['key'][:8], rej or 'accepted')
    return 1 if rej else 0
