"""C05 - the hashed subpacket area is verified verbatim, exactly as received.

Spec: spec/Subpackets.tla (HashedRegion = octets as on the wire), spec/SigHash.tla (Trailer), spec/Verbatim.tla
(algorithm spec: what a parse-then-reserialise implementation feeds to the hash, per subpacket class).
  MC_Verbatim   over a catalogue of subpacket classes x length encodings: "raw" mode is verbatim; the
                "reserialise" mode (the code as found) must produce counterexamples (spec mutation)
  Trace_Sig     foreign signatures made by the independent signer (TLC validates each packet and the octets
                it was signed over) with hashed areas over all types 0..127 x critical x body classes x three
                length encodings; PGPy must feed Trailer(wire) to the hash (C05.verbatim) and verify them
                (C05.foreign-verifies); every single-bit flip of the hashed region must not verify (C05.bitflip)
"""
import struct
import warnings

from .. import build, sigs
from ..common import MachineryError, import_pgpy

FIXED = {2: 4, 3: 4, 4: 1, 5: 2, 7: 1, 9: 4, 12: 22, 16: 8, 25: 1, 33: 21, 35: 21}
KNOWN = {2, 3, 4, 5, 6, 7, 9, 11, 12, 16, 20, 21, 22, 23, 24, 25, 26, 27, 28, 29, 30, 32, 33, 35, 37}
TEXT = {6, 24, 26, 28}
FLAGS = {23, 27, 30}
PREFS = {11: [9, 8, 7, 2, 3, 4], 21: [8, 9, 10, 11, 2, 1, 3], 22: [0, 1, 2, 3]}


def bodies(t, rng, quick):
    """well-formed bodies for subpacket type t, as (class name, octets)."""
    out = []
    if t == 2 or t == 3 or t == 9:
        out += [('time', struct.pack('>I', v)) for v in (0, 1, 86400 * 365, 2 ** 31, 2 ** 32 - 1)]
    elif t in (4, 7, 25):
        out += [('bool-%d' % v, bytes([v])) for v in (0, 1, 2, 255)]
    elif t == 5:
        out += [('trust', bytes([a, b])) for a, b in ((0, 0), (1, 60), (2, 120), (255, 255))]
    elif t == 12:
        out += [('revkey', bytes([c, 22]) + bytes(range(20))) for c in (0x80, 0xC0)]
    elif t == 16:
        out += [('issuer', bytes(range(8)))]
    elif t in (33, 35):
        # version 4 (20 octets), version 5 / 6 (32 octets), a version of another length (16 octets of a version 3 MD5 fingerprint)
        out += [('fpr', b'\x04' + bytes(range(20))), ('fpr-v5', b'\x05' + bytes(range(32))), ('fpr-v6', b'\x06' + bytes(range(32))), ('fpr-v3', b'\x03' + bytes(range(16)))]
    elif t in TEXT:
        texts = [b'', b'plain ascii', 'ünï©ode ✓'.encode('utf-8'), b'\xff\xfe latin?\xe9', b'a' * 300]
        if t == 6:
            texts = [x + b'\x00' for x in texts]
        out += [('text-%d' % n, x) for n, x in enumerate(texts)]
    elif t == 29:
        out += [('reason-%d' % n, bytes([c]) + x) for n, (c, x) in enumerate([(0, b''), (1, b'superseded'), (32, 'üñí'.encode('utf-8')), (3, b'\xe9\xe8'), (100, b'private'), (110, b''), (7, b'unassigned code'), (255, b'')])]
    elif t in FLAGS:
        vals = list(range(256)) if not quick else [0, 1, 2, 3, 4, 8, 16, 32, 64, 128, 0x2f, 0x40, 0x7f, 0x80, 0xff]
        out += [('flag-%02x' % v, bytes([v])) for v in vals]
        out += [('flags-multi-%d' % n, x) for n, x in enumerate([b'', b'\x03\x00', b'\x00\x01', b'\x01\x02\x04\x08', b'\xff\xff\xff'])]
    elif t in PREFS:
        ids = PREFS[t]
        out += [('prefs-%d' % n, bytes(x)) for n, x in enumerate([[], ids[:1], ids, ids[::-1], ids[:2] * 3])]
        # identifiers this implementation does not know (algorithms assigned later, private-use ids): a preference list is a list of octets
        out += [('prefs-unknown-id', bytes(list(ids[:2]) + [99, 110, 12]))]
    elif t == 20:
        def nd(flags, name, val):
            return bytes(flags) + struct.pack('>HH', len(name), len(val)) + name + val
        out += [('notation-%d' % n, x) for n, x in enumerate([
            nd([0x80, 0, 0, 0], b'name@example.org', b'value'), nd([0, 0, 0, 0], b'bin@example.org', bytes(range(256))),
            nd([0x80, 0, 0, 0], 'nöte@example.org'.encode('utf-8'), 'välue ✓'.encode('utf-8')), nd([0x80, 1, 2, 3], b'n@x', b''),
            nd([0x80, 0, 0, 0], b'', b''), nd([0xC0, 0, 0, 0], b'n@x', b'\xff\xfe')])]
    elif t == 31:
        out += [('sigtarget', bytes([22, 8]) + bytes(32))]
    elif t == 32:
        out += [('embedded', None)]      # filled in by the caller (needs a real signature)
    elif t == 37:
        out += [('attested-%d' % n, x) for n, x in enumerate([b'', bytes(32), bytes(range(64))])]
    else:
        # unknown / reserved / private types: opaque bodies of many lengths
        lens = [0, 1, 2, 5, 190, 191, 192, 300] if not quick else [0, 1, 7, 191, 300]
        out += [('opaque-%d' % n, bytes((i * 7 + t) % 256 for i in range(n))) for n in lens]
    return out


def foreign_signature_events(ctx, blobs):
    pgpy = import_pgpy()
    fk = build.ForeignKey('ed25519')
    sk = build.ForeignKey('ed25519', created=1262304100)
    uid = b'Foreign Signer <foreign@example.org>'
    kblob = build.transferable_key(fk, [uid], subkeys=[(sk, 0x02)])
    pub = pgpy.PGPKey.from_blob(kblob)[0]
    doc = b'the signed document\n'
    embedded_body = build.read_packets(build.sig_packet(sk, 0x19, 'sha256', [], [], build.subject_octets(0x19, primary=fk.pub_body, sub=sk.pub_body),
                                                         created=1262304200)[0])[0][1]
    ev = []
    copies = []
    kept = []      # (packet, hin) of accepted ones for the bit-flip stage
    types = range(0, 128)
    for t in types:
        for cname, body in bodies(t, ctx.rng, ctx.quick):
            if body is None:
                body = embedded_body
            for critical in (False, True):
                forms = [None, 2, 5] if not ctx.quick or t in (2, 27, 20, 24, 100) or cname.startswith('opaque-7') else [None, ctx.rng.choice([2, 5])]
                for form in forms:
                    if form == 2 and len(body) + 1 < 192:
                        continue
                    if t == 2:
                        hashed = [build.subpacket(2, body, critical, form)]
                        created = None
                    else:
                        hashed = [build.subpacket(t, body, critical, form)]
                        created = 1262305000
                    try:
                        pkt, hin = build.sig_packet(fk, 0x00, 'sha256', hashed, [], build.subject_octets(0x00, doc=doc), created=created)
                    except ValueError:
                        continue
                    ev.append(record_foreign(ctx, blobs, pub, pkt, hin, doc, t, critical, cname, form, kept, copies))
    # several subpackets in arbitrary order, hashed issuer, several creation times (foreign choices PGPy never makes)
    pool = [build.subpacket(27, b'\x03'), build.subpacket(100, b'private'), build.subpacket(20, bytes([0x80, 0, 0, 0]) + struct.pack('>HH', 3, 1) + b'n@x1'),
            build.subpacket(26, b'https://example.org/policy'), build.subpacket(4, b'\x01'), build.subpacket(30, b'\x07'),
            build.subpacket(2, struct.pack('>I', 1262305001)), build.subpacket(9, struct.pack('>I', 86400 * 700)), build.subpacket(7, b'\x00')]
    for n in range(60 if ctx.quick else 600):
        k = ctx.rng.randrange(2, 6)
        hashed = ctx.rng.sample(pool, k)
        issuer_in = ctx.rng.choice(['unhashed', 'hashed'])
        pkt, hin = build.sig_packet(fk, 0x00, ctx.rng.choice(['sha256', 'sha512', 'sha1']), hashed, [], build.subject_octets(0x00, doc=doc),
                                    created=1262305000 if ctx.rng.random() < 0.8 else None, issuer_in=issuer_in)
        if not any(h[1] & 0x7f == 2 for h in hashed) and b'\x05\x02' not in pkt[:40]:
            # without any creation time the packet is not well-formed; force one
            pkt, hin = build.sig_packet(fk, 0x00, 'sha256', hashed, [], build.subject_octets(0x00, doc=doc), created=1262305000, issuer_in=issuer_in)
        ev.append(record_foreign(ctx, blobs, pub, pkt, hin, doc, -1, False, 'multi-%d' % k, None, kept, copies))
    # the same subpacket type in BOTH areas (issuer key id / issuer fingerprint / creation time / a private type given hashed and repeated
    # unhashed, as several implementations do), with a hashed area PGPy would not encode this way itself
    odd = [('boolean 2', build.subpacket(7, b'\x02')), ('unassigned flag bits', build.subpacket(27, b'\x43')), ('five-octet length', build.subpacket(100, b'abc', form=5)),
           ('two-octet length', build.subpacket(26, b'https://example.org/' + b'p' * 200, form=2)), ('utf-8 policy', build.subpacket(26, 'https://example.org/\xfcn'.encode('utf-8')))]
    both = [('issuer', build.subpacket(16, fk.keyid), 'none'), ('issuer fingerprint', build.subpacket(33, b'\x04' + fk.fingerprint), 'unhashed'),
            ('creation time', build.subpacket(2, struct.pack('>I', 1262305000)), 'unhashed'), ('private type', build.subpacket(100, b'abc'), 'unhashed'),
            ('policy', build.subpacket(26, b'https://example.org/p'), 'hashed')]
    for oname, osp in odd:
        for bname, bsp, issuer_in in both:
            for order in (0, 1):
                hashed = [osp, bsp] if order == 0 else [bsp, osp]
                pkt, hin = build.sig_packet(fk, 0x00, 'sha256', hashed, [bsp], build.subject_octets(0x00, doc=doc),
                                            created=None if bname == 'creation time' else 1262305000, issuer_in=issuer_in)
                ev.append(record_foreign(ctx, blobs, pub, pkt, hin, doc, -1, False, 'both-areas: %s + %s (%d)' % (bname, oname, order), None, kept, copies))
    # hashed areas of several thousand octets (a long notation value, many attested digests) that ALSO carry things the typed classes would
    # normalise: whatever the size of the area, it is hashed and written back as received
    for size in (3000, 4090, 4100, 6000, 20000):
        big = build.subpacket(20, bytes([0x80, 0, 0, 0]) + struct.pack('>HH', 8, size) + b'big@note' + bytes((i * 7) % 251 for i in range(size)))
        extras = [build.subpacket(27, b'\x43'), build.subpacket(7, b'\x02'), build.subpacket(26, 'https://example.org/\xfcn\xef'.encode('utf-8')), build.subpacket(100, b'private')]
        pkt, hin = build.sig_packet(fk, 0x00, 'sha256', [big] + extras, [], build.subject_octets(0x00, doc=doc), created=1262305000)
        ev.append(record_foreign(ctx, blobs, pub, pkt, hin, doc, 20, False, 'large-area-%d' % size, None, kept, copies))
    ev += copies
    ev += key_carried_events(ctx, blobs)
    return ev, kept, pub, kblob, fk, doc


def key_carried_events(ctx, blobs):
    """foreign self-certifications with subpackets PGPy's typed classes would normalise, carried inside a (secret) key:
    they must still verify on the derived public key, on copies and after export / import."""
    import copy
    pgpy = import_pgpy()
    ev = []
    variants = [('unassigned key-flag bits', dict(flags=0x43)), ('two flag octets', dict(extra_hashed=[build.subpacket(27, b'\x03\x01')])),
                ('utf-8 policy and notation', dict(extra_hashed=[build.subpacket(26, 'https://example.org/ünï'.encode('utf-8')),
                                                                 build.subpacket(20, bytes([0x80, 0, 0, 0]) + struct.pack('>HH', 5, 4) + 'n@ü'.encode('utf-8')[:5].ljust(5, b'x') + 'vä'.encode('utf-8') + b'l')])),
                ('boolean 2 and unknown features', dict(extra_hashed=[build.subpacket(7, b'\x02'), build.subpacket(30, b'\x07'), build.subpacket(23, b'\xff')])),
                ('five-octet subpacket lengths', dict(extra_hashed=[build.subpacket(100, b'abc', form=5), build.subpacket(9, struct.pack('>I', 86400 * 365 * 60), form=5)]))]
    for label, kw in variants:
        fk = build.ForeignKey('ed25519')
        uid = b'Carried <carried@example.org>'
        sblob = build.transferable_key(fk, [uid], secret=True, **kw)
        pblob = build.transferable_key(fk, [uid], **kw)
        sigpkt = next(r for t_, b, r in build.read_packets(pblob) if t_ == 2)
        body = next(b for t_, b, r in build.read_packets(pblob) if t_ == 2)
        f = build.read_sig_body(body)
        hin = build.subject_octets(0x13, primary=fk.pub_body, uid=uid) + bytes(f['region']) + b'\x04\xff' + struct.pack('>I', len(f['region']))
        try:
            sec = pgpy.PGPKey.from_blob(sblob)[0]
        except Exception as ex:
            ctx.note('foreign secret key not importable (%s): %s' % (label, repr(ex)[:80]))
            continue
        routes = [('derived public key', lambda: sec.pubkey), ('copy of the secret key', lambda: copy.copy(sec)),
                  ('copy of the derived public key', lambda: copy.copy(sec.pubkey)),
                  ('export and import of the derived public key', lambda: pgpy.PGPKey.from_blob(bytes(sec.pubkey))[0])]
        for rname, route in routes:
            e = {'k': 'foreign', 'sig': blobs.add(sigpkt), 'subj': sigs.subj_cert(blobs, pblob, fk.fingerprint.hex(), uid), 'signed_over': blobs.add(hin),
                 'sptype': -2, 'critical': False, 'cls': 'carried in key: %s / %s' % (label, rname), 'form': None, 'clause': 'C05.foreign-verifies', 'accepted': True}
            try:
                kk = route()
                u = kk.userids[0]
                s_ = u.selfsig
                e['hashdata'] = blobs.add(s_.hashdata(u))
                vk = kk if kk.is_public else kk.pubkey
                e['result'] = e['observed'] = sigs.verify_outcome(vk, u, s_)
            except Exception as ex:
                e['result'] = e['observed'] = 'raised'
            ev.append(e)
    return ev


def embedded_flip_events(ctx, blobs):
    """the back-signature (0x19) embedded in a signing subkey's binding signature is a signature too: every bit of its header and hashed
    area flipped inside a key from the independent encoder; the key is re-imported and verified with itself."""
    pgpy = import_pgpy()
    from pgpy.constants import SignatureType
    ev = []
    fk = build.ForeignKey('ed25519')
    sk = build.ForeignKey('ed25519', created=fk.created + 7)
    kblob = build.transferable_key(fk, [b'Embedded <emb@example.org>'], subkeys=[(sk, 0x02)])
    bind_body = [b for t_, b, r in build.read_packets(kblob) if t_ == 2][-1]
    fb = build.read_sig_body(bind_body)
    unh = bytes(fb['unhashed'])
    assert unh[1] == 32, 'embedded signature expected first in the unhashed area'
    cross = unh[2:2 + unh[0] - 1]
    off = kblob.find(cross)
    fc = build.read_sig_body(cross)
    region = len(fc['region'])
    osig = blobs.add(build.pkt(2, cross))
    vkb = blobs.add(kblob)
    osubj = sigs.subj_keys(blobs, kblob, fk.fingerprint.hex(), sk.fingerprint.hex())
    signer = {'kb': vkb, 'idx': sigs.key_index(kblob, sk.fingerprint.hex())}

    def outcome(blob):
        with warnings.catch_warnings():
            warnings.simplefilter('ignore')
            try:
                pub = pgpy.PGPKey.from_blob(blob)[0]
                r = pub.verify(pub)
                good = [x for x in r.good_signatures if x.signature.type == SignatureType.PrimaryKey_Binding]
                return 'truthy' if good else 'falsy'
            except Exception:
                return 'raised'
    if outcome(kblob) != 'truthy':
        raise MachineryError('the embedded back-signature of the foreign key does not verify unmodified')
    for bit in range(region * 8):
        m = bytearray(kblob)
        m[off + bit // 8] ^= 1 << (bit % 8)
        res = outcome(bytes(m))
        mcross = bytes(m[off:off + len(cross)])
        ev.append({'k': 'attempt', 'osig': osig, 'osubj': osubj, 'signer': signer, 'asig': blobs.add(build.pkt(2, mcross)) if res == 'truthy' else 0, 'asubj': osubj, 'vkb': vkb,
                   'result': res, 'mut': 'bit %d of hashed region (sp type 32 embedded back-signature)' % bit})
    return ev


def record_foreign(ctx, blobs, pub, pkt, hin, doc, t, critical, cname, form, kept, copies=None):
    e = {'k': 'foreign', 'sig': blobs.add(pkt), 'subj': sigs.subj_doc(blobs, doc), 'signed_over': blobs.add(hin),
         'sptype': t, 'critical': critical, 'cls': cname, 'form': form, 'clause': 'C05.foreign-verifies'}
    s = sigs.parse_sig(pkt)
    if s is None:
        # refusing to read a packet is outside the property, except for the well-formed hashed subpackets it names explicitly or by kind
        # ... a revocation reason code is an octet like a preference id: private-use (100-110) and unassigned codes are legal (5.2.3.23)
        e.update({'accepted': cname.startswith('prefs-unknown-id') or (t == 29 and cname.startswith('reason-')), 'result': 'raised'})
        return e
    e['accepted'] = True
    try:
        e['hashdata'] = blobs.add(s.hashdata(doc))
    except Exception:
        e['accepted'] = False          # cannot even compute: treated as rejection of the packet
        e['result'] = 'raised'
        return e
    res = sigs.verify_outcome(pub, doc, s)
    if copies is not None and res == 'truthy':
        # the same signature after the object has been copied (copy.copy): still the received octets, still verifies
        import copy
        try:
            s2 = copy.copy(s)
            e2 = dict(e)
            e2['cls'] = cname + ' (after copy)'
            e2['hashdata'] = blobs.add(s2.hashdata(doc))
            e2['result'] = e2['observed'] = sigs.verify_outcome(pub, doc, s2)
            if bytes(s2) != bytes(pkt) and bytes(s2) != bytes(s):
                e2['result'] = 'falsy'
            copies.append(e2)
        except Exception as ex:
            e2 = dict(e)
            e2.update({'cls': cname + ' (after copy)', 'result': 'raised', 'observed': 'raised'})
            copies.append(e2)
    if critical and t not in KNOWN and res != 'truthy':
        # a critical subpacket the implementation does not understand: RFC 4880 5.2.3.1 lets (asks) it to refuse
        e['clause'] = 'ok-critical-unknown'
        res_for_spec = 'truthy'
    else:
        res_for_spec = res
    e['result'] = res_for_spec
    e['observed'] = res
    if res == 'truthy':
        kept.append((pkt, hin, t, cname))
    return e


def rsa_signer_events(ctx, blobs):
    """the header octets (version, type, public-key algorithm, hash algorithm) are part of the hashed region too: foreign RSA
    signers with algorithm id 1 and with the deprecated sign-only id 3, whose header differs in exactly that octet."""
    pgpy = import_pgpy()
    fev, bev = [], []
    doc = b'signed by an RSA key\n'
    for kind in ('rsa2048', 'rsa2048#3'):
        fk = build.ForeignKey(kind)
        kblob = build.transferable_key(fk, [('RSA %s <r@example.org>' % kind).encode()])
        with warnings.catch_warnings():
            warnings.simplefilter('ignore')
            try:
                pub = pgpy.PGPKey.from_blob(kblob)[0]
            except Exception as ex:
                ctx.note('foreign %s key not loadable: %s' % (kind, repr(ex)[:80]))
                continue
        kept = []
        for t, body in ((27, b'\x03'), (100, b'private'), (26, b'https://example.org/p')):
            pkt, hin = build.sig_packet(fk, 0x00, 'sha256', [build.subpacket(t, body)], [], build.subject_octets(0x00, doc=doc), created=1262305000)
            fev.append(record_foreign(ctx, blobs, pub, pkt, hin, doc, t, False, '%s-signer' % kind, None, kept))
        bev += bitflip_events(ctx, blobs, kept[:1] if ctx.quick else kept, pub, kblob, fk, doc, maxlen=4000)
    return fev, bev


def bitflip_events(ctx, blobs, kept, pub, kblob, fk, doc, maxlen=200):
    ev = []
    vkb = blobs.add(kblob)
    signer = {'kb': vkb, 'idx': sigs.key_index(kblob, fk.fingerprint.hex())}
    osubj = sigs.subj_doc(blobs, doc)
    # choose a spread of accepted signatures: one per subpacket class first
    seen = set()
    chosen = []
    for item in kept:
        cls = (item[2], item[3].split('-')[0])
        if cls not in seen and len(item[0]) < maxlen:
            seen.add(cls)
            chosen.append(item)
    limit = 25 if ctx.quick else 400
    if len(chosen) > limit:
        chosen = ctx.rng.sample(chosen, limit)
    for pkt, hin, t, cname in chosen:
        tag, body, raw = build.read_packets(pkt)[0]
        hdr = len(raw) - len(body)
        f = build.read_sig_body(body)
        region = len(f['region'])
        osig = blobs.add(pkt)
        for bit in range(region * 8):
            m = bytearray(pkt)
            m[hdr + bit // 8] ^= 1 << (bit % 8)
            s = sigs.parse_sig(bytes(m))
            if s is None:
                res, asig = 'raised', 0
            else:
                res = sigs.verify_outcome(pub, doc, s)
                asig = blobs.add(bytes(m))
                try:
                    reser = bytes(s)
                except Exception:
                    reser = None
            ev.append({'k': 'attempt', 'osig': osig, 'osubj': osubj, 'signer': signer, 'asig': asig, 'asubj': osubj, 'vkb': vkb,
                       'result': res, 'mut': 'bit %d of hashed region (sp type %d %s)' % (bit, t, cname)})
    return ev


def run(ctx):
    ctx.assumptions += ['TLC/SANY', 'JSON marshalling', 'Ed25519 / SHA-2 primitives of the cryptography package and hashlib',
                        'a critical subpacket of a type PGPy does not implement may make it refuse the signature (RFC 4880 5.2.3.1)']
    ctx.model('MC_Verbatim')
    ctx.model('MC_Verbatim', 'MC_Verbatim_reserialise', must_hold=False)
    blobs = sigs.Blobs()
    fev, kept, pub, kblob, fk, doc = foreign_signature_events(ctx, blobs)
    bev = bitflip_events(ctx, blobs, kept, pub, kblob, fk, doc)
    fev2, bev2 = rsa_signer_events(ctx, blobs)
    fev += fev2
    bev += bev2
    bev += embedded_flip_events(ctx, blobs)
    ev = fev + bev
    for e in fev:
        ctx.case(('foreign', e['sptype'], e['critical'], e['cls'], e['form']))
    for e in bev:
        ctx.case(('flip', e['osig'], e['mut']))
    ctx.sample({k: v for k, v in fev[10].items()})
    ctx.sample({k: v for k, v in fev[len(fev) // 2].items()})
    if bev:
        ctx.sample({k: v for k, v in bev[len(bev) // 2].items()})
    rej = sigs.judge(ctx, blobs, ev)
    ctx.traces += len(ev) - len(rej)
    bad = {i for i, _ in rej}
    good = [e for i, e in enumerate(ev) if i not in bad]
    other_hd = next(e['hashdata'] for e in good if e['k'] == 'foreign' and 'hashdata' in e and e['sptype'] == 100)
    ctx.selftest(lambda b: sigs.judge(ctx, blobs, b), good,
                 [('hashed octets are those of another signature', lambda e: dict(e, hashdata=other_hd) if e['k'] == 'foreign' and e.get('hashdata') not in (None, other_hd) and e['sptype'] == 27 else None),
                  ('a valid foreign signature reported falsy', lambda e: dict(e, result='falsy') if e['k'] == 'foreign' and e['result'] == 'truthy' and e['accepted'] and e['clause'] == 'C05.foreign-verifies' else None),
                  ('a flipped hashed bit reported truthy', lambda e: dict(e, result='truthy') if e['k'] == 'attempt' and e['result'] == 'falsy' and e['asig'] else None)], 'C05')
    ctx.extra['foreign_signatures'] = len(fev)
    ctx.extra['foreign_accepted'] = sum(1 for e in fev if e['accepted'])
    ctx.extra['foreign_rejected_by_pgpy'] = sum(1 for e in fev if not e['accepted'])
    ctx.extra['critical_unknown_refused'] = sum(1 for e in fev if e['clause'] == 'ok-critical-unknown')
    ctx.extra['bitflip_attempts'] = len(bev)
    ctx.extra['bitflip_outcomes'] = {r: sum(1 for e in bev if e['result'] == r) for r in ('truthy', 'falsy', 'raised')}
    if len(bev) < 1000:
        raise MachineryError('too few bit-flip attempts (%d): no accepted foreign signatures to mutate' % len(bev))
    for idx, clause in rej:
        e = ev[idx]
        if e['k'] == 'foreign':
            key = 'sptype=%s class=%s critical=%s lenform=%s' % (e['sptype'], e['cls'].split('-')[0], e['critical'], e['form'] or 'min')
            ctx.violation(clause, key, {'event': {k: v for k, v in e.items()}, 'sig': blobs.table[e['sig'] - 1]})
        else:
            ctx.violation('C05.bitflip', e['mut'].split('(')[1].rstrip(')'), {'event': e, 'osig': blobs.table[e['osig'] - 1], 'asig': blobs.table[e['asig'] - 1] if e['asig'] else None})
    return ctx.finish(level='model_checking',
                      rule='foreign signatures: every subpacket type 0..127 x critical x well-formed body classes (all 256 values of flag octets in the '
                           'thorough tier) x length encodings {minimal, 2-octet, 5-octet}, plus multi-subpacket areas in random order; bit flips: every '
                           'bit of the hashed region of a spread of accepted signatures; distinct = distinct (type, critical, class, encoding) / (signature, bit)',
                      exhaustive=False)


def replay(ctx, rep):
    pgpy = import_pgpy()
    print('replay: re-run ./check C05 (foreign signatures use fresh key material each run); stored case:')
    print({k: v for k, v in rep['detail'].get('event', {}).items() if k not in ('sig',)})
    return 0
