"""Shared driver for C06 / C07 / C18: replays protection life-cycle behaviours (from Gen_KeyProtect and random walks)
on real keys and records, after every step, the projection the three properties talk about."""
import base64
import gc
import hashlib
import struct
import types
import warnings

from . import build, keys as K
from .common import MachineryError, import_pgpy, octets

PW = {'p1': 'first passphrase', 'p2': 'zweites Paßwort ✓'}


def secret_ints(blob):
    """the secret integers of an UNPROTECTED private key export, as (int, octets) pairs (harness reader; the layout of
    protected keys is checked separately by the 'recover' events)."""
    out = []
    for tag, body, raw in build.read_packets(blob):
        if tag in (5, 7):
            p = build.pub_portion_len(body)
            if body[p] != 0:
                raise MachineryError('secret_ints needs an unprotected key')
            q = p + 1
            while q < len(body) - 2:
                bits = (body[q] << 8) | body[q + 1]
                n = (bits + 7) // 8
                mag = bytes(body[q + 2:q + 2 + n])
                if len(mag) >= 12:
                    out.append((int.from_bytes(mag, 'big'), mag))
                q += 2 + n
    return out


def graph_holds_secret(root, secrets, limit=60000):
    ints = {s for s, _ in secrets}
    mags = [m for _, m in secrets]
    seen = set()
    stack = [root]
    n = 0
    while stack and n < limit:
        o = stack.pop()
        if id(o) in seen:
            continue
        seen.add(id(o))
        n += 1
        if isinstance(o, int) and not isinstance(o, bool):
            if int(o) in ints:
                return True
            continue
        if isinstance(o, (bytes, bytearray)):
            b = bytes(o)
            if len(b) >= 12 and any(m in b for m in mags):
                return True
            continue
        if isinstance(o, (str, float, type, types.ModuleType, types.FunctionType, types.BuiltinFunctionType, types.MethodType, types.CodeType)):
            continue
        # a cached primitive-library private key object holds the secret integers inside it
        if 'PrivateKey' in type(o).__name__ and (hasattr(o, 'private_numbers') or hasattr(o, 'private_bytes')):
            try:
                if hasattr(o, 'private_numbers'):
                    pn = o.private_numbers()
                    vals = [getattr(pn, a_) for a_ in ('d', 'p', 'q', 'x', 'private_value') if hasattr(pn, a_)]
                else:
                    from cryptography.hazmat.primitives import serialization as _ser
                    raw_ = o.private_bytes(_ser.Encoding.Raw, _ser.PrivateFormat.Raw, _ser.NoEncryption())
                    vals = [int.from_bytes(raw_, 'big'), int.from_bytes(raw_[::-1], 'big')]
                if any(v_ in ints for v_ in vals):
                    return True
            except Exception:
                pass
            continue
        try:
            stack.extend(gc.get_referents(o))
        except Exception:
            pass
    return False


class Subject(object):
    """one real key with everything needed to observe it."""

    def __init__(self, alg, subalgs, fast=True):
        pgpy = import_pgpy()
        from pgpy.constants import KeyFlags
        self.pgpy = pgpy
        self.alg = alg
        subs = []
        for sa in subalgs:
            subs.append((sa, {KeyFlags.EncryptCommunications} if sa in ('cv25519', 'ecdh256', 'ecdh384', 'ecdh521') or (sa.startswith('rsa') and len(subs) == 0) else {KeyFlags.Sign}))
        if alg == 'foreign-ecdh-kdf':
            # a secret key from the independent encoder whose ECDH subkeys carry legal non-default KDF parameters (RFC 6637 section 9)
            from . import enc as _enc
            prim = build.ForeignKey('ed25519', created=K.T0)
            recs = [(_enc.Recipient('ecdh256', created=K.T0 + 1, kdf=(10, 9)), 0x0C), (_enc.Recipient('ecdh384', created=K.T0 + 2, kdf=(9, 9)), 0x0C),
                    (_enc.Recipient('cv25519', created=K.T0 + 3, kdf=(10, 9)), 0x0C)]
            with warnings.catch_warnings():
                warnings.simplefilter('ignore')
                self.key = pgpy.PGPKey.from_blob(build.transferable_key(prim, [b'Life foreign <life@x.org>'], subkeys=recs, secret=True, created=K.T0 + 5))[0]
        else:
            self.key = K.new_key(alg, name='Life %s' % alg, email='life@x.org', subs=subs)
        third = K.new_key('ed25519', name='Third', email='third@x.org')
        self.key.userids[0] |= third.certify(self.key.userids[0], created=K.ts(K.T0 + 40))
        self.key.userids[0] |= third.certify(self.key.userids[0], exportable=False, created=K.ts(K.T0 + 41))
        # key-level signatures issued by ANOTHER key: a third-party direct-key certification, and a designated revoker named by the key itself
        try:
            self.key |= third.certify(self.key, created=K.ts(K.T0 + 42))
            self.key |= self.key.revoker(third.pubkey, created=K.ts(K.T0 + 43))
        except Exception:
            pass
        self.clear_blob = bytes(self.key)
        self.start_blob = self.clear_blob
        self.init = None
        self.secrets = secret_ints(self.clear_blob)
        self.pub0 = pgpy.PGPKey.from_blob(bytes(self.key.pubkey))[0]
        self.fingerprints = [str(self.key.fingerprint)] + [str(s.fingerprint) for s in self.key.subkeys.values()]
        self.enc_blob = None
        for comp in [self.pub0] + list(self.pub0.subkeys.values()):
            if comp.key_algorithm.can_encrypt and comp is not self.pub0:
                msg = pgpy.PGPMessage.new('life-cycle secret')
                self.enc_blob = bytes(self.pub0.encrypt(msg))
                break
        if self.enc_blob is None and self.pub0.key_algorithm.can_encrypt:
            self.pub0._require_usage_flags = False
            self.enc_blob = bytes(self.pub0.encrypt(pgpy.PGPMessage.new('life-cycle secret')))
        self.other = third

    def fresh(self):
        return self.pgpy.PGPKey.from_blob(self.start_blob)[0]

    def make_oldformat(self):
        """the same key as it comes from GnuPG < 2.4 and most key files: every packet with an old-format header."""
        self.start_blob = b''.join(build.pkt(t_, b_, fmt='old') for t_, b_, r_ in build.read_packets(self.clear_blob))
        self.alg = self.alg + '-old-format-headers'
        return self

    def make_split(self):
        """the same key with its components under DIFFERENT passphrases (primary p1, subkeys a third one), as GnuPG >= 2.1 can export
        them: no single passphrase unlocks it, so in KeyProtect's terms it starts locked under a passphrase nobody offers."""
        from pgpy.constants import SymmetricKeyAlgorithm, HashAlgorithm
        k = self.pgpy.PGPKey.from_blob(self.clear_blob)[0]
        k.protect(PW['p1'], SymmetricKeyAlgorithm.AES128, HashAlgorithm.SHA256)
        with k.unlock(PW['p1']):
            for sk in k.subkeys.values():
                sk.protect('a third passphrase, for the subkeys only', SymmetricKeyAlgorithm.AES128, HashAlgorithm.SHA256)
        self.start_blob = bytes(k)
        self.init = {'prot': 'locked', 'pw': 'split'}
        self.alg = self.alg + '-split-passphrases'
        return self

    def meta(self):
        bodies = []
        for tag, body, raw in build.read_packets(self.clear_blob):
            if tag in (5, 7):
                bodies.append(body[:build.pub_portion_len(body)])
        pre = [b'\x99' + struct.pack('>H', len(b)) + b for b in bodies]
        digs = [hashlib.sha1(p).digest() for p in pre]
        comps = [self.key] + list(self.key.subkeys.values())
        m = {'alg': self.alg, 'fingerprints': self.fingerprints, 'preimages': [octets(p) for p in pre], 'digests': [octets(d) for d in digs],
             'fpr_octets': [octets(bytes.fromhex(str(c.fingerprint))) for c in comps], 'keyids': [octets(bytes.fromhex(c.fingerprint.keyid)) for c in comps]}
        if self.init:
            m['init'] = self.init
        return m

    # ---- observation after a step
    def observe(self, key, with_reimport=False, current_pw=None):
        pgpy = self.pgpy
        o = {'is_protected': bool(key.is_protected), 'is_unlocked': bool(key.is_unlocked)}
        with warnings.catch_warnings():
            warnings.simplefilter('ignore')
            try:
                s = key.sign('life-cycle text', created=K.ts(K.T0 + 900))
                o['sign'] = 'ok' if self.pub0.verify('life-cycle text', s) else 'bad-signature'
            except Exception:
                o['sign'] = 'refused'
            if self.enc_blob is not None:
                try:
                    d = key.decrypt(pgpy.PGPMessage.from_blob(self.enc_blob))
                    o['decrypt'] = 'ok' if d.message == 'life-cycle secret' else 'wrong-plaintext'
                except Exception:
                    o['decrypt'] = 'refused'
            else:
                o['decrypt'] = o['sign'] if o['sign'] != 'bad-signature' else 'refused'
            blob = bytes(key)
            o['privblob'] = octets(blob)
            o['secret_in_export'] = any(m in blob for _, m in self.secrets)
            o['secret_in_graph'] = graph_holds_secret(key, self.secrets)
            o['fingerprints'] = [str(key.fingerprint)] + [str(s_.fingerprint) for s_ in key.subkeys.values()]
            pk = build.read_packets(blob)
            o['priv_uids'] = [octets(b) for t, b, r in pk if t in (13, 17)]
            o['priv_exportable_sigs'] = sum(1 for t, b, r in pk if t == 2)
            # ---- public counterpart, derived now
            pub = key.pubkey
            pblob = bytes(pub)
            try:
                parm = str(pub)
                lines = parm.split('\n')
                b64 = ''.join(l for l in lines[lines.index('') + 1:] if l and not l.startswith('=') and not l.startswith('-----'))
                pdec = base64.b64decode(b64)
            except Exception:
                pdec = b''
            ppk = build.read_packets(pblob)
            po = {'blob': octets(pblob), 'secret_in_export': any(m in pblob for _, m in self.secrets), 'secret_in_armor': any(m in pdec for _, m in self.secrets) or pdec != pblob,
                  'uids': [octets(b) for t, b, r in ppk if t in (13, 17)], 'nsigs': sum(1 for t, b, r in ppk if t == 2),
                  'fingerprints': [str(pub.fingerprint)] + [str(s_.fingerprint) for s_ in pub.subkeys.values()]}
            po['private_ops'] = self.private_ops(pub)
            if po['private_ops'] == 'all-refused':
                try:
                    po['private_ops'] = self.private_ops(pgpy.PGPKey.from_blob(pblob)[0])
                except Exception:
                    pass           # the public export cannot be read back: its packet structure is judged by TLC from the octets (C07.tags)
            o['pub'] = po
            k2 = None
            if with_reimport:
                try:
                    k2 = pgpy.PGPKey.from_blob(blob)[0]
                except Exception:
                    # the library cannot read its own export back: recorded as a failed re-import (C06.reimport / C18.stable)
                    o['reimport'] = {'protected': False, 'unlocked_before': True, 'fingerprints': [], 'unlock_ok': False, 'sign_ok': False, 'wrong_refused': False}
            if k2 is not None:
                r = {'protected': bool(k2.is_protected), 'unlocked_before': bool(k2.is_protected and k2.is_unlocked),
                     'fingerprints': [str(k2.fingerprint)] + [str(s_.fingerprint) for s_ in k2.subkeys.values()]}
                if k2.is_protected and current_pw is not None:
                    try:
                        with k2.unlock(PW[current_pw]):
                            r['unlock_ok'] = True
                            s = k2.sign('life-cycle text', created=K.ts(K.T0 + 901))
                            r['sign_ok'] = bool(self.pub0.verify('life-cycle text', s))
                    except Exception:
                        r.setdefault('unlock_ok', False)
                        r.setdefault('sign_ok', False)
                    try:
                        with k2.unlock('definitely wrong'):
                            r['wrong_refused'] = False
                    except Exception:
                        r['wrong_refused'] = not k2.is_unlocked
                else:
                    r.update({'unlock_ok': True, 'sign_ok': True, 'wrong_refused': True})
                o['reimport'] = r
        return o

    def private_ops(self, pub):
        pgpy = self.pgpy
        from pgpy.constants import KeyFlags
        ops = [('sign', lambda: pub.sign('x')), ('certify', lambda: pub.certify(self.other.userids[0])), ('revoke', lambda: pub.revoke(pub.userids[0])),
               ('revoker', lambda: pub.revoker(self.other)), ('add_subkey', lambda: pub.add_subkey(K.raw_key('ed25519'), usage={KeyFlags.Sign}))]
        if self.enc_blob is not None:
            ops.append(('decrypt', lambda: _must_decrypt(pub, pgpy.PGPMessage.from_blob(self.enc_blob))))
        if pub.subkeys:
            ops.append(('bind', lambda: pub.bind(list(pub.subkeys.values())[0], usage={KeyFlags.Authentication}, crosssign=False)))
        for name, f in ops:
            try:
                with warnings.catch_warnings():
                    warnings.simplefilter('ignore')
                    f()
                return name + ' succeeded'
            except Exception:
                continue
        return 'all-refused'


def _must_decrypt(key, msg):
    d = key.decrypt(msg)
    if d is msg or d.is_encrypted:
        raise ValueError('not decrypted')
    return d


_ALT_CIPHER = {}


def _init_alt():
    from pgpy.constants import SymmetricKeyAlgorithm as SA
    _ALT_CIPHER.update({SA.AES128: SA.CAST5, SA.AES256: SA.TripleDES, SA.CAST5: SA.AES256, SA.Camellia192: SA.Blowfish, SA.TripleDES: SA.AES192, SA.Blowfish: SA.Camellia256})


def replay(subject, behaviour, cipher=None, halg=None, reimport_every=False):
    """-> trace dict {meta, events}. Open unlock scopes are held as entered context managers."""
    pgpy = subject.pgpy
    from pgpy.constants import SymmetricKeyAlgorithm, HashAlgorithm
    cipher = cipher or SymmetricKeyAlgorithm.AES128
    halg = halg or HashAlgorithm.SHA256
    if not _ALT_CIPHER:
        _init_alt()
    key = subject.fresh()
    stack = []
    cur_pw = None
    events = []
    for n, (a, arg) in enumerate(behaviour):
        raised = False
        with warnings.catch_warnings():
            warnings.simplefilter('ignore')
            if a == 'protect':
                was = (key.is_protected, key.is_unlocked)
                try:
                    # successive protections of one behaviour use ciphers of different block sizes (the protected body changes size)
                    nprot = sum(1 for a_, _ in behaviour[:n] if a_ == 'protect')
                    key.protect(PW[arg], _ALT_CIPHER.get(cipher, cipher) if nprot % 2 else cipher, halg)
                    if not (was[0] and not was[1]):
                        cur_pw = arg
                except Exception:
                    raised = True
            elif a == 'unlock':
                cm = key.unlock(PW[arg])
                try:
                    cm.__enter__()
                    stack.append(cm)
                except Exception:
                    raised = True
            elif a == 'exit':
                if stack:
                    cm = stack.pop()
                    try:
                        if arg == 'exception':
                            try:
                                cm.__exit__(RuntimeError, RuntimeError('boom inside the unlock scope'), None)
                            except RuntimeError:
                                pass
                        else:
                            cm.__exit__(None, None, None)
                    except Exception:
                        raised = True
            obs = subject.observe(key, with_reimport=(a == 'use' and arg == 'export-import') or reimport_every, current_pw=cur_pw)
        events.append({'act': [a, arg], 'raised': raised, 'obs': obs})
    # leave no scope open
    while stack:
        try:
            stack.pop().__exit__(None, None, None)
        except Exception:
            pass
    return {'meta': subject.meta(), 'events': events, 'behaviour': [list(b) for b in behaviour]}


def _set(trace, fn, need_locked=False):
    """apply fn to the observation of the last suitable step of a trace copy (self-tests)."""
    for e in reversed(trace['events']):
        o = e['obs']
        if need_locked and (not o['is_protected'] or o['is_unlocked']):
            continue
        fn(o)
        return trace
    return None


def fast_s2k():
    """PGPy always writes coded count 255 (65 MB hashed per derivation); the bulk replays lower it through the
    HashAlgorithm.tuned_count knob. A few behaviours per run keep the default."""
    import_pgpy()
    from pgpy.constants import HashAlgorithm
    saved = {}
    for h in HashAlgorithm:
        saved[h] = h._tuned_count
        h._tuned_count = 0
    return saved


def restore_s2k(saved):
    for h, v in saved.items():
        h._tuned_count = v


def generate(ctx, focus):
    """runs the models, replays behaviours, returns (traces, rejects) for the clause family `focus`."""
    from pgpy.constants import SymmetricKeyAlgorithm, HashAlgorithm
    g = ctx.model('Gen_KeyProtect', 'Gen_KeyProtect' if ctx.quick else 'Gen_KeyProtect5')
    behs = sorted({tuple(tuple(s) for s in p[1]) for p in g.prints if isinstance(p, list) and p and p[0] == 'BEH'})
    if len(behs) < 2000:
        raise MachineryError('Gen_KeyProtect produced %d behaviours' % len(behs))
    kinds = [('ed25519', ['cv25519', 'ed25519']), ('rsa2048', ['rsa2048']), ('p256', ['ecdh256']), ('foreign-ecdh-kdf', []), ('ed25519+split', ['cv25519']), ('p256+oldfmt', ['ecdh256'])]
    if not ctx.quick:
        kinds += [('dsa1024', ['rsa2048']), ('p384', ['ecdh384']), ('rsa3072', ['cv25519']), ('k256', ['ed25519'])]
    traces = []
    saved = fast_s2k()
    try:
        for ki, (alg, subs) in enumerate(kinds):
            try:
                S = Subject(alg.replace('+split', '').replace('+oldfmt', ''), subs)
                if alg.endswith('+split'):
                    S.make_split()
                if alg.endswith('+oldfmt'):
                    S.make_oldformat()
            except Exception as ex:
                ctx.note('key kind %s unavailable: %s' % (alg, repr(ex)[:100]))
                continue
            mine = behs if ki == 0 else ctx.rng.sample(behs, 60 if ctx.quick else 300)
            if not ctx.quick and ki == 0:
                # thorough: every behaviour to depth 4 and a seeded sample of the 13 000 of depth 5
                mine = [b for b in behs if len(b) <= 4] + ctx.rng.sample([b for b in behs if len(b) == 5], 3000)
            if ctx.quick and ki == 0:
                mine = [b for b in behs if len(b) <= 3] + ctx.rng.sample([b for b in behs if len(b) == 4], 450)
            ciphers = [SymmetricKeyAlgorithm.AES128, SymmetricKeyAlgorithm.AES256, SymmetricKeyAlgorithm.CAST5, SymmetricKeyAlgorithm.Camellia192,
                       SymmetricKeyAlgorithm.TripleDES, SymmetricKeyAlgorithm.Blowfish]
            hashes_ = [HashAlgorithm.SHA256, HashAlgorithm.SHA1, HashAlgorithm.SHA512, HashAlgorithm.SHA224]
            for n, b in enumerate(mine):
                traces.append(replay(S, b, cipher=ciphers[n % len(ciphers)], halg=hashes_[n % len(hashes_)]))
                ctx.case((alg, b))
            # random deep walks
            acts = [('protect', 'p1'), ('protect', 'p2'), ('unlock', 'p1'), ('unlock', 'p2'), ('exit', 'normal'), ('exit', 'exception'), ('use', 'sign'), ('use', 'export-import')]
            for _ in range(8 if ctx.quick else 80):
                b = tuple(ctx.rng.choice(acts) for _ in range(ctx.rng.randrange(6, 14)))
                b = tuple(x for j, x in enumerate(b) if not (x[0] == 'exit' and sum(1 for y in b[:j] if y[0] == 'unlock') <= sum(1 for y in b[:j] if y[0] == 'exit')))
                traces.append(replay(S, b, reimport_every=False))
                ctx.case((alg, 'walk', b))
        restore_s2k(saved)
        # a few behaviours with PGPy's default S2K count
        S = Subject('ed25519', ['cv25519'])
        for b in [(('protect', 'p1'), ('unlock', 'p2'), ('unlock', 'p1'), ('exit', 'exception'), ('use', 'export-import')),
                  (('protect', 'p2'), ('unlock', 'p2'), ('protect', 'p1'), ('exit', 'normal'), ('unlock', 'p1'), ('use', 'export-import'))]:
            traces.append(replay(S, b))
            ctx.case(('default-count', b))
    finally:
        restore_s2k(saved)
    ctx.sample({'behaviour': traces[7]['behaviour'], 'obs_after_last_step': {k: v for k, v in traces[7]['events'][-1]['obs'].items() if k not in ('privblob', 'pub', 'priv_uids')}})
    ctx.sample({'behaviour': traces[-1]['behaviour']})
    rej = []
    chunk = 150
    for base in range(0, len(traces), chunk):
        part = traces[base:base + chunk]
        r = ctx.trace('Trace_KeyLife', {'traces': part}, name='keylife-%d' % base, env={'FOCUS': focus})
        done = [p for p in r.prints if isinstance(p, list) and p and p[0] == 'DONE']
        if not done or done[-1][1] != len(part):
            raise MachineryError('Trace_KeyLife did not finish its batch: %s\n%s' % (done, r.raw[-2500:]))
        for p in r.prints:
            if isinstance(p, list) and p and p[0] == 'REJECT':
                rej.append((base + p[1] - 1, p[2], p[3]))
    ctx.traces += len(traces) - len({t for t, _, _ in rej})
    if not rej:
        import copy as _copy
        cands = [t for t in traces if len(t['events']) >= 3 and t['events'][-1]['act'][0] != 'use'][:6]
        if focus == 'C06':
            cor = [('sign succeeds on a locked key', lambda t: _set(t, lambda o: o.update(sign='ok' if o['sign'] == 'refused' else 'refused'))),
                   ('secret integer reachable while locked', lambda t: _set(t, lambda o: o.update(secret_in_graph=True), need_locked=True)),
                   ('is_unlocked reported wrongly', lambda t: _set(t, lambda o: o.update(is_unlocked=not o['is_unlocked']))),
                   ('secret in the export of a protected key', lambda t: _set(t, lambda o: o.update(secret_in_export=True), need_locked=True))]
        elif focus == 'C07':
            cor = [('secret octets in the public export', lambda t: _set(t, lambda o: o['pub'].update(secret_in_export=True))),
                   ('a private operation succeeds on the public key', lambda t: _set(t, lambda o: o['pub'].update(private_ops='sign succeeded'))),
                   ('public export contains a secret key packet', lambda t: _set(t, lambda o: o['pub'].update(blob=o['privblob']))),
                   ('one identity missing from the public key', lambda t: _set(t, lambda o: o['pub'].update(uids=o['pub']['uids'][1:])))]
        else:
            cor = [('fingerprint changes at one step', lambda t: _set(t, lambda o: o.update(fingerprints=['0' * 40] + o['fingerprints'][1:]))),
                   ('key id is not the low 64 bits', lambda t: (t['meta']['keyids'][0].__setitem__(0, t['meta']['keyids'][0][0] ^ 1), t)[1]),
                   ('preimage lacks the length octets', lambda t: (t['meta']['preimages'].__setitem__(0, t['meta']['preimages'][0][:1] + t['meta']['preimages'][0][3:]), t)[1])]
        batch = []
        for n_, (name, fn) in enumerate(cor):
            for cand in cands[n_ % len(cands):] + cands:
                c = fn(_copy.deepcopy(cand))
                if c is not None:
                    batch.append(c)
                    break
            else:
                raise MachineryError('self-test %s: corruption %r applies to no trace' % (focus, name))
        r = ctx.trace('Trace_KeyLife', {'traces': batch}, name='keylife-selftest', env={'FOCUS': focus})
        rejected = {p[1] for p in r.prints if isinstance(p, list) and p and p[0] == 'REJECT'}
        if len(rejected) != len(batch):
            raise MachineryError('self-test %s: Trace_KeyLife accepted corrupted traces: rejected %s of %s' % (focus, sorted(rejected), [n for n, _ in cor]))
        ctx.extra['selftest_corruptions_rejected'] = [n for n, _ in cor]
    ctx.extra['behaviours_replayed'] = len(traces)
    ctx.extra['steps_observed'] = sum(len(t['events']) for t in traces)
    return traces, rej
