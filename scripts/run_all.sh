#!/bin/bash
# scripts/run_all.sh [quick|thorough] : run every registered check on /repo, print one line per property
TIER="${1:-quick}"
cd "$(dirname "$0")/.." || exit 2
WORST=0
for i in $(seq -w 1 20); do
  OUT=$(./check C$i --tier "$TIER" 2>&1); RC=$?
  echo "C$i exit=$RC $(echo "$OUT" | grep -c '^VIOLATION') violations $(echo "$OUT" | grep -c '^KNOWN-FINDING') known | $(echo "$OUT" | grep "^C$i tier" | sed 's/.*states=/states=/')"
  if [ $RC -ge 2 ]; then echo "$OUT" | tail -5; fi
  if [ $RC -gt $WORST ]; then WORST=$RC; fi
done
exit $WORST
