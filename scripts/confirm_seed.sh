#!/bin/sh
# scripts/confirm_seed.sh <property> <A|B> : confirm a seeded change in a scratch worktree:
#   demo passes without the change, fails with it; the repository suite still passes the stable baseline with it.
P="$1"; N="$2"
SRC=${SEED_SRC:-/tmp/seed-out}/$P
WT=/tmp/wt-confirm-$P$N
git -C /repo worktree add -q --detach $WT HEAD || exit 2
cd $WT
PYTHONPATH=$WT /venv/bin/python -W ignore $SRC/demo$N.py >/dev/null 2>&1; D0=$?
git apply $SRC/mut$N.diff || { echo "$P$N: patch does not apply"; git -C /repo worktree remove --force $WT; exit 2; }
PYTHONPATH=$WT /venv/bin/python -W ignore $SRC/demo$N.py >/dev/null 2>&1; D1=$?
OUT=$(mktemp -d)
/venv/bin/python -m pytest -q -p no:cacheprovider --timeout=900 --continue-on-collection-errors --junitxml=$OUT/j.xml >$OUT/log 2>&1
RES=$(/venv/bin/python - $OUT/j.xml <<'PY'
import json, sys
import xml.etree.ElementTree as ET
want = set(json.load(open('/root/.vp/BASELINE.json'))['stable_pass'])
ok = set()
for tc in ET.parse(sys.argv[1]).getroot().iter('testcase'):
    if not any(ch.tag in ('failure', 'error', 'skipped') for ch in tc):
        ok.add('%s::%s' % (tc.get('classname'), tc.get('name')))
print('suite_missing=%d' % len(want - ok))
PY
)
echo "$P$N demo_clean_exit=$D0 demo_mutated_exit=$D1 $RES"
cd /; git -C /repo worktree remove --force $WT; rm -rf $OUT
