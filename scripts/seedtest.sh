#!/bin/sh
# scripts/seedtest.sh <diff> <check id> [<check id> ...] : apply a seeded change to /repo, run the checks (quick), undo it.
DIFF="$1"; shift
cd /verif || exit 2
git -C /repo diff --quiet || { echo "/repo has local changes"; exit 2; }
git -C /repo apply "$DIFF" || { echo "patch does not apply"; exit 2; }
for c in "$@"; do
  echo "=== $c with $(basename $DIFF)"
  ./check "$c" --tier quick 2>&1 | grep -E "^VIOLATION|^KNOWN|^MACHINERY|^C[0-9][0-9] tier" | cut -c1-220 | sort | uniq -c | sort -rn | head -8
done
git -C /repo checkout -- .
git -C /repo status --short | head -3
