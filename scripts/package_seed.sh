#!/bin/sh
# scripts/package_seed.sh <property> <src-letter> <dest-letter> "<what>" "<needs>" "<caught_by>" "<history>"
# copies ${SEED_SRC:-/tmp/seed-out}/<P>/mut<src>.diff + demo<src>.py to seeded/<P>-<dest>/ with meta.json (after confirm_seed.sh printed 0/1/0)
P="$1"; S="$2"; D="$3"
SRC=${SEED_SRC:-/tmp/seed-out}/$P
DST=/verif/seeded/$P-$D
mkdir -p $DST
cp $SRC/mut$S.diff $DST/patch.diff; cp $SRC/demo$S.py $DST/demo.py
[ -f $SRC/notes.md ] && cp $SRC/notes.md $DST/author_notes.md
/venv/bin/python - "$P" "$D" "$4" "$5" "$6" "$7" > $DST/meta.json <<'PY'
import json, sys
p, d, what, needs, caught, hist = sys.argv[1:7]
print(json.dumps({"id": "%s-%s" % (p, d), "property": p, "what_it_changes": what, "needs_to_manifest": needs,
  "author": "independent sub-agent given only the property text and a scratch worktree (round 2)",
  "confirmed": {"how": "scripts/confirm_seed.sh (scratch worktree under /tmp, removed afterwards)", "demo_exit_unmodified": 0,
                "demo_exit_with_change": 1, "baseline_stable_pass_missing_with_change": 0},
  "detection": {"command": "scripts/seedtest.sh seeded/%s-%s/patch.diff %s" % (p, d, p), "caught_by": caught, "history": hist,
                "result": "VIOLATION reported (quick tier); clean on the unchanged tree"}}, indent=1))
PY
echo packaged $DST
