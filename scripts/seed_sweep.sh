#!/bin/bash
# scripts/seed_sweep.sh <seed> [tier] : all checks with another seed (false-alarm hunting); one line per property
SEED="$1"; TIER="${2:-quick}"
cd "$(dirname "$0")/.." || exit 2
for i in $(seq -w 1 20); do
  OUT=$(VERIF_SEED=$SEED ./check C$i --tier "$TIER" 2>&1); RC=$?
  echo "seed=$SEED C$i exit=$RC $(echo "$OUT" | grep -c '^VIOLATION') violations | $(echo "$OUT" | grep "^C$i tier" | sed 's/.*states=/states=/')"
  [ $RC -ne 0 ] && echo "$OUT" | grep -E "^VIOLATION|MACHINERY" | head -5
done
