#!/bin/bash
# scripts/seed_regress.sh [jobs] : run every seeded change in /verif/seeded against the check of its property (quick tier),
# each in its own scratch worktree of /repo (selected through VERIF_REPO), never touching /repo itself.
# The replays directory is shared; evidence files are rewritten by these runs, so re-run the real checks afterwards.
JOBS="${1:-4}"
cd /verif || exit 2
one() {
  sid="$1"; prop="${sid%%-*}"
  WT="/tmp/wt-seed-$sid-$$"
  git -C /repo worktree add -q --detach "$WT" HEAD || { echo "$sid worktree-failed"; return; }
  if git -C "$WT" apply "/verif/seeded/$sid/patch.diff" 2>/dev/null; then
    OUT=$(VERIF_REPO="$WT" ./check "$prop" --tier quick 2>&1); RC=$?
    N=$(echo "$OUT" | grep -c '^VIOLATION')
    C=$(echo "$OUT" | grep '^VIOLATION' | sed 's/.*clause=\([^ ]*\).*/\1/' | sort | uniq -c | sort -rn | head -3 | awk '{printf "%s(%s) ", $2, $1}')
    echo "$sid exit=$RC violations=$N $C"
  else
    echo "$sid patch-does-not-apply"
  fi
  git -C /repo worktree remove --force "$WT"
}
export -f one
ls seeded | grep '^C' | xargs -P "$JOBS" -I{} bash -c 'one {}'
