#!/bin/bash
# scripts/seedtest_wt.sh <diff> <check id> [...] : like seedtest.sh but in a scratch worktree (VERIF_REPO), never touching /repo.
DIFF="$(readlink -f "$1")"; shift
cd /verif || exit 2
WT="/tmp/wt-st-$$"
git -C /repo worktree add -q --detach "$WT" HEAD || exit 2
git -C "$WT" apply "$DIFF" || { echo "patch does not apply"; git -C /repo worktree remove --force "$WT"; exit 2; }
for c in "$@"; do
  echo "=== $c with $DIFF"
  VERIF_REPO="$WT" ./check "$c" --tier quick 2>&1 | grep -E "^VIOLATION|^KNOWN|^MACHINERY|^C[0-9][0-9] tier" | sed 's/replay=[^ ]*//' | cut -c1-200 | sort | uniq -c | sort -rn | head -8
done
git -C /repo worktree remove --force "$WT"
