#!/bin/sh
# Run the repository's own suite with the verification guard OFF and compare with BASELINE.json:
# every test in stable_pass must pass. Exit 0 iff so.
unset PGPY_VERIF
OUT="$(mktemp -d)"
cd /repo && /venv/bin/python -m pytest -ra -q -p no:cacheprovider --timeout=900 --continue-on-collection-errors --junitxml="$OUT/junit.xml" >"$OUT/log" 2>&1
tail -3 "$OUT/log"
/venv/bin/python - "$OUT/junit.xml" <<'PY'
import json, sys
import xml.etree.ElementTree as ET
base = json.load(open('/root/.vp/BASELINE.json'))
want = set(base['stable_pass'])
passed = set()
for tc in ET.parse(sys.argv[1]).getroot().iter('testcase'):
    bad = any(ch.tag in ('failure', 'error', 'skipped') for ch in tc)
    name = '%s::%s' % (tc.get('classname'), tc.get('name'))
    if not bad:
        passed.add(name)
missing = sorted(want - passed)
print('baseline stable_pass=%d passed_now=%d missing=%d' % (len(want), len(passed & want), len(missing)))
for m in missing[:20]:
    print('  MISSING', m)
sys.exit(1 if missing else 0)
PY
RC=$?
rm -rf "$OUT"
exit $RC
