---- MODULE MC_Codec ----
(* Design level: Norm is invariant under exactly the freedoms it is meant to erase and separates  *)
(* everything else (tiny instances).                                                              *)
EXTENDS Codec, TLC
VARIABLE x
Init == x \in 1..40
Next == UNCHANGED x
Spec == Init /\ [][Next]_x
Mag == [k \in 1..((x % 5) + 1) |-> ((x * 7 + k) % 255) + 1]
Padded == BE(MPIBits(Mag) + 8, 2) \o <<0>> \o Mag
RsaKey(m1, m2) == <<4, 0, 0, 0, 1, 1>> \o m1 \o m2
MpiFreedom == Norm(6, RsaKey(MPIEnc(Mag), MPIEnc(<<1, 0, 1>>))) = Norm(6, RsaKey(Padded, MPIEnc(<<1, 0, 1>>)))
MpiSeparates == Norm(6, RsaKey(MPIEnc(Mag), MPIEnc(<<1, 0, 1>>))) # Norm(6, RsaKey(MPIEnc(Mag \o <<1>>), MPIEnc(<<1, 0, 1>>)))
Sig(un) == <<4, 0, 22, 8, 0, 6, 5, 2, 0, 0, 0, x>> \o BE(Len(un), 2) \o un \o <<9, 9>> \o MPIEnc(Mag) \o MPIEnc(Mag)
SubFreedom == Norm(2, Sig(SubEnc(100, FALSE, Mag))) = Norm(2, Sig(<<255>> \o BE(Len(Mag) + 1, 4) \o <<100>> \o Mag))
SubCritical == Norm(2, Sig(SubEnc(100, FALSE, Mag))) # Norm(2, Sig(SubEnc(100, TRUE, Mag)))
OtherVerbatim == Norm(11, <<98, 0, 0, 0, 0, x>>) # Norm(11, <<98, 0, 0, 0, 0, x + 1>>)
====
