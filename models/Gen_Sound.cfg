SPECIFICATION GSpec
CONSTANT Omit = "none"
INVARIANT Emit
CHECK_DEADLOCK FALSE
