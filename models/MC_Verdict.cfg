SPECIFICATION Spec
CONSTANT AsFound = FALSE
INVARIANT Disqualify
INVARIANT Monotone
INVARIANT OnlyDisq
INVARIANT Coherent
CHECK_DEADLOCK FALSE
