SPECIFICATION GSpec
CONSTANT Pass <- GPass
CONSTANT MaxLen = 4
CONSTRAINT Bound
INVARIANT Emit
INVARIANT TypeOK
CHECK_DEADLOCK FALSE
