---- MODULE MC_Tamper ----
EXTENDS Tamper
====
