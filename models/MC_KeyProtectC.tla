---- MODULE MC_KeyProtectC ----
EXTENDS KeyProtectC
MCPass == {"p1", "p2"}
====
