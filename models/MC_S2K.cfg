SPECIFICATION Spec
INVARIANT AtLeastOneCopy
INVARIANT IteratedIsCount
INVARIANT NonIteratedIsOnce
INVARIANT CycleOK
INVARIANT NCtxOK
INVARIANT AssembleOK
CHECK_DEADLOCK FALSE
