SPECIFICATION GSpec
CONSTANT Prim <- MCPrim
CONSTANT SubsOf <- MCSubs
CONSTANT AliasSeq <- MCAlias
CONSTANT Created <- MCCreated
CONSTANT IsPublic <- MCIsPublic
CONSTANT MaxDepth = 6
CONSTANT Fixed = TRUE
CONSTRAINT DepthBound
VIEW ImplView
INVARIANT Emit
INVARIANT Consistent
CHECK_DEADLOCK FALSE
