SPECIFICATION Spec
CONSTANT Omit = "hashedLen"
INVARIANT Sound
INVARIANT NeutralOK
CHECK_DEADLOCK FALSE
