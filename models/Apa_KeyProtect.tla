---- MODULE Apa_KeyProtect ----
(* Unbounded safety of KeyProtect.tla with Apalache: RelockedOutsideScopes is inductive (any number of nested scopes,     *)
(* any history), which TLC only explores to scope depth 2.                                                              *)
(*   apalache-mc check --init=Init   --inv=IndInv --length=0 Apa_KeyProtect.tla      (base case)                         *)
(*   apalache-mc check --init=IndInit --inv=IndInv --length=1 Apa_KeyProtect.tla     (inductive step)                    *)
EXTENDS Naturals
Pass == {"p1", "p2"}
VARIABLES
  \* @type: Str;
  prot,
  \* @type: Str;
  pw,
  \* @type: Int;
  depth
INSTANCE KeyProtect
IndInv == TypeOK /\ RelockedOutsideScopes /\ pw \in Pass \cup {"-"}
\* a candidate that holds in every state TLC reaches within its bound but is NOT inductive (scopes nest arbitrarily deep):
\* Apalache must reject it (non-vacuity of the run above)
NotInd == TypeOK /\ depth <= 2
NotIndInit == prot \in {"none", "locked", "unlocked"} /\ pw \in Pass \cup {"-"} /\ depth \in Nat /\ NotInd
IndInit == prot \in {"none", "locked", "unlocked"} /\ pw \in Pass \cup {"-"} /\ depth \in Nat /\ IndInv
====
