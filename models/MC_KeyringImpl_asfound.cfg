SPECIFICATION Spec
CONSTANT Prim <- MCPrim
CONSTANT SubsOf <- MCSubs
CONSTANT AliasSeq <- MCAlias
CONSTANT Created <- MCCreated
CONSTANT IsPublic <- MCIsPublic
CONSTANT Squeeze <- MCSqueeze
CONSTANT HexLike <- MCHexLike
CONSTANT Msgs <- MCMsgs
CONSTANT MaxDepth = 6
CONSTANT Fixed = FALSE
CONSTANT FallbackAll = FALSE
CONSTANT ReloadSubs = TRUE
CONSTANT PreferPrivate = TRUE
CONSTRAINT DepthBound
INVARIANT Consistent
INVARIANT NoDangling
INVARIANT Complete
INVARIANT KeysOK
INVARIANT QueryOK
INVARIANT MsgOK
INVARIANT LoadHoldsAll
CHECK_DEADLOCK FALSE
