SPECIFICATION Spec
CONSTANT Prim <- MCPrim
CONSTANT SubsOf <- MCSubs
CONSTANT AliasSeq <- MCAlias
CONSTANT Created <- MCCreated
CONSTANT IsPublic <- MCIsPublic
CONSTANT MaxDepth = 6
CONSTANT Fixed = FALSE
CONSTRAINT DepthBound
INVARIANT Consistent
INVARIANT NoDangling
INVARIANT Complete
INVARIANT KeysOK
CHECK_DEADLOCK FALSE
