SPECIFICATION Spec
CONSTANT Omit = "none"
INVARIANT Sound
INVARIANT NeutralOK
CHECK_DEADLOCK FALSE
