SPECIFICATION Spec
INVARIANT MpiFreedom
INVARIANT MpiSeparates
INVARIANT SubFreedom
INVARIANT SubCritical
INVARIANT OtherVerbatim
CHECK_DEADLOCK FALSE
