------------------------------- MODULE Trace_Sig -------------------------------
(* Binding O for C01 / C02 / C05: events about real signature packets, judged by SigHash.tla.     *)
(* A batch has a table of octet strings (J.blobs) and events referring to them by index (from 1). *)
EXTENDS Cleartext, SigHash, TLC, Json, IOUtils
J == JsonDeserialize(IOEnv.TRACE_FILE)
Events == J.events
Blob(k) == J.blobs[k]
VARIABLE i
\* ---- resolving references ---------------------------------------------------------------------
SigBody(k) == LET p == PacketAt(Blob(k), 1) IN IF p.ok /\ p.tag = 2 /\ p.next = Len(Blob(k)) + 1 THEN p.body ELSE <<>>
UidPkts(blob) == SelectSeq(Split(blob).pkts, LAMBDA k : k.tag \in {13, 17})
\* subject descriptor -> the component record SubjectOctets reads
Subj(d) ==
  \* a document that is the text of a cleartext signed message is covered in its RFC 4880 7.1 form (trailing SP / TAB of every line
  \* removed, CR LF line endings); any other document as it is
  [doc |-> IF "doc" \in DOMAIN d THEN (IF "cleartext" \in DOMAIN d /\ d.cleartext THEN CanonCleartext(Blob(d.doc)) ELSE Blob(d.doc)) ELSE <<>>,
   primary |-> IF "p" \in DOMAIN d THEN KeyBodies(Blob(d.kb))[d.p] ELSE <<>>,
   sub |-> IF "s" \in DOMAIN d THEN KeyBodies(Blob(d.skb))[d.s] ELSE <<>>,
   uid |-> IF "u" \in DOMAIN d THEN UidPkts(Blob(d.ukb))[d.u].body ELSE <<>>,
   isuid |-> IF "u" \in DOMAIN d THEN UidPkts(Blob(d.ukb))[d.u].tag = 13 ELSE TRUE]
\* ---- clauses ------------------------------------------------------------------------------------
\* PGPy's own hash input for an accepted signature (sig.hashdata(subject))
HashEv(e) ==
  LET b == SigBody(e.sig)  f == SigFields(b) IN
  IF ~f.ok THEN "harness.sig-not-parsed"
  ELSE IF ~IsSuffixOf(Trailer(f), Blob(e.hashdata)) THEN "C05.verbatim"
  ELSE IF Blob(e.hashdata) # HashInputOf(f, Subj(e.subj)) THEN "C02.hash-input"
  ELSE "ok"
\* a verification attempt after mutation
AttemptEv(e) ==
  IF e.result # "truthy" THEN "ok"
  ELSE IF e.asig = 0 THEN "harness.truthy-without-signature"
  ELSE LET f0 == SigFields(SigBody(e.osig))  f1 == SigFields(SigBody(e.asig)) IN
    IF ~f0.ok THEN "harness.orig-not-parsed"
    ELSE IF ~f1.ok THEN "C01.sound"
    ELSE LET k0 == KeyBodies(Blob(e.signer.kb))[e.signer.idx]
             cands == {KeyBodies(Blob(e.vkb))[j] : j \in 1..Len(KeyBodies(Blob(e.vkb)))}
             h0 == HashInputOf(f0, Subj(e.osubj))
             h1 == HashInputOf(f1, Subj(e.asubj)) IN
      IF k0 \notin cands THEN "C01.sound"
      ELSE IF h1 # h0 THEN "C01.sound"
      ELSE IF SigValue(f1) # SigValue(f0) THEN "C01.sound"
      ELSE "ok"
\* independent verifier: the harness claims values it parsed / computed itself; all are checked here
IndepEv(e) ==
  LET b == SigBody(e.sig)  f == SigFields(b) IN
  IF ~f.ok \/ ~SigWF(b) THEN "C02.wellformed"
  ELSE IF Blob(e.claimed.hashinput) # HashInputOf(f, Subj(e.subj)) THEN "C02.indep-hash-input"
  ELSE IF SubSeq(e.claimed.digest, 1, 2) # f.left16 THEN "C02.left16"
  ELSE IF e.claimed.sigmags # SigValue(f) THEN "C02.sig-encoding"
  ELSE IF e.claimed.keybody # KeyBodies(Blob(e.signer.kb))[e.signer.idx] THEN "harness.key-body"
  ELSE IF e.claimed.halg # f.h \/ e.claimed.pk # f.pk THEN "harness.algorithms"
  ELSE IF ~e.claimed.primitive_ok THEN "C02.indep-verifier"
  ELSE IF ~e.reimport_ok THEN "C02.reimport"
  ELSE "ok"
\* independent signer: a packet built by the harness; TLC validates the packet and the octets it was
\* signed over before PGPy's verdict is believed
ForeignEv(e) ==
  LET b == SigBody(e.sig)  f == SigFields(b) IN
  IF ~f.ok \/ ~SigWF(b) THEN "harness.foreign-not-wellformed"
  ELSE IF Blob(e.signed_over) # HashInputOf(f, Subj(e.subj)) THEN "harness.foreign-hash-input"
  ELSE IF e.accepted = FALSE THEN "ok"                        \* PGPy may reject a packet (outside the property)
  ELSE IF "hashdata" \in DOMAIN e /\ ~IsSuffixOf(Trailer(f), Blob(e.hashdata)) THEN "C05.verbatim"
  ELSE IF e.result # "truthy" THEN e.clause
  ELSE "ok"
Judge(e) == CASE e.k = "hash" -> HashEv(e) [] e.k = "attempt" -> AttemptEv(e) [] e.k = "indep" -> IndepEv(e)
              [] e.k = "foreign" -> ForeignEv(e) [] OTHER -> "harness.unknown-event"
Init == i = 1
Next == /\ i <= Len(Events) + 1
        /\ IF i = Len(Events) + 1 THEN PrintT(<<"DONE", Len(Events)>>)
           ELSE LET v == Judge(Events[i]) IN IF v = "ok" THEN TRUE ELSE PrintT(<<"REJECT", i, v>>)
        /\ i' = i + 1
Spec == Init /\ [][Next]_i
=============================================================================
