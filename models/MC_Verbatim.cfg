SPECIFICATION Spec
CONSTANT Mode = "raw"
INVARIANT WellFormed
INVARIANT IsVerbatim
CHECK_DEADLOCK FALSE
