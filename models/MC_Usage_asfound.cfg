SPECIFICATION Spec
CONSTANT ReadLatest = FALSE
INVARIANT Refines
INVARIANT Progress
CHECK_DEADLOCK FALSE
