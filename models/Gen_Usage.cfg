SPECIFICATION Spec
INVARIANT Emit
INVARIANT Sound
CHECK_DEADLOCK FALSE
