---- MODULE MC_Armor ----
(* Design-level round trip of the armor spec: for every payload length 0..MaxLen and three       *)
(* patterns, with line widths 64 and 76 and 0..2 header lines: Dearmor(ArmorText(p)) = p, label,  *)
(* headers, CRC and line-length bound.                                                            *)
EXTENDS Armor, TLC
CONSTANT MaxLen
VARIABLE n
Init == n \in 0..MaxLen
Next == UNCHANGED n
Spec == Init /\ [][Next]_n
Pats == {[k \in 1..n |-> 0], [k \in 1..n |-> 255], [k \in 1..n |-> (k * 37 + n) % 256]}
H1 == <<<<<<86, 101, 114>>, <<49>>>>>>                                     \* Ver: 1
H2 == H1 \o <<<<<<67, 111, 109, 109, 101, 110, 116>>, <<97, 58, 32, 98>>>>>>     \* Comment: a: b
RoundTrip ==
  \A p \in Pats : \A w \in {64, 76} : \A h \in {<<>>, H1, H2} :
    LET t == ArmorText(LabelOf("message"), h, p, w)  d == Dearmor(t) IN
      /\ d.ok /\ d.payload = p /\ d.label = LabelOf("message") /\ d.headers = h
      /\ d.hascrc /\ d.crcok /\ d.tailok /\ d.maxline <= w
B64RoundTrip == \A p \in Pats : B64OK(B64Enc(p)) /\ B64Dec(B64Enc(p)) = p /\ Len(B64Enc(p)) = 4 * ((n + 2) \div 3)
\* known answers: CRC-24 of "" and of "123456789", radix-64 of "Man"
KnownAnswers == n = 0 =>
  /\ CRC24(<<>>) = 11994318
  /\ CRC24(<<49, 50, 51, 52, 53, 54, 55, 56, 57>>) = 2215682        \* 0x21CF02
  /\ B64Enc(<<77, 97, 110>>) = <<84, 87, 70, 117>>
  /\ B64Enc(<<77>>) = <<84, 81, 61, 61>>
\* a flipped payload octet is detected by the checksum (for the patterns tried)
CrcDetects == (n >= 1 /\ n <= 64) => \A p \in Pats : \A k \in {1, n} :
   CRC24([p EXCEPT ![k] = (p[k] + 1) % 256]) # CRC24(p)
\* totality on garbage
Total == n <= 3 => LET junk == [k \in 1..(n * 7) |-> (k * 13) % 128] IN Dearmor(junk).ok = FALSE
====
