---- MODULE Gen_Session ----
(* Behaviour generator (binding G) for Session.tla: random walks (TLC -simulate) with the action and its arguments      *)
(* recorded in a history variable; the walk is printed when it reaches MaxLen steps.                                   *)
EXTENDS Session, TLC
CONSTANT MaxLen
VARIABLE hist
GInit == Init /\ hist = <<>>
Step(a, A) == A /\ hist' = Append(hist, a)
SetSeq(S) == <<IF "A" \in S THEN 1 ELSE 0, IF "B" \in S THEN 1 ELSE 0>>
\* one class of actions per step, drawn at random first (TLC would otherwise pick uniformly among all successor states, and the
\* many argument combinations of encryption would crowd out scope exits and keyring unloads); a class with nothing enabled
\* falls back to any action
Class(c) ==
  CASE c = 1 -> \E k \in Keys, p \in Pass : Step(<<"protect", k, p>>, CanOperate(k) /\ Protect(k, p))
    [] c = 2 -> \E k \in Keys, p \in Pass : Step(<<"unlock", k, p>>, Unlock(k, p))
    [] c = 3 -> \E k \in Keys : Step(<<"exit", k>>, ScopeExit(k))
    [] c = 4 -> \E k \in Keys : Step(<<"export-import", k>>, ExportImport(k))
    [] c = 5 -> \E k \in Keys, d \in Docs : Step(<<"sign", k, d>>, Sign(k, d))
    [] c = 6 -> \E k \in Keys, d \in Docs, i \in 1..Len(sigs) : Step(<<"verify", k, i, d>>, Verify(k, i, d))
    [] c = 7 -> \E R \in SUBSET Keys, u \in BOOLEAN, d \in Docs, s \in Keys \cup {"-"} : Step(<<"encrypt", SetSeq(R), u, d, s>>, Encrypt(R, u, d, s))
    [] c = 8 -> \E k \in Keys, j \in 1..Len(cts) : Step(<<"decrypt", k, j>>, Decrypt(k, j))
    [] c = 9 -> \E j \in 1..Len(cts), g \in BOOLEAN : Step(<<"decrypt-pass", j, g>>, DecryptPass(j, g))
    [] c = 10 -> \E k \in Keys : Step(<<"ring-load", k>>, RingLoad(k))
    [] c = 11 -> \E k \in Keys : Step(<<"ring-unload", k>>, RingUnload(k))
    [] c = 12 -> \E i \in 1..Len(sigs), d \in Docs : Step(<<"ring-verify", i, d>>, RingVerify(i, d))
    [] c = 13 -> \E k \in Keys, p \in Pass : Step(<<"protect", k, p>>, Protect(k, p))
GNext ==
  /\ Len(hist) < MaxLen
  /\ LET c == RandomElement(1..13) IN
       IF ENABLED Class(c) THEN Class(c) ELSE \E x \in 1..13 : Class(x)
GSpec == GInit /\ [][GNext]_<<vars, hist>>
Emit == Len(hist) = MaxLen => PrintT(<<"BEH", hist>>)
====
