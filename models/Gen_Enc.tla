---- MODULE Gen_Enc ----
(* Scenario generator (binding G) for C03/C04/C13: message x cipher x recipient multiset x options. *)
EXTENDS Naturals, Sequences, FiniteSets, TLC
Ciphers == {2, 3, 4, 7, 8, 9, 11, 12, 13}
Comp == {0, 1, 2, 3}
Recips == {<<"rsa">>, <<"cv25519">>, <<"ecdh256">>, <<"ecdh384">>, <<"pw">>, <<"rsa", "cv25519">>, <<"pw", "rsa">>, <<"pw", "pw2", "ecdh256">>,
           <<"cv25519", "ecdh384", "rsa">>}
Bodies == {"empty", "ascii", "utf8", "binary", "large", "incompressible"}
VARIABLE sc
Init == sc \in [cipher : Ciphers, comp : Comp, recips : Recips, body : Bodies, signed : BOOLEAN, supplied : BOOLEAN, armor : BOOLEAN]
Next == UNCHANGED sc
Spec == Init /\ [][Next]_sc
\* a session key must be supplied by the caller when there are several recipients (PGPy API)
Realisable == (Len(sc.recips) > 1 => sc.supplied)
\* covering subset: all singletons of every dimension against a fixed base, plus the full cipher x recipient-set product
Base == [cipher |-> 9, comp |-> 1, recips |-> <<"rsa">>, body |-> "ascii", signed |-> FALSE, supplied |-> FALSE, armor |-> FALSE]
Diff == Cardinality({f \in DOMAIN sc : sc[f] # Base[f]})
Chosen == Realisable /\ (Diff <= 1 \/ (sc.comp = 1 /\ sc.body = "ascii" /\ ~sc.armor /\ ~sc.signed /\ sc.supplied = (Len(sc.recips) > 1))
                        \/ (sc.cipher \in {7, 3} /\ sc.recips \in {<<"pw", "rsa">>, <<"cv25519">>} /\ sc.supplied))
Emit == Chosen => PrintT(<<"SCN", sc>>)
====
