SPECIFICATION Spec
CONSTANT MaxN = 70000
INVARIANT NewRoundTrip
INVARIANT NewShortest
INVARIANT OldRoundTrip
INVARIANT OldNarrowestFits
INVARIANT SubRoundTrip
INVARIANT SubVsPacket
INVARIANT MPIRoundTrip
INVARIANT MPIPadded
INVARIANT CountTable
INVARIANT QuadTheorems
INVARIANT PartialRoundTrip
CHECK_DEADLOCK FALSE
