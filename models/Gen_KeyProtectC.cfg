SPECIFICATION GSpec
CONSTANT Pass <- MCPass
CONSTANT WipeUnprotected = FALSE
CONSTANT ProtectLocked = FALSE
CONSTANT CheckSelected = TRUE
CONSTRAINT Bound
VIEW GView
INVARIANT Emit
INVARIANT NoSecretLost
INVARIANT NeverGarbage
CHECK_DEADLOCK FALSE
