SPECIFICATION TSpec
CONSTANT Keys = {"A", "B"}
CONSTANT Pass = {"p1", "p2"}
CONSTANT Docs = {"d1", "d2"}
CONSTANT MaxSigs = 1000
CONSTANT MaxCts = 1000
CHECK_DEADLOCK FALSE
