---- MODULE MC_Sound ----
EXTENDS Sound
====
