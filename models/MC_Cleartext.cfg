SPECIFICATION Spec
CONSTANT MaxLen = 5
INVARIANT EscapeRoundTrip
INVARIANT FrameRoundTrip
INVARIANT Tricky
INVARIANT CanonFacts
CHECK_DEADLOCK FALSE
