SPECIFICATION Spec
CONSTANT N = 4
CONSTANT CheckMDC = TRUE
CONSTANT CheckPrefix = TRUE
CONSTANT CheckKey = FALSE
CONSTANT AcceptSED = FALSE
INVARIANT Integrity
INVARIANT WrongKeyRaises
INVARIANT UntouchedDecrypts
CHECK_DEADLOCK FALSE
