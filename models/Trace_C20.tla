------------------------------ MODULE Trace_C20 ------------------------------
(* Binding O for C20: exported messages recognised by Message.tla; import projections compared.   *)
EXTENDS Message, TLC, Json, IOUtils
J == JsonDeserialize(IOEnv.TRACE_FILE)
Events == J.events
VARIABLE i
\* e.blob: bytes(message); e.inner: the inflated content of the compressed packet (harness primitive) or <<>>;
\* e.expect: [content, filename, time, format, comp, nsig, sigs (packets), encrypted]
ExportEv(e) ==
  LET top == Split(e.blob) IN
  IF ~top.ok \/ ~Grammar(top.pkts) THEN "C20.grammar"
  ELSE IF e.expect.encrypted THEN (IF Encrypted(top.pkts) \/ SigPrefixed(top.pkts) THEN "ok" ELSE "C20.grammar")
  ELSE LET compressed == Len(top.pkts) = 1 /\ top.pkts[1].tag = 8
           in == IF compressed THEN Split(e.inner) ELSE top IN
    IF compressed # (e.expect.comp # 0) THEN "C20.compress-scope"
    ELSE IF compressed /\ top.pkts[1].body[1] # e.expect.comp THEN "C20.compress-scope"
    ELSE IF ~in.ok \/ ~(Plain(in.pkts) \/ OnePassShape(in.pkts)) \/ (compressed /\ \E k \in 1..Len(in.pkts) : in.pkts[k].tag = 8) THEN "C20.compress-scope"
    ELSE LET ps == in.pkts  lit == LiteralOf(ps)  lf == LitFields(lit.body) IN
      IF lit.tag # 11 \/ Cardinality({k \in 1..Len(ps) : ps[k].tag = 11}) # 1 THEN "C20.single-literal"
      ELSE IF Len(SigPacketsOf(ps)) # e.expect.nsig \/ (e.expect.nsig > 0 /\ ~OnePassShape(ps)) THEN "C20.ops-match"
      ELSE IF e.expect.nsig > 0 /\ ~OpsMatch(ps) THEN "C20.ops-match"
      ELSE IF e.expect.nsig > 0 /\ ~OpsLast(ps) THEN "C20.ops-last"
      ELSE IF ~lf.ok \/ lf.content # e.expect.content THEN "C20.content"
      ELSE IF lf.filename # e.expect.filename \/ lf.time # e.expect.time \/ lf.format # e.expect.format THEN "C20.metadata"
      ELSE IF {SigPacketsOf(ps)[k].body : k \in 1..Len(SigPacketsOf(ps))} # {e.expect.sigs[k] : k \in 1..Len(e.expect.sigs)} THEN "C20.sigs"
      ELSE "ok"
ImportEv(e) == IF e.raised THEN "C20.import" ELSE IF e.before # e.after THEN e.clause ELSE "ok"
Judge(e) == CASE e.k = "export" -> ExportEv(e) [] e.k = "import" -> ImportEv(e) [] OTHER -> "harness.unknown-event"
Init == i = 1
Next == /\ i <= Len(Events) + 1
        /\ IF i = Len(Events) + 1 THEN PrintT(<<"DONE", Len(Events)>>)
           ELSE LET v == Judge(Events[i]) IN IF v = "ok" THEN TRUE ELSE PrintT(<<"REJECT", i, v>>)
        /\ i' = i + 1
Spec == Init /\ [][Next]_i
=============================================================================
