------------------------------ MODULE Trace_Fpr ------------------------------
(* Binding O for C18: fingerprint preimages, key ids and emitted id fields.                       *)
EXTENDS Subpackets, Encrypt, TLC, Json, IOUtils
J == JsonDeserialize(IOEnv.TRACE_FILE)
Events == J.events
VARIABLE i
FprEv(e) ==
  LET kb == KeyBodies(e.blob) IN
  IF Len(kb) # Len(e.preimages) \/ Len(kb) # Len(e.fpr_octets) THEN "C18.preimage"
  ELSE IF \E k \in 1..Len(kb) : e.preimages[k] # <<153>> \o BE(Len(kb[k]), 2) \o kb[k] THEN "C18.preimage"
  ELSE IF \E k \in 1..Len(kb) : e.fpr_octets[k] # e.digests[k] THEN "C18.preimage"
  ELSE IF \E k \in 1..Len(kb) : e.keyids[k] # SubSeq(e.digests[k], 13, 20) THEN "C18.keyid"
  ELSE IF ~e.same_as_original THEN "C18.stable"
  ELSE IF KeyCreated(kb[1]) # e.created_octets THEN "C18.stable"
  ELSE "ok"
IdEv(e) ==
  IF e.kind = "signature" THEN
     LET f == SigFields(e.body) IN
     IF ~f.ok THEN "C18.id-fields"
     ELSE IF IssuerIds(f) # {SubSeq(e.fpr, 13, 20)} THEN "C18.id-fields"
     ELSE IF IssuerFprs(f) # {e.fpr} THEN "C18.id-fields"
     ELSE IF ~e.verifies THEN "C18.id-fields"
     ELSE "ok"
  ELSE LET f == PkeskFields(e.body) IN
     IF ~f.ok \/ f.keyid # SubSeq(e.fpr, 13, 20) \/ ~e.verifies THEN "C18.id-fields" ELSE "ok"
\* a stand-alone key attached as a subkey: the public fields (version, creation time, algorithm, key material) of the subkey packet are
\* those of the key packet it was made from, and so is the fingerprint reported
PubFields(body) == SubSeq(body, 1, PubEnd(body) - 1)
AttachEv(e) ==
  LET kb0 == KeyBodies(e.before)  kb1 == KeyBodies(e.after) IN
  IF Len(kb0) < 1 \/ Len(kb1) < e.index \/ PubEnd(kb0[1]) = 0 \/ PubEnd(kb1[e.index]) = 0 THEN "harness.attach-layout"
  ELSE IF PubFields(kb1[e.index]) # PubFields(kb0[1]) THEN "C18.stable"
  ELSE IF e.fpr_after # e.fpr_before \/ e.fpr_object # e.fpr_before THEN "C18.stable"
  ELSE "ok"
Judge(e) == CASE e.k = "attach" -> AttachEv(e) [] e.k = "fpr" -> FprEv(e) [] e.k = "idfield" -> IdEv(e) [] OTHER -> "harness.unknown-event"
Init == i = 1
Next == /\ i <= Len(Events) + 1
        /\ IF i = Len(Events) + 1 THEN PrintT(<<"DONE", Len(Events)>>)
           ELSE LET v == Judge(Events[i]) IN IF v = "ok" THEN TRUE ELSE PrintT(<<"REJECT", i, v>>)
        /\ i' = i + 1
Spec == Init /\ [][Next]_i
=============================================================================
