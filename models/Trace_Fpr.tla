------------------------------ MODULE Trace_Fpr ------------------------------
(* Binding O for C18: fingerprint preimages, key ids and emitted id fields.                       *)
EXTENDS Subpackets, Encrypt, TLC, Json, IOUtils
J == JsonDeserialize(IOEnv.TRACE_FILE)
Events == J.events
VARIABLE i
FprEv(e) ==
  LET kb == KeyBodies(e.blob) IN
  IF Len(kb) # Len(e.preimages) \/ Len(kb) # Len(e.fpr_octets) THEN "C18.preimage"
  ELSE IF \E k \in 1..Len(kb) : e.preimages[k] # <<153>> \o BE(Len(kb[k]), 2) \o kb[k] THEN "C18.preimage"
  ELSE IF \E k \in 1..Len(kb) : e.fpr_octets[k] # e.digests[k] THEN "C18.preimage"
  ELSE IF \E k \in 1..Len(kb) : e.keyids[k] # SubSeq(e.digests[k], 13, 20) THEN "C18.keyid"
  ELSE IF ~e.same_as_original THEN "C18.stable"
  ELSE IF KeyCreated(kb[1]) # e.created_octets THEN "C18.stable"
  ELSE "ok"
IdEv(e) ==
  IF e.kind = "signature" THEN
     LET f == SigFields(e.body) IN
     IF ~f.ok THEN "C18.id-fields"
     ELSE IF IssuerIds(f) # {SubSeq(e.fpr, 13, 20)} THEN "C18.id-fields"
     ELSE IF IssuerFprs(f) # {e.fpr} THEN "C18.id-fields"
     ELSE IF ~e.verifies THEN "C18.id-fields"
     ELSE "ok"
  ELSE LET f == PkeskFields(e.body) IN
     IF ~f.ok \/ f.keyid # SubSeq(e.fpr, 13, 20) \/ ~e.verifies THEN "C18.id-fields" ELSE "ok"
Judge(e) == CASE e.k = "fpr" -> FprEv(e) [] e.k = "idfield" -> IdEv(e) [] OTHER -> "harness.unknown-event"
Init == i = 1
Next == /\ i <= Len(Events) + 1
        /\ IF i = Len(Events) + 1 THEN PrintT(<<"DONE", Len(Events)>>)
           ELSE LET v == Judge(Events[i]) IN IF v = "ok" THEN TRUE ELSE PrintT(<<"REJECT", i, v>>)
        /\ i' = i + 1
Spec == Init /\ [][Next]_i
=============================================================================
