SPECIFICATION Spec
CONSTANT Pass <- MCPass
CONSTRAINT Bound
INVARIANT TypeOK
INVARIANT RelockedOutsideScopes
CHECK_DEADLOCK FALSE
