---- MODULE MC_KeyringImpl ----
EXTENDS KeyringImpl
\* four primaries x two halves; K0 and K1 share name and e-mail, K3 shares the name with K0, K0's comment differs from K2's / K3's only
\* by a space; K1 and K2 have an encryption subkey; K0 and K3 are created in the same second.
MCPrim == {"K0s", "K0p", "K1s", "K1p", "K2s", "K2p", "K3s", "K3p"}
MCSubObj == {"K1s/1", "K1p/1", "K2s/1", "K2p/1"}
MCSubs == [p \in MCPrim |-> IF p \in {"K1s", "K1p", "K2s", "K2p"} THEN <<p \o "/1">> ELSE <<>>]
MCAlias == [h \in MCPrim \cup MCSubObj |->
   CASE h \in {"K0s", "K0p"} -> <<"fp0", "Alice", "c 1", "a@x">>
     [] h \in {"K1s", "K1p"} -> <<"fp1", "Alice", "c2", "a@x">>
     [] h \in {"K2s", "K2p"} -> <<"fp2", "Bob", "c1", "b@x">>
     [] h \in {"K3s", "K3p"} -> <<"fp3", "Alice", "c1", "c@x">>
     [] h \in {"K1s/1", "K1p/1"} -> <<"fp1sub">>
     [] OTHER -> <<"fp2sub">>]
MCCreated == [h \in MCPrim \cup MCSubObj |->
   CASE h \in {"K0s", "K0p", "K3s", "K3p"} -> 0 [] h \in {"K1s", "K1p", "K1s/1", "K1p/1"} -> 1 [] OTHER -> 2]
MCIsPublic == [h \in MCPrim \cup MCSubObj |-> h \in {"K0p", "K1p", "K2p", "K3p", "K1p/1", "K2p/1"}]
\* queries: every alias as it is, two fingerprints written in groups, and a string that belongs to no key
MCAliases == {"fp0", "fp1", "fp2", "fp3", "fp1sub", "fp2sub", "Alice", "Bob", "c 1", "c1", "c2", "a@x", "b@x", "c@x"}
MCSqueeze == [q \in MCAliases \cup {"fp 0", "fp 2sub", "no body"} |->
   CASE q = "fp 0" -> "fp0" [] q = "fp 2sub" -> "fp2sub" [] q = "c 1" -> "c1" [] q = "no body" -> "nobody" [] OTHER -> q]
MCHexLike == {"fp0", "fp1", "fp2", "fp3", "fp1sub", "fp2sub", "fp 0", "fp 2sub"}
MCMsgs == {{"fp2sub"}, {"fp1sub", "fp2sub"}}
====
