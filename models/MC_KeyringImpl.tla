---- MODULE MC_KeyringImpl ----
EXTENDS KeyringImpl
\* four primaries x two halves; K0 and K1 share name and e-mail, K3 shares name and comment with K0,
\* K2 shares the comment only and has a subkey; K0 and K3 are created in the same second.
MCPrim == {"K0s", "K0p", "K1s", "K1p", "K2s", "K2p", "K3s", "K3p"}
MCSubs == [p \in MCPrim |-> IF p = "K2s" THEN <<"K2s/1">> ELSE IF p = "K2p" THEN <<"K2p/1">> ELSE <<>>]
Base(h) == SubSeq(h, 1, 2)
MCAlias == [h \in MCPrim \cup {"K2s/1", "K2p/1"} |->
   CASE h \in {"K0s", "K0p"} -> <<"fp0", "Alice", "c1", "a@x">>
     [] h \in {"K1s", "K1p"} -> <<"fp1", "Alice", "c2", "a@x">>
     [] h \in {"K2s", "K2p"} -> <<"fp2", "Bob", "c1", "b@x">>
     [] h \in {"K3s", "K3p"} -> <<"fp3", "Alice", "c1", "c@x">>
     [] OTHER -> <<"fp2sub">>]
MCCreated == [h \in MCPrim \cup {"K2s/1", "K2p/1"} |->
   CASE h \in {"K0s", "K0p", "K3s", "K3p"} -> 0 [] h \in {"K1s", "K1p"} -> 1 [] OTHER -> 2]
MCIsPublic == [h \in MCPrim \cup {"K2s/1", "K2p/1"} |-> h \in {"K0p", "K1p", "K2p", "K3p", "K2p/1"}]
====
