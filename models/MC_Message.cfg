SPECIFICATION Spec
INVARIANT GrammarIsRef
CHECK_DEADLOCK FALSE
