SPECIFICATION GSpec
CONSTANT Inst <- GInst
CONSTANT Comps <- GComps
CONSTANT CompAliases <- GAliases
CONSTANT CompFpr <- GFpr
CONSTANT MaxLen = 25
CONSTRAINT Bound
INVARIANT EmitFull
INVARIANT TypeOK
CHECK_DEADLOCK FALSE
