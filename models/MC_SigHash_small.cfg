SPECIFICATION Spec
CONSTANT Small = TRUE
INVARIANT Injective
INVARIANT Counted
CHECK_DEADLOCK FALSE
