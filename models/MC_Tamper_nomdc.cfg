SPECIFICATION Spec
CONSTANT N = 4
CONSTANT CheckMDC = FALSE
CONSTANT CheckPrefix = TRUE
CONSTANT CheckKey = TRUE
CONSTANT AcceptSED = FALSE
INVARIANT Integrity
INVARIANT WrongKeyRaises
INVARIANT UntouchedDecrypts
CHECK_DEADLOCK FALSE
