------------------------------ MODULE Trace_C09 ------------------------------
(* Binding O for C09: every event is one call of a PGPy codec (argument and result as octets);  *)
(* TLC evaluates the Wire / Packets operator on it.  One verdict per event.                      *)
EXTENDS Subpackets, TLC, Json, IOUtils
J == JsonDeserialize(IOEnv.TRACE_FILE)
Events == J.events
VARIABLE i
\* ---- clauses; each returns "ok" or the name of the failing clause
NewEnc(e) == IF e.out = NewLenEncQ(e.q) THEN "ok" ELSE "C09.newlen"
NewDec(e) ==        \* e.inp: octets given to the decoder, e.q: decoded quad, e.used: octets consumed
  LET d == NewLenDecAt(e.inp, 1) IN
  IF d.kind = "def" /\ d.quad = e.q /\ d.size = e.used THEN "ok" ELSE "C09.newlen"
OldEnc(e) == IF OldFitsQ(e.q, e.lt) => e.out = OldLenEncQ(e.q, e.lt) THEN "ok" ELSE "C09.oldlen"
OldDec(e) == IF OldLenDecQ(e.inp, e.lt) = e.q /\ e.used = OldWidth(e.lt) THEN "ok" ELSE "C09.oldlen"
SubEncEv(e) == LET d == SubLenDecAt(e.out \o <<2>>, 1) IN
             IF d.ok /\ d.val = e.n /\ d.size = Len(e.out) THEN "ok" ELSE "C09.sublen"
SubDec(e) == LET d == SubLenDecAt(e.inp, 1) IN
             IF d.ok /\ d.val = e.n /\ d.size = e.used THEN "ok" ELSE "C09.sublen"
MpiEnc(e) == IF e.out = MPIEnc(e.mag) THEN "ok" ELSE "C09.mpi"
MpiDec(e) == LET d == MPIDecAt(e.inp, 1) IN
             IF d.ok /\ d.mag = e.mag /\ d.next - 1 = e.used THEN "ok" ELSE "C09.mpi"
Time(e) == IF e.out = TimeEncQ(e.q) /\ e.secs = e.q THEN "ok" ELSE "C09.time"
Count(e) == IF S2KCount(e.c) = e.n THEN "ok" ELSE "C09.count"
Partial(e) ==      \* e.pkt: new-format packet with partial lengths; PGPy reported e.total and left e.body
  LET k == PacketAt(e.pkt, 1) IN
  IF k.ok /\ k.bl = e.total /\ k.body = e.body /\ k.next - 1 = e.used THEN "ok" ELSE "C09.partial"
Hdr(e) ==          \* e.out: whole packet as emitted after the body changed to e.n octets
  LET k == PacketAt(e.out \o e.tail, 1) IN
  IF ~(k.ok /\ k.tag = e.tag /\ k.bl = e.n /\ k.next = Len(e.out) + 1) THEN "C09.width"
  ELSE IF k.fmt = "new" /\ ~k.partial /\ k.hl # 1 + Len(NewLenEnc(e.n)) THEN "C09.newlen"
  ELSE IF ~e.reparsed THEN "C09.width"
  ELSE "ok"
\* a whole export of a real object after operations that changed the size of packet bodies (re-protection with a cipher of another block
\* size, ...): every length field must decode to the body that follows, i.e. the octets split into exactly the expected packets
RealSeq(e) ==
  LET sp == Split(e.blob) IN
  IF ~sp.ok THEN "C09.width"
  ELSE IF [k \in 1..Len(sp.pkts) |-> sp.pkts[k].tag] # e.tags THEN "C09.width"
  ELSE IF \E k \in 1..Len(sp.pkts) : LET pk == sp.pkts[k] IN pk.fmt = "new" /\ ~pk.partial /\ pk.hl # 1 + Len(NewLenEnc(pk.bl)) THEN "C09.newlen"
  ELSE IF ~e.reparsed THEN "C09.width"
  ELSE "ok"
\* a signature PGPy BUILT with one subpacket of a chosen length (e.len, type e.sptype) in its hashed area: the packet must be a well-formed
\* v4 signature (both subpacket areas tile exactly: SubSplit; SigWF), the subpacket must be found with exactly that length, and its length
\* field must decode back (SubLenDecAt is what SubSplit uses)
RealSig(e) ==
  LET k == PacketAt(e.pkt, 1) IN
  IF ~k.ok \/ k.tag # 2 \/ k.next # Len(e.pkt) + 1 THEN "C09.width"
  ELSE IF ~SigWF(k.body) THEN "C09.sublen"
  ELSE LET hs == SubSplit(SigFields(k.body).hashedArea).sps IN
    IF ~\E j \in 1..Len(hs) : hs[j].type = e.sptype /\ Len(hs[j].body) + 1 = e.len THEN "C09.sublen"
    ELSE IF ~e.reparsed THEN "C09.sublen"
    ELSE "ok"
Judge(e) == CASE e.k = "realsig" -> RealSig(e) [] e.k = "realseq" -> RealSeq(e) [] e.k = "newenc" -> NewEnc(e) [] e.k = "newdec" -> NewDec(e)
              [] e.k = "oldenc" -> OldEnc(e) [] e.k = "olddec" -> OldDec(e)
              [] e.k = "subenc" -> SubEncEv(e) [] e.k = "subdec" -> SubDec(e)
              [] e.k = "mpienc" -> MpiEnc(e) [] e.k = "mpidec" -> MpiDec(e)
              [] e.k = "time" -> Time(e) [] e.k = "count" -> Count(e)
              [] e.k = "partial" -> Partial(e) [] e.k = "hdr" -> Hdr(e)
              [] OTHER -> "C09.unknown-event"
Init == i = 1
Next == /\ i <= Len(Events) + 1
        /\ IF i = Len(Events) + 1 THEN PrintT(<<"DONE", Len(Events)>>)
           ELSE LET v == Judge(Events[i]) IN IF v = "ok" THEN TRUE ELSE PrintT(<<"REJECT", i, v>>)
        /\ i' = i + 1
Spec == Init /\ [][Next]_i
=============================================================================
