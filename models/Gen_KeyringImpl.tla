---- MODULE Gen_KeyringImpl ----
(* State-coverage generator for C19: one (shortest, breadth-first with one worker) history to      *)
(* EVERY distinct state of the algorithm spec KeyringImpl - i.e. to every alias-layer configuration *)
(* the model can reach.  The history variable is hidden from TLC's state identity by the VIEW.      *)
EXTENDS MC_KeyringImpl
VARIABLE hist
GInit == Init /\ hist = <<>>
GPrim(p) == \/ (Load(p) \/ Reload(p)) /\ hist' = Append(hist, <<"load", p>>)
            \/ Unload(p) /\ hist' = Append(hist, <<"unload", p>>)
GSub(h) == \/ LoadSub(h) /\ hist' = Append(hist, <<"load", h>>)
           \/ UnloadSub(h) /\ hist' = Append(hist, <<"unload", h>>)
GNext == (\E p \in Prim : GPrim(p)) \/ (\E h \in SubObjs : GSub(h))
GSpec == GInit /\ [][GNext]_<<vars, hist>>
ImplView == vars
Emit == Len(hist) >= 1 => PrintT(<<"BEH", hist>>)
====
