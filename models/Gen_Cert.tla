---- MODULE Gen_Cert ----
(* Behaviour generator (binding G) for C14 / C15: key-management histories over Cert.tla.        *)
EXTENDS Cert, TLC
CONSTANT MaxLen
VARIABLES st, hist
Acts ==
  {[op |-> "add_uid", a |-> u, tag |-> "p1", prim |-> FALSE] : u \in UidNames} \cup {[op |-> "add_uid", a |-> "B", tag |-> "p2", prim |-> TRUE]}
  \cup {[op |-> "recertify", a |-> u, tag |-> "p2", prim |-> FALSE] : u \in {"A", "B"}} \cup {[op |-> "recertify", a |-> "A", tag |-> "p3", prim |-> TRUE]}
  \cup {[op |-> "recertify", a |-> "B", tag |-> "p1", prim |-> FALSE]}          \* a re-certification WITHOUT a validity period (lifts an earlier one)
  \cup {[op |-> "third", a |-> u, tag |-> "t", prim |-> FALSE] : u \in {"A", "IMG"}} \cup {[op |-> "third-local", a |-> "A", tag |-> "t", prim |-> FALSE]}
  \cup {[op |-> "revoke_uid", a |-> u, tag |-> "r", prim |-> FALSE] : u \in {"A", "B"}}
  \cup {[op |-> "del_uid", a |-> u, tag |-> "-", prim |-> FALSE] : u \in {"A", "B"}}
  \cup {[op |-> "add_sub", a |-> "S1", tag |-> "f-sign", prim |-> FALSE], [op |-> "add_sub", a |-> "S2", tag |-> "f-enc", prim |-> FALSE]}
  \cup {[op |-> "rebind", a |-> "S1", tag |-> "f-auth", prim |-> FALSE], [op |-> "rebind", a |-> "S2", tag |-> "f-enc2", prim |-> FALSE]}
  \cup {[op |-> "revoke_sub", a |-> s, tag |-> "r", prim |-> FALSE] : s \in {"S1", "S2"}}
  \cup {[op |-> o, a |-> "-", tag |-> "-", prim |-> FALSE] : o \in {"revoke_key", "add_revoker", "tick", "export_import", "copy", "protect_unlock"}}
GInit == st = Empty /\ hist = <<>>
GNext == \E act \in Acts : Enabled(st, act) /\ st' = Apply(st, act) /\ hist' = Append(hist, act)
GSpec == GInit /\ [][GNext]_<<st, hist>>
Bound == Len(hist) < MaxLen
Emit == (Len(hist) >= 1 /\ Len(st.uids) >= 1) => PrintT(<<"BEH", hist>>)
EmitFull == Len(hist) = MaxLen => PrintT(<<"BEH", hist>>)
\* sanity of the model itself
LedgerOK == \A k \in 1..Len(st.ledger) : st.ledger[k].seq = k /\ st.ledger[k].tick <= st.tick
====
