---- MODULE Gen_Usage ----
(* Scenario generator (binding G) for C16: a covering set of the Usage scenario space, each with *)
(* the outcome the algorithm spec predicts.                                                        *)
EXTENDS Usage, TLC
VARIABLE sc
FS == SUBSET Flag
SmallFS == {{}, {"S"}, {"EC"}, {"S", "EC"}, {"C", "S"}, {"A"}, {"ES"}}
OKForm(op) == IF op = "encrypt" THEN "public" ELSE "private-unprotected"
Base == {[pflags |-> p, subs |-> s, op |-> o, form |-> OKForm(o), enforce |-> en, hasid |-> TRUE] :
           p \in FS, s \in {<<>>} \cup {<<<<f>>>> : f \in SmallFS}, o \in {"sign", "certify", "encrypt", "decrypt"}, en \in BOOLEAN}
FormSet == {[pflags |-> p, subs |-> s, op |-> o, form |-> fo, enforce |-> TRUE, hasid |-> h] :
           p \in {{"S"}, {"EC"}, {}}, s \in {<<>>, <<<<{"S"}>>>>, <<<<{"EC"}>>>>}, o \in Ops, fo \in Forms, h \in BOOLEAN}
Rebind == {[pflags |-> p, subs |-> <<<<f, g>>>>, op |-> o, form |-> OKForm(o), enforce |-> en, hasid |-> TRUE] :
           p \in {{}, {"S"}}, f \in SmallFS, g \in SmallFS, o \in {"sign", "encrypt"}, en \in BOOLEAN}
Multi == {[pflags |-> {}, subs |-> <<<<f>>, <<g>>>>, op |-> o, form |-> OKForm(o), enforce |-> en, hasid |-> TRUE] :
           f \in SmallFS, g \in SmallFS, o \in {"sign", "encrypt"}, en \in BOOLEAN}
         \cup {[pflags |-> {}, subs |-> <<<<f>>, <<g>>, <<h>>>>, op |-> o, form |-> OKForm(o), enforce |-> en, hasid |-> TRUE] :
           f \in {{}, {"S"}, {"EC"}}, g \in {{}, {"S"}, {"EC"}}, h \in {{}, {"S"}, {"EC"}}, o \in {"sign", "encrypt"}, en \in BOOLEAN}
\* decryption of a message addressed to each of 2-3 subkeys in turn (the harness addresses every component it can)
MultiDec == {[pflags |-> {}, subs |-> <<<<f>>, <<g>>>>, op |-> "decrypt", form |-> fo, enforce |-> en, hasid |-> TRUE] :
           f \in {{}, {"EC"}, {"ES"}, {"S"}}, g \in {{}, {"EC"}, {"S"}}, fo \in {"private-unprotected", "private-unlocked"}, en \in BOOLEAN}
         \cup {[pflags |-> {"EC"}, subs |-> <<<<f>>, <<g>>, <<h>>>>, op |-> "decrypt", form |-> "private-unprotected", enforce |-> TRUE, hasid |-> TRUE] :
           f \in {{}, {"EC"}}, g \in {{}, {"EC"}}, h \in {{}, {"EC"}}}
         \cup {[pflags |-> {}, subs |-> <<<<f, g>>>>, op |-> "decrypt", form |-> "private-unprotected", enforce |-> TRUE, hasid |-> TRUE] :
           f \in {{"EC"}, {"S"}}, g \in {{"EC"}, {"S"}, {}}}
\* two identities with different capabilities; pflags are those of the CHOSEN identity, other those of the other one
Ident == {[pflags |-> p, subs |-> s, op |-> o, form |-> OKForm(o), enforce |-> TRUE, hasid |-> TRUE, other |-> q, mode |-> m] :
           p \in {{}, {"S"}, {"EC"}, {"S", "EC"}}, q \in {{}, {"S"}, {"EC"}, {"S", "EC"}}, s \in {<<>>, <<<<{"S"}>>>>, <<<<{"EC"}>>>>},
           o \in {"sign", "encrypt"}, m \in {"default", "named-default", "named-other"}}
Init == sc \in Base \cup FormSet \cup Rebind \cup Multi \cup MultiDec \cup Ident
Next == UNCHANGED sc
Spec == Init /\ [][Next]_sc
Realisable == sc.hasid \/ sc.subs = <<>>          \* a key without an identity cannot get subkeys
Core == [f \in {"pflags", "subs", "op", "form", "enforce", "hasid"} |-> sc[f]]
Emit == Realisable => PrintT(<<"SCN", sc, ImplOutcome(Core, TRUE), MustRefuse(Core)>>)
Sound == Allowed(Core, ImplOutcome(Core, TRUE))
====
