---- MODULE Gen_Usage ----
(* Scenario generator (binding G) for C16: a covering set of the Usage scenario space, each with *)
(* the outcome the algorithm spec predicts.                                                        *)
EXTENDS Usage, TLC
VARIABLE sc
FS == SUBSET Flag
SmallFS == {{}, {"S"}, {"EC"}, {"S", "EC"}, {"C", "S"}, {"A"}, {"ES"}}
OKForm(op) == IF op = "encrypt" THEN "public" ELSE "private-unprotected"
Base == {[pflags |-> p, subs |-> s, op |-> o, form |-> OKForm(o), enforce |-> en, hasid |-> TRUE] :
           p \in FS, s \in {<<>>} \cup {<<<<f>>>> : f \in SmallFS}, o \in {"sign", "certify", "encrypt", "decrypt"}, en \in BOOLEAN}
FormSet == {[pflags |-> p, subs |-> s, op |-> o, form |-> fo, enforce |-> TRUE, hasid |-> h] :
           p \in {{"S"}, {"EC"}, {}}, s \in {<<>>, <<<<{"S"}>>>>, <<<<{"EC"}>>>>}, o \in Ops, fo \in Forms, h \in BOOLEAN}
Rebind == {[pflags |-> p, subs |-> <<<<f, g>>>>, op |-> o, form |-> OKForm(o), enforce |-> en, hasid |-> TRUE] :
           p \in {{}, {"S"}}, f \in SmallFS, g \in SmallFS, o \in {"sign", "encrypt"}, en \in BOOLEAN}
Multi == {[pflags |-> {}, subs |-> <<<<f>>, <<g>>>>, op |-> o, form |-> OKForm(o), enforce |-> en, hasid |-> TRUE] :
           f \in SmallFS, g \in SmallFS, o \in {"sign", "encrypt"}, en \in BOOLEAN}
         \cup {[pflags |-> {}, subs |-> <<<<f>>, <<g>>, <<h>>>>, op |-> o, form |-> OKForm(o), enforce |-> en, hasid |-> TRUE] :
           f \in {{}, {"S"}, {"EC"}}, g \in {{}, {"S"}, {"EC"}}, h \in {{}, {"S"}, {"EC"}}, o \in {"sign", "encrypt"}, en \in BOOLEAN}
Init == sc \in Base \cup FormSet \cup Rebind \cup Multi
Next == UNCHANGED sc
Spec == Init /\ [][Next]_sc
Realisable == sc.hasid \/ sc.subs = <<>>          \* a key without an identity cannot get subkeys
Emit == Realisable => PrintT(<<"SCN", sc, ImplOutcome(sc, TRUE), MustRefuse(sc)>>)
Sound == Allowed(sc, ImplOutcome(sc, TRUE))
====
