SPECIFICATION TSpec
CONSTANT Inst <- TInst
CONSTANT Comps <- TComps
CONSTANT CompAliases <- TAliases
CONSTANT CompFpr <- TFpr
CHECK_DEADLOCK FALSE
