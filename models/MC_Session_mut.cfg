SPECIFICATION SpecMut
CONSTANT Keys = {"A", "B"}
CONSTANT Pass = {"p1", "p2"}
CONSTANT Docs = {"d1", "d2"}
CONSTANT MaxSigs = 2
CONSTANT MaxCts = 1
CONSTRAINT Bound
INVARIANT TypeOK
INVARIANT Relocked
PROPERTY NoLockedSigner
PROPERTY OnlyRecipientsRead
PROPERTY AppendOnly
CHECK_DEADLOCK FALSE
