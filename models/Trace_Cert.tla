------------------------------ MODULE Trace_Cert ------------------------------
(* Binding V for C14 / C15: recorded key-management histories of real keys validated against      *)
(* Cert.tla.  FOCUS selects the clause family.  A view is the projection of one key object         *)
(* (private key, its public twin derived now, the export -> import image, a copy).                 *)
EXTENDS Cert, TLC, Json, IOUtils
J == JsonDeserialize(IOEnv.TRACE_FILE)
Traces == J.traces
Focus == IOEnv.FOCUS
VARIABLES tid, i, st
tvars == <<tid, i, st>>
Ev == Traces[tid][i]
SetOf(s) == {s[k] : k \in 1..Len(s)}
Present(s) == SetOf(s.uids)
\* ---- C15 clauses for one view v of state s (v.imported: non-exportable signatures are gone)
EffOK(s, v, u) ==
  LET e == EffSelf(s, u) IN
  IF e.kind # "cert" THEN TRUE                               \* no self-certification or a revoked identity: unconstrained
  ELSE v.eff[u] \in TieCands(s, u)
TieOK(s, v, u) == LET e == EffSelf(s, u) IN e.kind # "cert" \/ v.eff[u] = e.seq
ValuesOK(s, v, u) ==       \* the flags / preferences / primary mark reported are those of the signature the library says is effective
  LET e == EffSelf(s, u) IN
  e.kind # "cert" \/ v.eff[u] = 0 \/ (v.eff_tag[u] = s.ledger[v.eff[u]].tag /\ v.primary[u] = s.ledger[v.eff[u]].prim)
C15(s, v) ==
  IF "export_ok" \in DOMAIN v /\ ~v.export_ok THEN "C15.export"          \* the key no longer serialises to a sequence of packets
  ELSE IF SetOf(v.uids) # Present(s) THEN "C15.removed"
  ELSE IF SetOf(v.subs) # SetOf(s.subs) THEN "C15.twin"
  ELSE IF ~v.verify_all THEN "C15.selfsigs-verify"
  ELSE IF \E u \in Present(s) : ~EffOK(s, v, u) THEN "C15.effective"
  ELSE IF \E u \in Present(s) : ~ValuesOK(s, v, u) THEN "C15.effective"
  ELSE IF \E x \in SetOf(s.subs) : v.bind_eff[x] \notin BindTieCands(s, x) THEN "C15.effective"
  ELSE IF \E x \in SetOf(s.subs) : v.bind_eff[x] # 0 /\ v.bind_tag[x] # s.ledger[v.bind_eff[x]].tag THEN "C15.effective"
  ELSE IF \E u \in Present(s) : v.revoked[u] # UidRevoked(s, u) THEN "C15.revocation"
  ELSE IF \E x \in SetOf(s.subs) : v.revoked[x] # SubRevoked(s, x) THEN "C15.revocation"
  ELSE IF v.revoked.key # KeyRevoked(s) THEN "C15.revocation"
  ELSE IF "S1" \in SetOf(s.subs) /\ ~v.cross_ok THEN "C15.selfsigs-verify"
  ELSE IF "key_expiry" \in DOMAIN v /\ ~KeyExpiryOK(s, v.key_expiry) THEN "C15.key-expiry"
  ELSE IF \E u \in Present(s) : ~TieOK(s, v, u) THEN "C15.tie"
  ELSE IF \E x \in SetOf(s.subs) : v.bind_eff[x] # EffBind(s, x).seq THEN "C15.tie"
  ELSE "ok"
\* ---- C14 clauses: structure of the export and of what is attached to what
Expected(s, v, tgt) == IF v.imported THEN ExportableSigsOn(s, tgt) ELSE SigsOn(s, tgt)
C14(s, v) ==
  IF v.fingerprint # Ev.obs.priv.fingerprint \/ v.sub_fprs # Ev.obs.priv.sub_fprs THEN "C14.material"
  ELSE IF SetOf(v.uids) # Present(s) \/ SetOf(v.subs) # SetOf(s.subs) THEN "C14.multiset"
  ELSE IF \E u \in Present(s) : SetOf(v.sigs_on[u]) # Expected(s, v, u) \/ Len(v.sigs_on[u]) # Cardinality(Expected(s, v, u)) THEN
       (IF \E u \in Present(s) : \E q \in SetOf(v.sigs_on[u]) : q \notin SigsOn(s, u) THEN "C14.association" ELSE IF v.imported THEN "C14.exportable" ELSE "C14.multiset")
  ELSE IF \E x \in SetOf(s.subs) : SetOf(v.sigs_on[x]) # Expected(s, v, x) THEN "C14.association"
  ELSE IF SetOf(v.sigs_on.key) # Expected(s, v, "key") THEN "C14.association"
  ELSE IF ~v.verify_all THEN "C14.verify"
  ELSE IF ~v.grammar_ok THEN "C14.grammar"
  ELSE IF "copy_same_export" \in DOMAIN v /\ ~v.copy_same_export THEN "C14.copy"
  ELSE "ok"
\* ---- C07 clauses: the public counterpart derived NOW (and its export) against the private key it was derived from
C07(s, v, o) ==
  IF v.view = "private key" \/ v.view = "export -> import of the private key" THEN "ok"
  ELSE IF SetOf(v.tags) \ {6, 14, 13, 17, 2} # {} THEN "C07.tags"
  ELSE IF v.fingerprint # o.priv.fingerprint \/ v.sub_fprs # o.priv.sub_fprs THEN "C07.same-public-view"
  ELSE IF SetOf(v.uids) # SetOf(o.priv.uids) \/ SetOf(v.uids) # Present(s) \/ SetOf(v.subs) # SetOf(s.subs) THEN "C07.same-public-view"
  ELSE IF \E u \in Present(s) : SetOf(v.sigs_on[u]) # Expected(s, v, u) THEN "C07.same-public-view"
  ELSE IF \E x \in SetOf(s.subs) : SetOf(v.sigs_on[x]) # Expected(s, v, x) THEN "C07.same-public-view"
  ELSE IF SetOf(v.sigs_on.key) # Expected(s, v, "key") THEN "C07.same-public-view"
  ELSE "ok"
Views(o) == <<o.priv, o.pub, o.imp, o.pubimp>>
FirstBad(s, o) ==
  LET vs == Views(o)
      cl(v) == IF Focus = "C15" THEN C15(s, v) ELSE IF Focus = "C07" THEN C07(s, v, o) ELSE C14(s, v)
      bad == {k \in 1..Len(vs) : cl(vs[k]) # "ok"} IN
  IF bad = {} THEN <<"ok", "-">> ELSE LET k == CHOOSE x \in bad : \A y \in bad : x <= y IN <<cl(vs[k]), vs[k].view>>
NextTrace == tid' = tid + 1 /\ i' = 1 /\ st' = Empty
TInit == tid = 1 /\ i = 1 /\ st = Empty
Step == IF tid > Len(Traces) THEN PrintT(<<"DONE", Len(Traces)>>) /\ tid' = tid + 1 /\ UNCHANGED <<i, st>>
        ELSE IF Len(Traces[tid]) = 0 THEN NextTrace
        ELSE LET s == Apply(st, Ev.act)
                 c == IF ~Enabled(st, Ev.act) THEN <<"harness.not-enabled", "-">>
                      \* the history generator only takes actions the certificate admits (Cert.Enabled): one that raises breaks the history off
                      \* (C15: a verdict - the key can no longer be managed; the other foci judge states only)
                      ELSE IF Ev.raised THEN (IF Focus = "C15" THEN <<"C15.operation-raised", "-">> ELSE <<"ok", "-">>)
                      ELSE IF "obs" \in DOMAIN Ev THEN FirstBad(s, Ev.obs) ELSE <<"ok", "-">> IN
           IF c[1] # "ok" THEN PrintT(<<"REJECT", tid, c[1], i, c[2]>>) /\ NextTrace
           ELSE IF i = Len(Traces[tid]) THEN NextTrace
           ELSE tid' = tid /\ i' = i + 1 /\ st' = s
TSpec == TInit /\ [][tid <= Len(Traces) + 1 /\ Step]_tvars
=============================================================================
