------------------------------ MODULE Trace_C10 ------------------------------
(* Binding O for C10: armor written and read by PGPy judged by Armor.tla.                        *)
EXTENDS Armor, TLC, Json, IOUtils
J == JsonDeserialize(IOEnv.TRACE_FILE)
Events == J.events
VARIABLE i
KindLabels(expect) == CASE expect = "key" -> {LabelOf("pubkey"), LabelOf("privkey")}
                        [] expect = "message" -> {LabelOf("message")}
                        [] expect = "cleartext" -> {LabelOf("signature")}
                        [] expect = "signature" -> {LabelOf("signature")}
                        [] OTHER -> {}
\* e.text written by PGPy for an object of kind e.kind whose binary export is e.bin and armor headers e.headers
WriteEv(e) ==
  LET d == Dearmor(e.text) IN
  IF ~d.ok THEN "C10.decode"
  ELSE IF d.payload # e.bin THEN "C10.decode"
  ELSE IF d.label # LabelOf(e.kind) \/ ~d.tailok THEN "C10.label"
  ELSE IF d.maxline > 76 THEN "C10.linelen"
  ELSE IF ~d.hascrc \/ d.crc # CRCOctets(e.bin) THEN "C10.crc"
  ELSE IF d.headers # e.headers THEN "C10.headers"
  ELSE IF e.text[Len(e.text)] # 10 THEN "C10.decode"
  ELSE "ok"
\* e.text given to PGPy's loader for kind e.expect
ReadEv(e) ==
  LET d == Dearmor(e.text)
      valid == d.ok /\ d.tailok /\ d.crcok
      kindok == d.ok /\ d.label \in KindLabels(e.expect) IN
  IF e.out = "ok" THEN
     IF e.crcwarned THEN (IF valid THEN "C10.crc" ELSE "ok")            \* reported; but a correct checksum must not be reported as wrong
     ELSE IF ~valid THEN "C10.corrupt"
     ELSE IF ~kindok THEN "C10.wrongkind"
     ELSE IF e.bin # d.payload THEN "C10.load"
     ELSE IF "headers" \in DOMAIN e /\ e.headers # d.headers THEN "C10.headers"
     ELSE "ok"
  ELSE IF e.must_load /\ valid /\ kindok THEN "C10.load"
  ELSE "ok"
Judge(e) == CASE e.k = "write" -> WriteEv(e) [] e.k = "read" -> ReadEv(e) [] OTHER -> "harness.unknown-event"
Init == i = 1
Next == /\ i <= Len(Events) + 1
        /\ IF i = Len(Events) + 1 THEN PrintT(<<"DONE", Len(Events)>>)
           ELSE LET v == Judge(Events[i]) IN IF v = "ok" THEN TRUE ELSE PrintT(<<"REJECT", i, v>>)
        /\ i' = i + 1
Spec == Init /\ [][Next]_i
=============================================================================
