---- MODULE Gen_Message ----
(* Composition histories (binding G) for C20: New; Sign*; [Encrypt; Decrypt]; Export; Import.     *)
EXTENDS Naturals, Sequences, FiniteSets, TLC
Contents == {"empty", "ascii", "utf8", "latin1-hint", "binary", "big", "farcopy", "bom", "armorinside"}   \* farcopy: 24 KB whose second half repeats the first (back-references 12 000 octets away)
Formats == {"auto", "b", "t", "u"}
Names == {"none", "console", "nonascii", "long255"}
Comps == {0, 1, 2, 3}
Signers == {<<>>, <<"k1">>, <<"k2">>, <<"k1", "k2">>, <<"k2", "k1">>, <<"k1", "k2", "k3">>, <<"k3", "k1", "k2">>, <<"k1", "k1">>}
VARIABLE sc
Init == sc \in [content : Contents, format : Formats, name : Names, comp : Comps, signers : Signers, sametick : BOOLEAN,
                enc : {"none", "pw", "pk"}, when : {"sign-then-encrypt", "encrypt-then-sign"}, armor : BOOLEAN]
Next == UNCHANGED sc
Spec == Init /\ [][Next]_sc
Base == [content |-> "ascii", format |-> "auto", name |-> "none", comp |-> 1, signers |-> <<"k1">>, sametick |-> FALSE, enc |-> "none",
         when |-> "sign-then-encrypt", armor |-> FALSE]
Diff == Cardinality({f \in DOMAIN sc : sc[f] # Base[f]})
Sensible == /\ (sc.format = "t" => sc.content \in {"ascii", "empty", "latin1-hint"}) /\ (sc.format = "u" => sc.content \in {"ascii", "utf8", "empty"})
            /\ (sc.content = "latin1-hint" => sc.format \in {"t", "auto"})
            /\ (sc.content = "farcopy" => sc.format \in {"b", "auto"})
            /\ (sc.content = "bom" => sc.format \in {"u", "auto", "t"})
            /\ (sc.when = "encrypt-then-sign" => sc.enc # "none" /\ Len(sc.signers) >= 1)
            /\ (sc.sametick => Len(sc.signers) >= 2)
Chosen == Sensible /\ (Diff <= 2 \/ (sc.comp \in {0, 2} /\ Len(sc.signers) >= 2 /\ sc.content = "ascii" /\ sc.format = "auto" /\ sc.name = "none" /\ ~sc.armor))
Emit == Chosen => PrintT(<<"SCN", sc>>)
====
