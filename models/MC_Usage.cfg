SPECIFICATION Spec
CONSTANT ReadLatest = TRUE
INVARIANT Refines
INVARIANT Progress
CHECK_DEADLOCK FALSE
