------------------------------ MODULE Trace_C19 ------------------------------
(* Binding V for C19: recorded histories of a real PGPKeyring, validated against Keyring.tla.     *)
(* A trace is a sequence of events [op, x, obs]; obs (optional) = [fprs, sel, has, len].          *)
(* One verdict line per trace: ACCEPT or REJECT with the first failing clause.                    *)
EXTENDS Keyring, TLC, Json, IOUtils, SequencesExt
J == JsonDeserialize(IOEnv.TRACE_FILE)
U == J.universe
Traces == J.traces
SetOf(s) == {s[k] : k \in 1..Len(s)}
TInst == DOMAIN U.inst
TComps == [x \in TInst |-> SetOf(U.inst[x])]
TAllComps == UNION {TComps[x] : x \in TInst}
TAliases == [c \in TAllComps |-> SetOf(U.comp[c].aliases)]
TFpr == [c \in TAllComps |-> U.comp[c].fpr]
Idents == U.idents                      \* sequence: position k of obs.sel / obs.has refers to Idents[k]
VARIABLES tid, i
vars == <<tid, i, loaded>>
Ev == Traces[tid][i]
\* `loaded` holds key OBJECTS here, as pairs <<owning instance, component>>: an instance is a whole key object (all its components) or
\* one subkey object of such a key (U.owner names the key object it belongs to); two objects of the same key are different owners
TOwner(x) == IF "owner" \in DOMAIN U /\ x \in DOMAIN U.owner THEN U.owner[x] ELSE x
Held(x) == {<<TOwner(x), c>> : c \in TComps[x]}
After(e) == IF e.op = "load" THEN loaded \cup Held(e.x) ELSE loaded \ Held(e.x)
CompsOf(L) == {p[2] : p \in L}
TSecret == {c \in TAllComps : "secret" \in DOMAIN U.comp[c] /\ U.comp[c].secret}
DecIdents == IF "decrypt_idents" \in DOMAIN U THEN SetOf(U.decrypt_idents) ELSE {}
SelK(C, k, got) == IF Idents[k] \in DecIdents THEN SelDecOKC(C, Idents[k], got, TSecret) ELSE SelOKC(C, Idents[k], got)
FirstFailing(e, L) ==
  IF "raised" \in DOMAIN e /\ e.raised THEN "C19.operation-raised"      \* loading / unloading a key is total (Keyring.tla: Load, Reload, Unload, UnloadAbsent)
  ELSE IF ~("obs" \in DOMAIN e) THEN "ok"
  ELSE LET o == e.obs IN
    IF ~FprsOKC(CompsOf(L), SetOf(o.fprs)) THEN "C19.fingerprints"
    ELSE IF \E k \in 1..Len(Idents) : ~SelK(CompsOf(L), k, o.sel[k]) THEN "C19.select"
    ELSE IF \E k \in 1..Len(Idents) : ~HasOKC(CompsOf(L), Idents[k], o.has[k]) THEN "C19.contains"
    ELSE IF o.len # Cardinality(L) THEN "C19.len"
    ELSE "ok"
BadIdent(e, L) == IF ~("obs" \in DOMAIN e) THEN "-" ELSE LET o == e.obs IN
  IF \E k \in 1..Len(Idents) : ~SelK(CompsOf(L), k, o.sel[k])
  THEN Idents[CHOOSE k \in 1..Len(Idents) : ~SelK(CompsOf(L), k, o.sel[k])] ELSE "-"
NextTrace == tid' = tid + 1 /\ i' = 1 /\ loaded' = {}
TInit == tid = 1 /\ i = 1 /\ loaded = {}
Step == IF tid > Len(Traces) THEN PrintT(<<"DONE", Len(Traces)>>) /\ tid' = tid + 1 /\ UNCHANGED <<i, loaded>>
        ELSE LET L == After(Ev)  f == FirstFailing(Ev, After(Ev)) IN
           IF f # "ok" THEN PrintT(<<"REJECT", tid, f, i, BadIdent(Ev, L)>>) /\ NextTrace
           ELSE IF i = Len(Traces[tid]) THEN NextTrace
           ELSE tid' = tid /\ i' = i + 1 /\ loaded' = L
TSpec == TInit /\ [][tid <= Len(Traces) + 1 /\ Step]_vars
=============================================================================
