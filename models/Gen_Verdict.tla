---- MODULE Gen_Verdict ----
(* Scenario generator (binding G) for C17: every realisable combination of key conditions and     *)
(* signature correctness, with the entry the algorithm spec predicts for each signature.          *)
EXTENDS Verdict, TLC
Algs == {"rsa1024", "rsa2048", "dsa1024", "p256", "ed25519"}
Prim(a) == CASE a \in {"rsa1024", "dsa1024"} -> {"AsymmetricKeyLengthIsTooShort"}
             [] a = "p256" -> {"InsecureCurve"} [] OTHER -> {}
Subjects == {"doc", "selfcert", "thirdparty", "message", "directsig", "doc-by-subkey"}   \* directsig: one direct-key self-signature, subject = the key itself
Sigs == UNION {[1..n -> BOOLEAN] : n \in 1..3}
VARIABLE sc
Init == sc \in [alg : Algs, expired : BOOLEAN, revoked : BOOLEAN, subj : Subjects, sigs : Sigs]
Next == UNCHANGED sc
Spec == Init /\ [][Next]_sc
KeyIssues(c) == Prim(c.alg) \cup (IF c.expired THEN {"Expired"} ELSE {}) \cup (IF c.revoked THEN {"Revoked"} ELSE {})
Realisable(c) == /\ (c.subj \in {"doc", "thirdparty", "directsig", "doc-by-subkey"} => Len(c.sigs) = 1)     \* one detached signature per call
                 /\ (c.subj = "selfcert" => \A k \in 1..Len(c.sigs) : c.sigs[k])  \* self-signatures are made correctly
Emit == Realisable(sc) =>
   PrintT(<<"SCN", sc, [k \in 1..Len(sc.sigs) |-> EntryFor(KeyIssues(sc), sc.sigs[k], Fails)]>>)
====
