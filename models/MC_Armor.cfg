SPECIFICATION Spec
CONSTANT MaxLen = 200
INVARIANT RoundTrip
INVARIANT B64RoundTrip
INVARIANT KnownAnswers
INVARIANT CrcDetects
INVARIANT Total
CHECK_DEADLOCK FALSE
