SPECIFICATION GSpec
CONSTANT Pass <- MCPass
CONSTANT WipeUnprotected = FALSE
CONSTANT ProtectLocked = FALSE
CONSTANT CheckSelected = TRUE
INVARIANT Emit
CHECK_DEADLOCK FALSE
