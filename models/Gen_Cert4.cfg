SPECIFICATION GSpec
CONSTANT MaxLen = 4
CONSTRAINT Bound
INVARIANT Emit
INVARIANT LedgerOK
CHECK_DEADLOCK FALSE
