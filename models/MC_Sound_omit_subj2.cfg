SPECIFICATION Spec
CONSTANT Omit = "subj2"
INVARIANT Sound
INVARIANT NeutralOK
CHECK_DEADLOCK FALSE
