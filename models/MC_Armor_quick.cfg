SPECIFICATION Spec
CONSTANT MaxLen = 97
INVARIANT RoundTrip
INVARIANT B64RoundTrip
INVARIANT KnownAnswers
INVARIANT CrcDetects
INVARIANT Total
CHECK_DEADLOCK FALSE
