SPECIFICATION Spec
CONSTANT Pass <- MCPass
CONSTANT WipeUnprotected = FALSE
CONSTANT ProtectLocked = FALSE
CONSTANT CheckSelected = TRUE
INVARIANT TypeOK
INVARIANT NoSecretLost
INVARIANT NeverGarbage
INVARIANT RelockedOutsideScopes
CHECK_DEADLOCK FALSE
