SPECIFICATION GSpec
CONSTANT MaxLen = 3
CONSTRAINT Bound
INVARIANT Emit
INVARIANT LedgerOK
CHECK_DEADLOCK FALSE
