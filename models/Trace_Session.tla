------------------------------ MODULE Trace_Session ------------------------------
(* Binding V for Session.tla: sessions recorded from the real library are stepped through the     *)
(* specification's own actions (one logged event = one Session action with the logged arguments); *)
(* after each step the logged outcome and the logged probe of the object state (is_protected /    *)
(* is_unlocked of every key, keyring contents) must equal the specification's.                    *)
EXTENDS Session, TLC, Json, IOUtils
J == JsonDeserialize(IOEnv.TRACE_FILE)
Traces == J.traces
VARIABLES tid, i, bad
tvars == <<vars, tid, i, bad>>
Ev == Traces[tid].events[i]
KeySet(q) == (IF q[1] = 1 THEN {"A"} ELSE {}) \cup (IF q[2] = 1 THEN {"B"} ELSE {})
Act(e) ==
  LET a == e.act IN
  CASE a[1] = "protect" -> Protect(a[2], a[3])
    [] a[1] = "unlock" -> Unlock(a[2], a[3])
    [] a[1] = "exit" -> ScopeExit(a[2])
    [] a[1] = "export-import" -> ExportImport(a[2])
    [] a[1] = "ring-load" -> RingLoad(a[2])
    [] a[1] = "ring-unload" -> RingUnload(a[2])
    [] a[1] = "sign" -> Sign(a[2], a[3])
    [] a[1] = "verify" -> Verify(a[2], a[3], a[4])
    [] a[1] = "decrypt" -> Decrypt(a[2], a[3])
    [] a[1] = "encrypt" -> Encrypt(KeySet(a[2]), a[3], a[4], a[5])
    [] a[1] = "decrypt-pass" -> DecryptPass(a[2], a[3])
    [] a[1] = "ring-verify" -> RingVerify(a[2], a[3])
Family(e) ==
  LET n == e.act[1] IN
  IF n \in {"protect", "unlock", "exit", "export-import", "sign"} THEN "C06.session"
  ELSE IF n = "verify" THEN "C01.session"
  ELSE IF n \in {"encrypt", "decrypt", "decrypt-pass"} THEN "C03.session"
  ELSE "C19.session"
\* evaluated AFTER Act(e) fixed the primed variables
Clause(e) ==
  IF out'.r # "any" /\ e.out # out' THEN <<Family(e), "outcome">>
  ELSE IF \E k \in Keys : e.probe[k][1] # (prot'[k] # "none") \/ e.probe[k][2] # (prot'[k] # "locked") THEN <<"C06.session", "protection-state">>
  ELSE IF KeySet(e.probe.ring) # ring' THEN <<"C19.session", "keyring-contents">>
  ELSE <<"ok", "">>
Reset == /\ prot' = [k \in Keys |-> "none"] /\ pw' = [k \in Keys |-> "-"] /\ depth' = [k \in Keys |-> 0]
         /\ sigs' = <<>> /\ cts' = <<>> /\ ring' = {} /\ out' = Plain("init")
         /\ tid' = tid + 1 /\ i' = 1 /\ bad' = FALSE
TInit == Init /\ tid = 1 /\ i = 1 /\ bad = FALSE
TNext ==
  IF tid > Len(Traces) THEN PrintT(<<"DONE", Len(Traces)>>) /\ tid' = tid + 1 /\ UNCHANGED <<vars, i, bad>>
  ELSE IF bad \/ i > Len(Traces[tid].events) THEN Reset
  ELSE /\ Act(Ev)
       /\ tid' = tid /\ i' = i + 1
       /\ LET c == Clause(Ev) IN
            /\ bad' = (c[1] # "ok")
            /\ IF c[1] = "ok" THEN TRUE ELSE PrintT(<<"REJECT", tid, c[1], i, c[2]>>)
TSpec == TInit /\ [][tid <= Len(Traces) + 1 /\ TNext]_tvars
=============================================================================
