SPECIFICATION GSpec
CONSTANT Keys = {"A", "B"}
CONSTANT Pass = {"p1", "p2"}
CONSTANT Docs = {"d1", "d2"}
CONSTANT MaxSigs = 3
CONSTANT MaxCts = 3
CONSTANT MaxLen = 14
INVARIANT Emit
CHECK_DEADLOCK FALSE
