---- MODULE Gen_KeyProtectC ----
(* Binding G for the component-level protection spec: one shortest history (breadth-first, one worker) to EVERY distinct state of      *)
(* KeyProtectC - the outcome of the last operation is part of the state, so every (configuration, operation, outcome) is reached.      *)
EXTENDS MC_KeyProtectC, TLC
VARIABLE hist
GInit == Init /\ hist = <<>>
Step(a, A) == A /\ hist' = Append(hist, a)
GNext == \/ \E p \in MCPass : \/ Step(<<"protect", p>>, ProtectKey(p))
                             \/ Step(<<"unlock", p>>, Unlock(p))
                             \/ \E c \in {"S", "N"} : Step(<<"protectsub", c, p>>, ProtectSub(c, p))
         \/ Step(<<"exit">>, ScopeExit) \/ Step(<<"addsub">>, AddSub) \/ Step(<<"certify">>, Certify) \/ Step(<<"sign">>, Sign)
         \/ \E c \in {"S", "N"} : Step(<<"signby", c>>, SignBy(c))
GSpec == GInit /\ [][GNext]_<<vars, hist>>
GView == vars
Bound == Len(hist) < 12
Emit == Len(hist) >= 1 => PrintT(<<"BEH", hist>>)
====
