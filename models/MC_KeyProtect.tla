---- MODULE MC_KeyProtect ----
EXTENDS KeyProtect, TLC
MCPass == {"p1", "p2"}
\* spec mutation: the scope exit forgets to wipe
BadExit == /\ depth > 0 /\ depth' = depth - 1 /\ UNCHANGED <<prot, pw>>
LeakNext == (\E p \in MCPass : Protect(p) \/ UnlockOK(p) \/ UnlockWrong(p)) \/ BadExit
LeakSpec == Init /\ [][LeakNext]_vars
Bound == depth <= 2
====
