SPECIFICATION GSpec
CONSTANT Lens <- GLens
CONSTANT Tag = 13
CONSTANT Widen = TRUE
CONSTRAINT Bound
INVARIANT EmitOK
INVARIANT Emitted
CHECK_DEADLOCK FALSE
