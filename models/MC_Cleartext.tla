---- MODULE MC_Cleartext ----
(* Design level: for ALL texts up to MaxLen over the adversarial alphabet                         *)
(* {'-', ' ', TAB, 'a', LF, 'F'}: unescape(escape(t)) = t, Unframe(Frame(t)) recovers t's lines,   *)
(* every framed line is escaped, armor-looking lines inside the text cannot end the text early.    *)
EXTENDS Cleartext, TLC
CONSTANT MaxLen
Alphabet == {45, 32, 9, 97, 10, 70}
VARIABLE t
Init == t \in UNION {[1..n -> Alphabet] : n \in 0..MaxLen}
Next == UNCHANGED t
Spec == Init /\ [][Next]_t
SigArmor == ArmorText(LabelOf("signature"), <<>>, <<194, 1, 2, 3>>, 64)
EscapeRoundTrip == DashUnescape(DashEscape(t)) = t
FrameRoundTrip ==
  LET u == Unframe(Frame(t, <<83, 72, 65, 50, 53, 54>>, SigArmor)) IN
    /\ u.ok /\ u.allescaped /\ u.hdrok /\ u.hashes = {<<83, 72, 65, 50, 53, 54>>}
    /\ u.lines = Lines(t)
    /\ u.armor.ok /\ u.armor.payload = <<194, 1, 2, 3>> /\ u.armor.crcok
\* a text that itself contains the signature BEGIN line is still recovered (the escaped line is not a boundary)
Tricky == t = <<>> =>
  LET x == <<97, 10>> \o SigBegin \o <<10, 45, 32, 45>>
      u == Unframe(Frame(x, <<>>, SigArmor)) IN u.ok /\ u.lines = Lines(x) /\ u.hashes = {}
CanonFacts == t = <<>> =>
  /\ CanonCleartext(<<97, 32, 10, 98, 9, 9>>) = <<97, 13, 10, 98>>
  /\ CanonCleartext(<<97, 13, 10, 98>>) = <<97, 13, 10, 98>>
  /\ CanonCleartext(<<97, 10>>) = <<97, 13, 10>>
  /\ CanonCleartext(<<>>) = <<>>
====
