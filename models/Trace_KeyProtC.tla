------------------------------ MODULE Trace_KeyProtC ------------------------------
(* Binding V for KeyProtectC: histories executed on real keys (primary P, signing subkey S, a subkey N added later), one event per API   *)
(* call with what the implementation shows afterwards; the specification's own actions are taken step by step and its state compared.  *)
EXTENDS KeyProtectC, TLC, Json, IOUtils
J == JsonDeserialize(IOEnv.TRACE_FILE)
Traces == J.traces
VARIABLES tid, i, phase
tvars == <<vars, tid, i, phase>>
Ev == Traces[tid][i]
Act(a) == CASE a[1] = "protect" -> ProtectKey(a[2])
            [] a[1] = "unlock" -> Unlock(a[2])
            [] a[1] = "protectsub" -> ProtectSub(a[2], a[3])
            [] a[1] = "exit" -> ScopeExit
            [] a[1] = "addsub" -> AddSub
            [] a[1] = "certify" -> Certify
            [] a[1] = "sign" -> Sign
            [] a[1] = "signby" -> SignBy(a[2])
            [] OTHER -> FALSE
Reset == st' = [c \in Comp |-> IF c = "N" THEN "absent" ELSE "clear"] /\ pw' = [c \in Comp |-> "-"] /\ scopes' = <<>> /\ lost' = {} /\ last' = "-"
\* what the implementation showed after the call, against the specification's state after its action
Verdict(e) ==
  IF \E c \in Comp : e.obs.st[c] # st[c] THEN "C06.component-state"
  ELSE IF last # "-" /\ e.obs.last = "garbage" THEN "C06.refuse-locked"
  ELSE IF last = "refused" /\ e.obs.last # "refused" THEN "C06.refuse-locked"
  ELSE IF last = "ok" /\ e.obs.last # "ok" THEN "C06.usable"
  ELSE IF "rec" \in DOMAIN e.obs /\ (\E c \in Comp : Present(c) /\ e.obs.rec[c] # (IF Protected(c) THEN pw[c] ELSE "clear-ok")) THEN "C06.recover"
  ELSE "ok"
TInit == Init /\ tid = 1 /\ i = 1 /\ phase = "act"
NextTrace == tid' = tid + 1 /\ i' = 1 /\ phase' = "act" /\ Reset
TStep ==
  IF tid > Len(Traces) THEN PrintT(<<"DONE", Len(Traces)>>) /\ tid' = tid + 1 /\ UNCHANGED <<vars, i, phase>>
  ELSE IF phase = "act"
       THEN IF ENABLED Act(Ev.act) THEN Act(Ev.act) /\ phase' = "check" /\ UNCHANGED <<tid, i>>
            ELSE PrintT(<<"REJECT", tid, "harness.action-not-enabled", i>>) /\ NextTrace
       ELSE LET v == Verdict(Ev) IN
            IF v # "ok" THEN PrintT(<<"REJECT", tid, v, i>>) /\ NextTrace
            ELSE IF i = Len(Traces[tid]) THEN NextTrace
            ELSE i' = i + 1 /\ phase' = "act" /\ UNCHANGED <<vars, tid>>
TSpec == TInit /\ [][tid <= Len(Traces) + 1 /\ TStep]_tvars
=============================================================================
