---- MODULE Gen_SigOpts ----
EXTENDS SigOpts, TLC
VARIABLE c
Init == c \in {[kind |-> k, opts |-> S] : k \in Kinds, S \in UNION {Cover(kk) : kk \in Kinds}}
Next == UNCHANGED c
Spec == Init /\ [][Next]_c
Emit == (c.opts \in Cover(c.kind)) => PrintT(<<"OPT", c.kind, c.opts>>)
====
