---- MODULE MC_Message ----
(* Design level: the grammar accepts exactly the intended tag sequences up to length 7 over the  *)
(* tag alphabet {1, 2, 3, 4, 8, 11, 18} and the one-pass flag rule singles out one assignment.   *)
EXTENDS Message, TLC
VARIABLE ts
Alphabet == {1, 2, 3, 4, 8, 11, 18}
Init == ts \in UNION {[1..n -> Alphabet] : n \in 1..5}
Next == UNCHANGED ts
Spec == Init /\ [][Next]_ts
Ps == [k \in 1..Len(ts) |-> [tag |-> ts[k], body |-> <<>>]]
\* reference description of the language, written independently of the recogniser
Ref ==
  \/ ts \in {<<11>>, <<8>>}
  \/ (ts[Len(ts)] = 18 /\ \A k \in 1..(Len(ts) - 1) : ts[k] \in {1, 3})
  \/ \E n \in 1..2 : Len(ts) = 2 * n + 1 /\ (\A k \in 1..n : ts[k] = 4) /\ ts[n + 1] \in {11, 8} /\ (\A k \in (n + 2)..Len(ts) : ts[k] = 2)
  \/ \E n \in 1..4 : n < Len(ts) /\ (\A k \in 1..n : ts[k] = 2) /\
        LET rest == SubSeq(ts, n + 1, Len(ts)) IN rest \in {<<11>>, <<8>>} \/ (rest[Len(rest)] = 18 /\ \A k \in 1..(Len(rest) - 1) : rest[k] \in {1, 3})
GrammarIsRef == Grammar(Ps) <=> Ref
====
