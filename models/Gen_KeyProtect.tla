---- MODULE Gen_KeyProtect ----
(* Behaviour generator (binding G): every action sequence of KeyProtect up to MaxLen steps.       *)
EXTENDS KeyProtect, TLC
CONSTANT MaxLen
VARIABLE hist
GPass == {"p1", "p2"}
GInit == Init /\ hist = <<>>
Step(a, A) == A /\ hist' = Append(hist, a)
GNext == \/ \E p \in GPass : \/ Step(<<"protect", p>>, Protect(p) \/ ProtectRefused(p))
                            \/ Step(<<"unlock", p>>, UnlockOK(p) \/ UnlockWrong(p) \/ UnlockNoop(p))
         \/ Step(<<"exit", "normal">>, ScopeExit) \/ Step(<<"exit", "exception">>, ScopeExit)
         \/ Step(<<"use", "sign">>, Use) \/ Step(<<"use", "export-import">>, Use)
GSpec == GInit /\ [][GNext]_<<vars, hist>>
Bound == Len(hist) < MaxLen /\ depth <= 2
Emit == Len(hist) >= 1 => PrintT(<<"BEH", hist>>)
====
