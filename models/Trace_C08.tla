------------------------------ MODULE Trace_C08 ------------------------------
(* Binding O for C08.                                                                              *)
EXTENDS Codec, TLC, Json, IOUtils
J == JsonDeserialize(IOEnv.TRACE_FILE)
Events == J.events
VARIABLE i
\* PGPy's own output e.emitted followed by e.tail: parsing must consume exactly the packet, leave the tail, and re-emit the same octets
OwnEv(e) ==
  LET k == PacketAt(e.emitted \o e.tail, 1) IN
  IF ~k.ok \/ (k.next # Len(e.emitted) + 1 /\ ~k.indet) THEN "C08.hdrlen"
  ELSE IF e.raised THEN "C08.consume"
  ELSE IF e.remaining # e.tail THEN "C08.consume"
  ELSE IF e.reemitted # e.emitted THEN "C08.fixpoint"
  ELSE IF ~BodyWF(k.tag, k.body) THEN "C08.wellformed"       \* what PGPy emits is a well-formed packet of its tag
  ELSE "ok"
\* a foreign packet e.f (well-formed per its header) that PGPy accepted: o1 = first re-serialisation, o2 = second
\* what the parsed object reports about the subpackets of a signature: types and critical bits, in order, per area
TC(sps) == [k \in 1..Len(sps) |-> <<sps[k].type, sps[k].critical>>]
ObjSubsOK(o, f) == LET hs == SubSplit(f.hashedArea)  us == SubSplit(f.unhashedArea) IN
  (hs.ok /\ us.ok) => ([k \in 1..Len(o.h) |-> <<o.h[k][1], o.h[k][2]>>] = TC(hs.sps) /\ [k \in 1..Len(o.u) |-> <<o.u[k][1], o.u[k][2]>>] = TC(us.sps))
ForeignEv(e) ==
  LET kf == PacketAt(e.f \o e.tail, 1) IN
  IF ~kf.ok \/ (kf.next # Len(e.f) + 1 /\ ~kf.indet) THEN "harness.foreign-header"
  ELSE IF e.wellformed /\ ~BodyWF(kf.tag, kf.body) THEN "harness.spec-rejects-wellformed-packet"   \* fixtures validate the body grammar
  ELSE IF ~e.accepted THEN "ok"
  ELSE LET k1 == PacketAt(e.o1, 1) IN
    IF ~k1.ok \/ k1.next # Len(e.o1) + 1 THEN "C08.hdrlen"
    ELSE IF e.remaining # e.tail THEN "C08.consume"
    ELSE IF k1.tag # kf.tag THEN "C08.fields"
    ELSE IF Norm(k1.tag, k1.body) # Norm(kf.tag, kf.body) THEN "C08.fields"
    ELSE IF "objsubs" \in DOMAIN e /\ kf.tag = 2 /\ SigFields(kf.body).ok /\ ~ObjSubsOK(e.objsubs, SigFields(kf.body)) THEN "C08.fields"
    ELSE IF "objmpis" \in DOMAIN e /\ kf.tag = 1 /\ PkeskFields(kf.body).ok /\ PkeskFields(kf.body).pk \in {1, 2, 16, 20}
            /\ e.objmpis # MpiMags(PkeskFields(kf.body).rest, 1, IF PkeskFields(kf.body).pk \in {1, 2} THEN 1 ELSE 2, <<>>).mags THEN "C08.fields"
    ELSE IF ~e.reparsed THEN "C08.idempotent"
    ELSE IF e.o2 # e.o1 THEN "C08.idempotent"
    ELSE "ok"
\* text carried in subpackets: what the parsed object presents (sequences of code points per subpacket) is what was given
TextEv(e) == IF e.got = e.given THEN "ok" ELSE "C08.fields"
Judge(e) == CASE e.k = "text" -> TextEv(e) [] e.k = "own" -> OwnEv(e) [] e.k = "foreign" -> ForeignEv(e) [] OTHER -> "harness.unknown-event"
Init == i = 1
Next == /\ i <= Len(Events) + 1
        /\ IF i = Len(Events) + 1 THEN PrintT(<<"DONE", Len(Events)>>)
           ELSE LET v == Judge(Events[i]) IN IF v = "ok" THEN TRUE ELSE PrintT(<<"REJECT", i, v>>)
        /\ i' = i + 1
Spec == Init /\ [][Next]_i
=============================================================================
