SPECIFICATION Spec
CONSTANT Lens <- MCLens
CONSTANT Tag = 13
CONSTANT Widen = TRUE
INVARIANT EmitOK
CHECK_DEADLOCK FALSE
