SPECIFICATION Spec
INVARIANT BlockRoundTrip
INVARIANT BlockDetects
INVARIANT PadRoundTrip
INVARIANT SeipdRoundTrip
INVARIANT SeipdDetects
INVARIANT KdfInjective
INVARIANT PkeskRoundTrip
INVARIANT EcdhRoundTrip
INVARIANT SkeskRoundTrip
CHECK_DEADLOCK FALSE
