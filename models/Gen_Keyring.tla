---- MODULE Gen_Keyring ----
(* Behaviour generator (binding G) for the property spec Keyring: every behaviour up to MaxLen    *)
(* steps (exhaustive mode) or random deep walks (-simulate) is printed as its action sequence.    *)
EXTENDS Keyring, TLC
CONSTANT MaxLen
VARIABLE hist
GInst == {"K0s", "K0p", "K1s", "K1p", "K2s", "K2p", "K3s", "K3p"}
GComps == [x \in GInst |-> {x}]
GAliases == [c \in GInst |-> {}]
GFpr == [c \in GInst |-> c]
GInit == Init /\ hist = <<>>
GNext == \E x \in GInst :
           \/ Load(x) /\ hist' = Append(hist, <<"load", x>>)
           \/ Unload(x) /\ hist' = Append(hist, <<"unload", x>>)
GSpec == GInit /\ [][GNext]_<<loaded, hist>>
Bound == Len(hist) < MaxLen
Emit == Len(hist) >= 1 => PrintT(<<"BEH", hist>>)
EmitFull == Len(hist) = MaxLen => PrintT(<<"BEH", hist>>)
====
