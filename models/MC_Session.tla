---- MODULE MC_Session ----
(* Design-level check of Session.tla: invariants, action properties, and (without object replacement) refinement of      *)
(* KeyProtect.tla by every member of the key family.                                                                    *)
EXTENDS Session, TLC
Bound == (\A k \in Keys : depth[k] <= 2) /\ TLCGet("level") <= 7
KPA == INSTANCE KeyProtect WITH prot <- prot["A"], pw <- pw["A"], depth <- depth["A"]
KPB == INSTANCE KeyProtect WITH prot <- prot["B"], pw <- pw["B"], depth <- depth["B"]
\* the session without replacing key objects by their re-import (that step resets the scope depth, which no single
\* KeyProtect step does)
NextNR == \/ \E k \in Keys : \/ \E p \in Pass : Protect(k, p) \/ Unlock(k, p)
                             \/ ScopeExit(k) \/ RingLoad(k) \/ RingUnload(k)
                             \/ \E d \in Docs : Sign(k, d) \/ \E i \in 1..Len(sigs) : Verify(k, i, d)
                             \/ \E j \in 1..Len(cts) : Decrypt(k, j)
          \/ \E R \in SUBSET Keys, u \in BOOLEAN, d \in Docs, s \in Keys \cup {"-"} : Encrypt(R, u, d, s)
          \/ \E j \in 1..Len(cts), g \in BOOLEAN : DecryptPass(j, g)
          \/ \E i \in 1..Len(sigs), d \in Docs : RingVerify(i, d)
SpecNR == Init /\ [][NextNR]_vars
RefinesA == KPA!Spec
RefinesB == KPB!Spec
\* spec mutation: a variant in which a locked key signs must violate NoLockedSigner
SignAnyway(k, d) == /\ Len(sigs) < MaxSigs /\ sigs' = Append(sigs, [signer |-> k, doc |-> d]) /\ out' = Plain("ok")
                    /\ UNCHANGED <<prot, pw, depth, cts, ring>>
SpecMut == Init /\ [][Next \/ \E k \in Keys, d \in Docs : SignAnyway(k, d)]_vars
====
