------------------------------ MODULE Trace_C11 ------------------------------
(* Binding O for C11: cleartext-signed messages written / read by PGPy and by the independent     *)
(* signer, judged by Cleartext.tla and SigHash.tla.                                                *)
EXTENDS Cleartext, SigHash, TLC, Json, IOUtils
J == JsonDeserialize(IOEnv.TRACE_FILE)
Events == J.events
VARIABLE i
SetOf(s) == {s[k] : k \in 1..Len(s)}
SigBodyOf(pkt) == LET p == PacketAt(pkt, 1) IN IF p.ok /\ p.tag = 2 THEN p.body ELSE <<>>
FrameEv(e) ==
  LET u == Unframe(e.framed) IN
  IF ~u.ok THEN "C11.roundtrip"
  ELSE IF u.lines # Lines(e.text) THEN "C11.roundtrip"
  ELSE IF ~u.allescaped THEN "C11.escape"
  ELSE IF ~u.hdrok \/ u.hashes # SetOf(e.hashes) THEN "C11.hashheader"
  ELSE IF ~u.armor.ok \/ u.armor.payload # e.sigbin \/ ~u.armor.crcok \/ u.armor.label # LabelOf("signature") THEN "C11.roundtrip"
  ELSE "ok"
RereadEv(e) ==
  IF e.raised THEN "C11.roundtrip"
  ELSE IF e.variant = "lf" /\ e.reread # e.text THEN "C11.roundtrip"
  ELSE IF e.variant # "lf" /\ Lines(e.reread) # Lines(e.text) THEN "C11.roundtrip"
  ELSE IF e.nsigs # e.expected_nsigs THEN "C11.roundtrip"
  ELSE IF e.verdict # "truthy" THEN "C11.verify"
  ELSE "ok"
CanonEv(e) ==
  LET f == SigFields(SigBodyOf(e.sig)) IN
  IF ~f.ok THEN "harness.sig"
  ELSE IF f.type # 1 THEN "C11.canon"
  ELSE IF e.claimed_input # CanonCleartext(e.text) \o Trailer(f) THEN "harness.canon-claim"    \* the harness's own proposal of the 7.1 octets
  ELSE IF ~e.primitive_ok THEN "C11.canon"                    \* PGPy's signature is not over the digest of those octets
  ELSE "ok"
ForeignEv(e) ==
  LET u == Unframe(e.framed)  f == SigFields(SigBodyOf(e.sig)) IN
  IF ~u.ok \/ u.lines # Lines(e.text) \/ ~u.allescaped \/ ~u.armor.ok \/ ~u.armor.crcok THEN "harness.frame"
  ELSE IF ~f.ok \/ e.signed_over # CanonCleartext(e.text) \o Trailer(f) THEN "harness.signed-octets"
  ELSE IF e.raised THEN "C11.indep-signer"
  ELSE IF Lines(e.reread) # Lines(e.text) THEN "C11.indep-signer"
  ELSE IF e.verdict # "truthy" THEN "C11.indep-signer"
  ELSE "ok"
Judge(e) == CASE e.k = "frame" -> FrameEv(e) [] e.k = "reread" -> RereadEv(e) [] e.k = "canon" -> CanonEv(e)
              [] e.k = "foreign" -> ForeignEv(e) [] OTHER -> "harness.unknown-event"
Init == i = 1
Next == /\ i <= Len(Events) + 1
        /\ IF i = Len(Events) + 1 THEN PrintT(<<"DONE", Len(Events)>>)
           ELSE LET v == Judge(Events[i]) IN IF v = "ok" THEN TRUE ELSE PrintT(<<"REJECT", i, v>>)
        /\ i' = i + 1
Spec == Init /\ [][Next]_i
=============================================================================
