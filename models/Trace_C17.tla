------------------------------ MODULE Trace_C17 ------------------------------
(* Binding O/V for C17: outcomes recorded from pgpy judged by Verdict.tla.                        *)
EXTENDS Verdict, TLC, Json, IOUtils, Integers
J == JsonDeserialize(IOEnv.TRACE_FILE)
Events == J.events
VARIABLE i
SetOf(s) == {s[k] : k \in 1..Len(s)}
\* function level: the library's own classification of an issue value
FailsEv(e) == IF e.got = Fails(FromBits(e.bits)) THEN "ok"
              ELSE IF Fails(FromBits(e.bits)) THEN "C17.disqualify" ELSE "C17.monotone"
\* function level: a result object populated with the given entries
ResultEv(e) ==
  LET r == [k \in 1..Len(e.entries) |-> FromBits(e.entries[k])] IN
  IF SetOf(e.good) \cup SetOf(e.bad) # 1..Len(r) \/ SetOf(e.good) \cap SetOf(e.bad) # {} \/ Len(e.good) + Len(e.bad) # Len(r)
     THEN "C17.partition"
  ELSE IF SetOf(e.bad) # BadIdx(r) THEN "C17.disqualify"
  ELSE IF e.truthy # Truthy(r) THEN "C17.truthy"
  ELSE IF "good2" \in DOMAIN e /\ (e.good2 # e.good \/ e.bad2 # e.bad \/ e.truthy2 # e.truthy \/ e.len # Len(r)) THEN "C17.partition"   \* read twice
  ELSE "ok"
\* end to end: a real verification. e.n = signatures examined; e.wrong[k]; e.expired; e.issues[k] (bits)
E2E(e) ==
  IF e.raised THEN "ok"                                   \* an error is never a truthy verification
  ELSE LET r == [k \in 1..Len(e.issues) |-> FromBits(e.issues[k])] IN
  IF e.listed # e.n \/ Len(e.issues) # e.n \/ SetOf(e.good) \cup SetOf(e.bad) # 1..e.n \/ SetOf(e.good) \cap SetOf(e.bad) # {}
        \/ Len(e.good) + Len(e.bad) # e.n THEN "C17.partition"
  ELSE IF e.truthy # (e.bad = <<>>) THEN "C17.truthy"
  ELSE IF \E k \in 1..e.n : e.wrong[k] /\ k \notin SetOf(e.bad) THEN "C17.wrong-is-bad"
  ELSE IF e.expired /\ e.truthy THEN "C17.disqualify"
  ELSE IF \E k \in 1..e.n : Fails(r[k]) /\ k \notin SetOf(e.bad) THEN "C17.disqualify"
  ELSE "ok"
Judge(e) == CASE e.k = "fails" -> FailsEv(e) [] e.k = "result" -> ResultEv(e) [] e.k = "e2e" -> E2E(e)
              [] OTHER -> "C17.unknown-event"
Init == i = 1
Next == /\ i <= Len(Events) + 1
        /\ IF i = Len(Events) + 1 THEN PrintT(<<"DONE", Len(Events)>>)
           ELSE LET v == Judge(Events[i]) IN IF v = "ok" THEN TRUE ELSE PrintT(<<"REJECT", i, v>>)
        /\ i' = i + 1
Spec == Init /\ [][Next]_i
=============================================================================
