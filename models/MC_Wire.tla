------------------------------ MODULE MC_Wire ------------------------------
(* Design-level theorems about the wire codecs, checked exhaustively by TLC: one initial state  *)
(* per value n.  (C09)                                                                          *)
EXTENDS Wire, TLC
CONSTANTS MaxN
VARIABLES n
Init == n \in 0..MaxN
Next == UNCHANGED n
Spec == Init /\ [][Next]_n

Tail2 == <<7, 9>>           \* trailing octets that a decoder must leave alone

NewRoundTrip ==
  LET e == NewLenEnc(n)  d == NewLenDecAt(e \o Tail2, 1) IN
    IsOctets(e) /\ d.kind = "def" /\ d.val = n /\ d.size = Len(e)
NewShortest ==
  LET e == NewLenEnc(n) IN
    /\ (n < 192 <=> Len(e) = 1)
    /\ (\E a \in 192..223 : (n - 192 - (a - 192) * 256) \in Byte) => Len(e) <= 2
    /\ Len(e) \in {1, 2, 5}
OldRoundTrip ==
  \A lt \in 0..2 : Fits(n, OldWidth(lt)) =>
      /\ OldLenDec(OldLenEnc(n, lt) \o Tail2, lt) = n
      /\ Len(OldLenEnc(n, lt)) = OldWidth(lt)
OldNarrowestFits == Fits(n, OldWidth(OldNarrowest(n))) /\ (OldNarrowest(n) > 0 => ~Fits(n, OldWidth(OldNarrowest(n) - 1)))
SubRoundTrip ==
  \A e \in SubLenEncs(n) : LET d == SubLenDecAt(e \o Tail2, 1) IN d.ok /\ d.val = n /\ d.size = Len(e)
\* the subpacket rule and the packet rule differ exactly on first octets 224..254
SubVsPacket ==
  LET e == SubLenEnc(n) IN (e[1] < 224 \/ e[1] = 255) => NewLenDecAt(e \o Tail2, 1).val = n

\* MPI: bit length n (when <= 4200) x three boundary patterns
MagTop(b) == IF b = 0 THEN <<>> ELSE LET nb == (b + 7) \div 8 IN [k \in 1..nb |-> IF k = 1 THEN 2 ^ ((b - 1) % 8) ELSE 0]
MagOnes(b) == IF b = 0 THEN <<>> ELSE LET nb == (b + 7) \div 8 IN [k \in 1..nb |-> IF k = 1 THEN 2 ^ (((b - 1) % 8) + 1) - 1 ELSE 255]
MagAlt(b) == IF b = 0 THEN <<>> ELSE LET nb == (b + 7) \div 8 IN [k \in 1..nb |-> IF k = 1 THEN 2 ^ ((b - 1) % 8) ELSE 170]
MPIRoundTrip ==
  n <= 4200 =>
    \A mag \in {MagTop(n), MagOnes(n), MagAlt(n)} :
      LET e == MPIEnc(mag)  d == MPIDecAt(e \o Tail2, 1) IN
        d.ok /\ d.bits = n /\ d.mag = mag /\ d.next = Len(e) + 1 /\ MPICanonical(e, 1) /\ Len(e) = 2 + ((n + 7) \div 8)
\* a declared bit count larger than the value needs is still decodable but not canonical
MPIPadded ==
  (n >= 1 /\ n <= 300) =>
    LET e == BE(n + 8, 2) \o <<0>> \o MagOnes(n)  d == MPIDecAt(e, 1) IN d.ok /\ d.mag = MagOnes(n) /\ ~MPICanonical(e, 1)

CountTable ==
  n <= 255 => /\ S2KCount(n) >= 1024 /\ S2KCount(n) <= 65011712
              /\ (n < 255 => S2KCount(n) < S2KCount(n + 1))
              /\ (n = 0 => S2KCount(n) = 1024) /\ (n = 96 => S2KCount(n) = 65536) /\ (n = 255 => S2KCount(n) = 65011712)

\* 32-bit boundary values as quads
BoundQ == {<<0,0,255,255>>, <<0,1,0,0>>, <<0,1,0,1>>, <<0,255,255,255>>, <<1,0,0,0>>, <<1,0,0,1>>,
           <<127,255,255,255>>, <<128,0,0,0>>, <<128,0,0,1>>, <<255,255,255,254>>, <<255,255,255,255>>}
QuadTheorems ==
  n = 0 => \A q \in BoundQ :
     /\ LET e == NewLenEncQ(q)  d == NewLenDecAt(e \o Tail2, 1) IN d.kind = "def" /\ d.quad = q /\ d.size = 5 /\ Len(e) = 5
     /\ OldLenDecQ(OldLenEncQ(q, 2) \o Tail2, 2) = q
     /\ OldFitsQ(q, 2) /\ ~OldFitsQ(q, 0) /\ (OldFitsQ(q, 1) <=> q = <<0,0,255,255>>)

\* partial body lengths: every chunking with <= 3 chunks of exponent 0..3 then a definite tail 0..3
PartialEnc(exps, final, body) ==
  LET RECURSIVE go(_, _)
      go(k, off) == IF k > Len(exps) THEN NewLenEnc(final) \o SubSeq(body, off + 1, off + final)
                    ELSE <<224 + exps[k]>> \o SubSeq(body, off + 1, off + 2 ^ exps[k]) \o go(k + 1, off + 2 ^ exps[k])
  IN go(1, 0)
SumExp(exps) == FoldLeft(LAMBDA a, x : a + 2 ^ x, 0, exps)
PartialRoundTrip ==
  n = 0 => \A len \in 0..3 : \A exps \in [1..len -> 0..3] : \A final \in 0..3 :
     LET tot == SumExp(exps) + final
         body == [k \in 1..tot |-> (k * 37) % 251]
         e == PartialEnc(exps, final, body)
         d == PartialChain(e \o Tail2, 1, 0, <<>>) IN
       d.ok /\ d.total = tot /\ d.body = body /\ d.next = Len(e) + 1
=============================================================================
