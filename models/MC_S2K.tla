---- MODULE MC_S2K ----
(* Design-level facts about the S2K stream (lengths only): for all 256 coded counts, unit lengths *)
(* 0..80 and the three specifiers.                                                                *)
EXTENDS S2K, TLC
VARIABLES c, ul
Init == c \in 0..255 /\ ul \in 0..80
Next == UNCHANGED <<c, ul>>
Spec == Init /\ [][Next]_<<c, ul>>
U == [k \in 1..ul |-> (k * 7) % 256]
AtLeastOneCopy == \A sp \in {Simple, Salted, Iterated} : StreamLen(sp, c, U) >= ul
IteratedIsCount == StreamLen(Iterated, c, U) = (IF S2KCount(c) > ul THEN S2KCount(c) ELSE ul)
NonIteratedIsOnce == StreamLen(Simple, c, U) = ul /\ StreamLen(Salted, c, U) = ul
\* Cycle on small explicit lengths: exact length, periodic, whole copies first
CycleOK == c <= 40 =>
   LET s == Cycle(U, c + ul) IN
     /\ (ul > 0 => Len(s) = c + ul /\ \A k \in 1..Len(s) : s[k] = U[((k - 1) % ul) + 1] /\ Take(s, ul) = U)
     /\ (ul = 0 => s = <<>>)
\* number of contexts for every cipher key size x hash size
NCtxOK == (c = 0 /\ ul = 0) => \A kb \in {64, 128, 192, 256} : \A hb \in {128, 160, 224, 256, 384, 512} :
   LET n == NCtx(kb, hb) IN n >= 1 /\ n * hb >= kb /\ (n - 1) * hb < kb /\ n <= 4
AssembleOK == (c = 0 /\ ul = 0) =>
   /\ Assemble(<<<<1, 2, 3>>, <<4, 5, 6>>>>, 32) = <<1, 2, 3, 4>>
   /\ Assemble(<<<<1, 2, 3, 4, 5>>>>, 32) = <<1, 2, 3, 4>>
====
