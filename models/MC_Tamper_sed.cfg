SPECIFICATION Spec
CONSTANT N = 4
CONSTANT CheckMDC = TRUE
CONSTANT CheckPrefix = TRUE
CONSTANT CheckKey = TRUE
CONSTANT AcceptSED = TRUE
INVARIANT Integrity
INVARIANT WrongKeyRaises
INVARIANT UntouchedDecrypts
CHECK_DEADLOCK FALSE
