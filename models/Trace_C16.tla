------------------------------ MODULE Trace_C16 ------------------------------
(* Binding V for C16: outcomes of real operations judged by Usage.tla.                            *)
EXTENDS Usage, TLC, Json, IOUtils
J == JsonDeserialize(IOEnv.TRACE_FILE)
Events == J.events
VARIABLE i
SetOf(s) == {s[k] : k \in 1..Len(s)}
Sc(e) == [pflags |-> SetOf(e.sc.pflags),
          subs |-> [k \in 1..Len(e.sc.subs) |-> [j \in 1..Len(e.sc.subs[k]) |-> SetOf(e.sc.subs[k][j])]],
          op |-> e.sc.op, form |-> e.sc.form, enforce |-> e.sc.enforce, hasid |-> e.sc.hasid]
Judge(e) ==
  LET sc == Sc(e) IN
  IF e.out = Refuse /\ "addressed" \in DOMAIN e /\ MustSucceed(sc) THEN "C16.decrypt-finds"
  ELSE IF e.out = Refuse THEN "ok"
  ELSE IF ~FormOK(sc.op, sc.form) \/ ~sc.hasid THEN "C16.preconditions"
  ELSE IF Req(sc.op) # {} /\ Qualified(sc) = {} /\ sc.enforce THEN "C16.refuse"
  ELSE IF e.out \notin Components(sc) THEN "C16.names-used"
  ELSE IF Req(sc.op) # {} /\ sc.enforce /\ e.out \notin Qualified(sc) THEN "C16.qualified"
  ELSE IF ~e.verified THEN "C16.names-used"
  ELSE IF ~Allowed(sc, e.out) THEN "C16.qualified"
  ELSE "ok"
Init == i = 1
Next == /\ i <= Len(Events) + 1
        /\ IF i = Len(Events) + 1 THEN PrintT(<<"DONE", Len(Events)>>)
           ELSE LET v == Judge(Events[i]) IN IF v = "ok" THEN TRUE ELSE PrintT(<<"REJECT", i, v>>)
        /\ i' = i + 1
Spec == Init /\ [][Next]_i
=============================================================================
