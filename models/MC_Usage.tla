---- MODULE MC_Usage ----
EXTENDS Usage, TLC, Integers
CONSTANT ReadLatest
VARIABLE sc
FS == SUBSET Flag
SmallFS == {{}, {"S"}, {"EC"}, {"S", "EC"}, {"C", "S"}, {"A"}, {"ES"}}
SubHist == {<<f>> : f \in FS} \cup {<<f, g>> : f \in SmallFS, g \in SmallFS}
Init == sc \in [pflags : FS, subs : {<<>>} \cup {<<h>> : h \in SubHist} \cup {<<h, g>> : h \in {<<f>> : f \in SmallFS}, g \in {<<f>> : f \in SmallFS} \cup {<<f, f2>> : f \in {{}, {"S"}}, f2 \in {{"EC"}, {"S"}}}},
               op : {"sign", "certify", "encrypt", "decrypt", "bind"}, form : Forms, enforce : BOOLEAN, hasid : BOOLEAN]
Next == UNCHANGED sc
Spec == Init /\ [][Next]_sc
Refines == Allowed(sc, ImplOutcome(sc, ReadLatest))
\* non-vacuity: the implementation does proceed when it may
Progress == (~MustRefuse(sc) /\ (Req(sc.op) = {} \/ Qualified(sc) # {})) => ImplOutcome(sc, ReadLatest) # Refuse
====
