SPECIFICATION Spec
CONSTANT MaxLen = 6
INVARIANT EscapeRoundTrip
INVARIANT FrameRoundTrip
INVARIANT Tricky
INVARIANT CanonFacts
CHECK_DEADLOCK FALSE
