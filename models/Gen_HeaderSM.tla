---- MODULE Gen_HeaderSM ----
(* Behaviour generator (binding G) for HeaderSM: history variable, every behaviour that ends in  *)
(* an Emit is printed once.                                                                       *)
EXTENDS HeaderSM
VARIABLE hist
GLens == {0, 1, 191, 192, 255, 256, 8383, 8384, 65535, 65536, 70000}
GInit == Init /\ hist = <<>>
GNext == Next /\ hist' = Append(hist, [phase |-> phase', fmt |-> fmt', lt |-> lt', n |-> blen'])
GSpec == GInit /\ [][GNext]_<<vars, hist>>
Bound == Len(hist) <= 3
Emitted == (phase = "emitted" /\ Len(hist) = 3) => PrintT(<<"BEH", hist>>)
====
