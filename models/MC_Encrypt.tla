---- MODULE MC_Encrypt ----
(* Design-level theorems about the encryption layouts (C03 / C04 / C13), tiny alphabets:           *)
(* building a layout and taking it apart again recovers the parts, and the checks reject every     *)
(* single-octet change of the checked fields.                                                      *)
EXTENDS Encrypt, TLC
VARIABLES alg, n
Algs == {2, 3, 4, 7, 8, 9, 11, 12, 13}
Init == alg \in Algs /\ n \in 0..5
Next == UNCHANGED <<alg, n>>
Spec == Init /\ [][Next]_<<alg, n>>
Key == [k \in 1..KeyLen(alg) |-> (k * 29 + n) % 256]
Prefix == [k \in 1..BlockLen(alg) |-> (k * 13 + n * 7) % 256]
Pkts == [k \in 1..(n * 3) |-> (k + 200) % 256]
Mdc == [k \in 1..20 |-> k]
\* session block: algorithm, key, 16-bit sum
BlockRoundTrip == LET m == SessionBlock(alg, Key) IN SessionBlockOK(m) /\ BlockAlg(m) = alg /\ BlockKey(m) = Key /\ Len(m) = 3 + KeyLen(alg)
BlockDetects == LET m == SessionBlock(alg, Key) IN \A k \in 2..Len(m) : ~SessionBlockOK([m EXCEPT ![k] = (m[k] + 1) % 256])
\* RFC 6637 padding, both the multiple-of-8 and the fixed-40 form
PadRoundTrip == LET m == SessionBlock(alg, Key)  p == Pkcs5Pad(m)  q == m \o [k \in 1..(40 - Len(m)) |-> 40 - Len(m)] IN
   /\ Pkcs5OK(p) /\ Pkcs5Strip(p) = m /\ Len(p) % 8 = 0 /\ Len(p) > Len(m)
   /\ (Len(m) < 40 => Pkcs5OK(q) /\ Pkcs5Strip(q) = m)
\* SEIPD plaintext: prefix, repeat, packets, D3 14, hash
SeipdRoundTrip == LET pt == SeipdPlain(Prefix, Pkts, Mdc)  s == SeipdSplit(pt, BlockLen(alg)) IN
   SeipdOK(s) /\ s.prefix = Prefix /\ s.packets = Pkts /\ s.mdc = Mdc /\ s.mdcrange = Len(pt) - 20
SeipdDetects == LET pt == SeipdPlain(Prefix, Pkts, Mdc)  bs == BlockLen(alg) IN
   \A k \in {bs + 1, bs + 2, Len(pt) - 21, Len(pt) - 20} : ~SeipdOK(SeipdSplit([pt EXCEPT ![k] = (pt[k] + 1) % 256], bs))
\* KDF parameter block: every field is recoverable (no two different parameter sets give the same block)
Oids == {<<42, 134>>, <<43, 6, 1>>}
KdfInjective == n = 0 => \A o1, o2 \in Oids : \A h1, h2 \in {8, 9} : \A k1, k2 \in {7, 8} :
   KdfParam(o1, h1, k1, Zeros(20)) = KdfParam(o2, h2, k2, Zeros(20)) => o1 = o2 /\ h1 = h2 /\ k1 = k2
\* PKESK / SKESK bodies: fields come back
PkeskRoundTrip == LET b == <<3>> \o [k \in 1..8 |-> k] \o <<1>> \o MPIEnc(Key)  f == PkeskFields(b) IN
   f.ok /\ f.keyid = [k \in 1..8 |-> k] /\ f.pk = 1 /\ PkeskRsaOK(f)
EcdhRoundTrip == LET w == [k \in 1..24 |-> k + 1]  b == <<3>> \o Zeros(8) \o <<18>> \o MPIEnc(<<64>> \o Key) \o <<Len(w)>> \o w  e == PkeskEcdh(PkeskFields(b)) IN
   e.ok /\ e.wrapped = w /\ e.point = <<64>> \o Key
SkeskRoundTrip == \A spec \in {0, 1, 3} :
   LET s2k == <<spec, 8>> \o (IF spec = 0 THEN <<>> ELSE [k \in 1..8 |-> k]) \o (IF spec = 3 THEN <<96>> ELSE <<>>)
       esk == <<alg>> \o Key
       f == SkeskFields(<<4, alg>> \o s2k \o esk) IN
   f.ok /\ f.alg = alg /\ f.spec = spec /\ f.esk = esk /\ EskPlainOK(esk) /\ (spec = 3 => f.count = 96) /\ (spec # 0 => f.salt = [k \in 1..8 |-> k])
====
