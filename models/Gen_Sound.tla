---- MODULE Gen_Sound ----
(* Scenario generator (binding G) for C01: the fields of an attempt with the classification the   *)
(* symbolic model gives them (TRUE = semantic: a changed value must not verify).                  *)
EXTENDS Sound
VARIABLE f
GInit == Init /\ f \in Fields
GNext == UNCHANGED <<vars, f>>
GSpec == GInit /\ [][GNext]_<<vars, f>>
Emit == PrintT(<<"SCN", f, f \in SemFields>>)
====
