SPECIFICATION Spec
CONSTANT MaxLen = 4
INVARIANT EscapeRoundTrip
INVARIANT FrameRoundTrip
INVARIANT Tricky
INVARIANT CanonFacts
CHECK_DEADLOCK FALSE
