------------------------------ MODULE Trace_Split ------------------------------
(* C14.split: several transferable keys concatenated in one blob are separated correctly.        *)
EXTENDS Packets, TLC, Json, IOUtils
J == JsonDeserialize(IOEnv.TRACE_FILE)
Events == J.events
VARIABLE i
PrimPkts(blob) == SelectSeq(Split(blob).pkts, LAMBDA k : k.tag \in {5, 6})
SplitEv(e) ==
  LET ps == PrimPkts(e.blob) IN
  IF ~Split(e.blob).ok \/ Len(ps) # Len(e.primaries) THEN "harness.primaries"
  ELSE IF \E k \in 1..Len(ps) : e.primaries[k].preimage # <<153>> \o BE(Len(PubPortion(ps[k].body)), 2) \o PubPortion(ps[k].body)
                                \/ e.primaries[k].secret # (ps[k].tag = 5) THEN "harness.preimage"
  ELSE IF e.raised THEN "C14.split"
  ELSE IF Len(e.got) # Len(ps) THEN "C14.split"
  \* as multisets: every key of the blob is returned exactly once, with its half and its components
  ELSE IF \E k \in 1..Len(ps) : Cardinality({j \in 1..Len(e.got) : e.got[j].fpr = e.primaries[k].digest /\ e.got[j].secret = e.primaries[k].secret
                                                                  /\ e.got[j].subs = e.counts[k].subs /\ e.got[j].uids = e.counts[k].uids})
                                # Cardinality({j \in 1..Len(ps) : e.primaries[j].digest = e.primaries[k].digest /\ e.primaries[j].secret = e.primaries[k].secret
                                                                  /\ e.counts[j] = e.counts[k]}) THEN "C14.split"
  ELSE "ok"
Judge(e) == IF e.k = "split" THEN SplitEv(e) ELSE "harness.unknown-event"
Init == i = 1
Next == /\ i <= Len(Events) + 1
        /\ IF i = Len(Events) + 1 THEN PrintT(<<"DONE", Len(Events)>>)
           ELSE LET v == Judge(Events[i]) IN IF v = "ok" THEN TRUE ELSE PrintT(<<"REJECT", i, v>>)
        /\ i' = i + 1
Spec == Init /\ [][Next]_i
=============================================================================
