------------------------------ MODULE Trace_Split ------------------------------
(* C14.split: several transferable keys concatenated in one blob are separated correctly.        *)
EXTENDS Subpackets, Armor, TLC, Json, IOUtils
J == JsonDeserialize(IOEnv.TRACE_FILE)
Events == J.events
VARIABLE i
PrimPkts(blob) == SelectSeq(Split(blob).pkts, LAMBDA k : k.tag \in {5, 6})
SplitEv(e) ==
  LET ps == PrimPkts(e.blob) IN
  IF "text" \in DOMAIN e /\ (AllPayloads(e.text) # e.blob \/ \E k \in 1..Len(AllBlocks(e.text)) : ~AllBlocks(e.text)[k].crcok) THEN "harness.armor-text"
  ELSE IF ~Split(e.blob).ok \/ Len(ps) # Len(e.primaries) THEN "harness.primaries"
  ELSE IF \E k \in 1..Len(ps) : e.primaries[k].preimage # <<153>> \o BE(Len(PubPortion(ps[k].body)), 2) \o PubPortion(ps[k].body)
                                \/ e.primaries[k].secret # (ps[k].tag = 5) THEN "harness.preimage"
  ELSE IF e.raised THEN "C14.split"
  ELSE IF Len(e.got) # Len(ps) THEN "C14.split"
  \* as multisets: every key of the blob is returned exactly once, with its half and its components
  ELSE IF \E k \in 1..Len(ps) : Cardinality({j \in 1..Len(e.got) : e.got[j].fpr = e.primaries[k].digest /\ e.got[j].secret = e.primaries[k].secret
                                                                  /\ e.got[j].subs = e.counts[k].subs /\ e.got[j].uids = e.counts[k].uids})
                                # Cardinality({j \in 1..Len(ps) : e.primaries[j].digest = e.primaries[k].digest /\ e.primaries[j].secret = e.primaries[k].secret
                                                                  /\ e.counts[j] = e.counts[k]}) THEN "C14.split"
  ELSE "ok"
\* ---- C14.association on import: which signature packets belong to which component of a transferable key (RFC 4880 11.1) --------
\* A signature packet belongs to the closest preceding non-signature packet (trust packets are transparent). A component the
\* reader cannot use (a key packet of another version, a packet of an unknown tag) is skipped TOGETHER with its signatures.
RECURSIVE GroupsFrom(_, _, _)
GroupsFrom(pk, k, acc) ==
  IF k > Len(pk) THEN acc
  ELSE IF pk[k].tag = 12 THEN GroupsFrom(pk, k + 1, acc)
  ELSE IF pk[k].tag = 2 THEN
       (IF acc = <<>> THEN GroupsFrom(pk, k + 1, acc)
        ELSE GroupsFrom(pk, k + 1, [acc EXCEPT ![Len(acc)].sigs = @ \cup {pk[k].body}]))
  ELSE GroupsFrom(pk, k + 1, Append(acc, [tag |-> pk[k].tag, body |-> pk[k].body, sigs |-> {}]))
Groups(blob) == GroupsFrom(Split(blob).pkts, 1, <<>>)
Readable(g) == g.tag \in {13, 17} \/ (g.tag \in {5, 6, 7, 14} /\ Len(g.body) > 0 /\ g.body[1] = 4 /\ PubEnd(g.body) # 0)
CompOf(g) == IF g.tag \in {13, 17} THEN g.body ELSE PubPortion(g.body)
Assoc(blob) == LET gs == SelectSeq(Groups(blob), Readable) IN {[comp |-> CompOf(gs[k]), sigs |-> gs[k].sigs] : k \in 1..Len(gs)}
\* a signature of ANY type whose hashed area carries Exportable Certification = 0 (5.2.3.11) stays with the key it was received on: it
\* is held in memory and left out of every export; all others are exported
NonExportable(b) == LET f == SigFields(b) IN
  f.ok /\ LET hs == SubSplit(f.hashedArea) IN hs.ok /\ \E k \in 1..Len(hs.sps) : hs.sps[k].type = 4 /\ hs.sps[k].body = <<0>>
AssocExported(blob) == {[comp |-> a.comp, sigs |-> {x \in a.sigs : ~NonExportable(x)}] : a \in Assoc(blob)}
SeqSet(q) == {q[k] : k \in 1..Len(q)}
AssocEv(e) ==
  IF ~Split(e.blob).ok THEN "harness.assoc-blob"
  ELSE IF e.raised THEN "C14.association"
  ELSE IF {[comp |-> e.got[k].comp, sigs |-> SeqSet(e.got[k].sigs)] : k \in 1..Len(e.got)} # Assoc(e.blob) THEN "C14.association"
  ELSE IF \E k \in 1..Len(e.got) : Len(e.got[k].sigs) # Cardinality(SeqSet(e.got[k].sigs)) THEN "C14.association"   \* none held twice
  ELSE IF ~Split(e.reexport).ok \/ Assoc(e.reexport) # AssocExported(e.blob) THEN (IF Assoc(e.reexport) = Assoc(e.blob) THEN "C14.exportable" ELSE "C14.association-export")
  ELSE IF e.copy_export # e.reexport THEN "C14.copy"                         \* a copy exports identically
  \* the public twin carries the same signature packets (octet for octet) on the same components
  ELSE IF ~Split(e.pub_export).ok \/ Assoc(e.pub_export) # AssocExported(e.blob) THEN "C14.association-export"
  ELSE "ok"
Judge(e) == IF e.k = "split" THEN SplitEv(e) ELSE IF e.k = "assoc" THEN AssocEv(e) ELSE "harness.unknown-event"
Init == i = 1
Next == /\ i <= Len(Events) + 1
        /\ IF i = Len(Events) + 1 THEN PrintT(<<"DONE", Len(Events)>>)
           ELSE LET v == Judge(Events[i]) IN IF v = "ok" THEN TRUE ELSE PrintT(<<"REJECT", i, v>>)
        /\ i' = i + 1
Spec == Init /\ [][Next]_i
=============================================================================
