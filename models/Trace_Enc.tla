------------------------------- MODULE Trace_Enc -------------------------------
(* Binding O/V for C03, C04 and C13: encrypted messages made / opened by PGPy and by the          *)
(* independent implementation, judged by Encrypt.tla.  State: the set of secret random values     *)
(* seen so far in the batch (C13 NoReuse).                                                        *)
EXTENDS Encrypt, TLC, Json, IOUtils
J == JsonDeserialize(IOEnv.TRACE_FILE)
Events == J.events
VARIABLES i, used
vars == <<i, used>>
Has(r, f) == f \in DOMAIN r
\* ---- layout of one ESK log entry l against the recipient description rc (C03.layout.*) ----------
EskClause(l, rc, sd) ==
  IF l.kind = "rsa" THEN
     LET f == PkeskFields(l.wire) IN
     IF ~PkeskRsaOK(f) THEN "C03.layout.pkesk-rsa"
     ELSE IF f.keyid # rc.keyid THEN "C03.layout.recipient-id"
     ELSE IF ~SessionBlockOK(l.m) THEN "C03.layout.session-block"
     ELSE IF BlockAlg(l.m) # sd.alg \/ BlockKey(l.m) # sd.sk THEN "C03.layout.session-block"
     ELSE "ok"
  ELSE IF l.kind = "ecdh" THEN
     LET f == PkeskFields(l.wire)  e == PkeskEcdh(f)  kp == EcdhKeyParams(rc.body) IN
     IF ~e.ok THEN "C03.layout.pkesk-ecdh"
     ELSE IF f.keyid # rc.keyid THEN "C03.layout.recipient-id"
     ELSE IF ~kp.ok THEN "harness.recipient-key"
     ELSE IF l.param # KdfParam(kp.oid, kp.kdfhash, kp.kekalg, rc.fpr) THEN "C03.layout.kdf-param"
     ELSE IF l.kdf_input # KdfInput(l.shared, l.param) THEN "C03.layout.kdf-param"
     ELSE IF ~Pkcs5OK(l.padded) \/ Pkcs5Strip(l.padded) # l.m THEN "C03.layout.pkesk-ecdh"
     ELSE IF ~SessionBlockOK(l.m) THEN "C03.layout.session-block"
     ELSE IF BlockAlg(l.m) # sd.alg \/ BlockKey(l.m) # sd.sk THEN "C03.layout.session-block"
     ELSE "ok"
  ELSE IF l.kind = "skesk" THEN
     LET f == SkeskFields(l.wire) IN
     IF ~f.ok THEN "C03.layout.skesk"
     ELSE IF Len(f.esk) = 0 THEN (IF l.m = <<>> /\ l.s2k_key = sd.sk /\ f.alg = sd.alg THEN "ok" ELSE "C03.layout.skesk")
     ELSE IF ~EskPlainOK(l.m) \/ Len(f.esk) # Len(l.m) THEN "C03.layout.skesk"
     ELSE IF l.m[1] # sd.alg \/ Tail(l.m) # sd.sk THEN "C03.layout.skesk"
     ELSE IF Len(l.s2k_key) # KeyLen(f.alg) THEN "C03.layout.skesk"
     ELSE "ok"
  ELSE "harness.unknown-esk"
SeipdClause(sd, inner) ==
  LET s == SeipdSplit(sd.pt, sd.bs) IN
  IF sd.version # 1 \/ sd.bs # BlockLen(sd.alg) \/ Len(sd.sk) # KeyLen(sd.alg) THEN "C03.layout.seipd"
  ELSE IF ~SeipdOK(s) THEN "C03.layout.seipd"
  ELSE IF s.mdc # sd.sha1_over_all_but_last_20 THEN "C03.layout.mdc-range"
  ELSE IF s.packets # inner THEN "C03.indep-plaintext"
  ELSE "ok"
RECURSIVE FirstBad(_, _, _, _)
FirstBad(ls, rcs, sd, k) == IF k > Len(ls) THEN "ok" ELSE LET c == EskClause(ls[k], rcs[k], sd) IN IF c # "ok" THEN c ELSE FirstBad(ls, rcs, sd, k + 1)
\* full layout verdict of a decryption / encryption log
LogClause(e) ==
  IF ~EncryptedMessageOK(e.blob) THEN "C03.layout.grammar"
  ELSE LET c == FirstBad(e.log.esk, e.recipients, e.log.seipd, 1) IN
    IF c # "ok" THEN c ELSE SeipdClause(e.log.seipd, e.inner)
\* ---- events ----
\* PGPy encrypted; the independent decryptor opened it (its log is checked here)
DecEv(e) == IF e.indep_raised THEN "C03.indep-decryptor" ELSE LogClause(e)
\* PGPy encrypted and decrypted itself: projections before / after
RtEv(e) == IF e.raised THEN "C03.roundtrip" ELSE IF e.before # e.after THEN "C03.roundtrip" ELSE "ok"
\* the independent encryptor made it (log validated: harness.*), PGPy opened it
ForeignEv(e) ==
  LET c == LogClause(e) IN
  IF c # "ok" THEN c
  ELSE IF e.raised THEN "C03.foreign"
  ELSE IF e.after # e.expected THEN "C03.foreign"
  ELSE "ok"
\* C04: a tampered / mis-keyed message: raise, or exactly one of the plaintexts that were encrypted
TamperEv(e) ==
  IF e.outcome = "raised" THEN "ok"
  ELSE IF e.wrongkey THEN "C04.wrongkey"
  ELSE IF e.plain \in {e.originals[k] : k \in 1..Len(e.originals)} THEN "ok"
  ELSE "C04.integrity"
\* C13: the secret random values one operation used; e.roles[k] = [role, val, alg]
SizeOK(r) == CASE r.role = "session-key" -> Len(r.val) = KeyLen(r.alg)
               [] r.role = "prefix" -> Len(r.val) = BlockLen(r.alg)
               [] r.role \in {"salt", "protect-salt"} -> Len(r.val) = 8
               [] r.role = "protect-iv" -> Len(r.val) = BlockLen(r.alg)
               [] r.role = "ephemeral" -> Len(r.val) >= 32
               [] OTHER -> FALSE
Constant(v) == Len(v) > 0 /\ \A k \in 1..Len(v) : v[k] = v[1]
FreshEv(e) ==
  LET vals == {e.roles[k].val : k \in 1..Len(e.roles)} IN
  IF \E k \in 1..Len(e.roles) : ~SizeOK(e.roles[k]) THEN "C13.size"
  ELSE IF \E k \in 1..Len(e.roles) : e.roles[k].val \in used \/ Constant(e.roles[k].val) THEN "C13.fresh"
  ELSE IF Cardinality(vals) # Len(e.roles) THEN "C13.fresh"
  ELSE IF \E k \in 1..Len(e.roles) : e.roles[k].role = "session-key" /\ Occurs(e.roles[k].val, e.output) THEN "C13.not-in-clear"
  ELSE IF Has(e, "repeat") /\ \E k \in 1..Len(e.roles) : e.roles[k].role = "prefix" /\ e.repeat # SubSeq(e.roles[k].val, Len(e.roles[k].val) - 1, Len(e.roles[k].val)) THEN "C13.placement"
  ELSE "ok"
Judge(e) == CASE e.k = "dec" -> DecEv(e) [] e.k = "rt" -> RtEv(e) [] e.k = "foreign" -> ForeignEv(e)
              [] e.k = "tamper" -> TamperEv(e) [] e.k = "fresh" -> FreshEv(e) [] OTHER -> "harness.unknown-event"
Init == i = 1 /\ used = {}
Next == /\ i <= Len(Events) + 1
        /\ IF i = Len(Events) + 1 THEN PrintT(<<"DONE", Len(Events)>>) /\ used' = used
           ELSE LET e == Events[i]  v == Judge(e) IN
                /\ IF v = "ok" THEN TRUE ELSE PrintT(<<"REJECT", i, v>>)
                /\ used' = IF e.k = "fresh" THEN used \cup {e.roles[k].val : k \in 1..Len(e.roles)} ELSE used
        /\ i' = i + 1
Spec == Init /\ [][Next]_vars
=============================================================================
