SPECIFICATION GSpec
CONSTANT Inst <- GInst
CONSTANT Comps <- GComps
CONSTANT CompAliases <- GAliases
CONSTANT CompFpr <- GFpr
CONSTANT MaxLen = 5
CONSTRAINT Bound
INVARIANT Emit
INVARIANT TypeOK
CHECK_DEADLOCK FALSE
