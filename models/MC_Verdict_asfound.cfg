SPECIFICATION Spec
CONSTANT AsFound = TRUE
INVARIANT Disqualify
INVARIANT Monotone
INVARIANT OnlyDisq
INVARIANT Coherent
CHECK_DEADLOCK FALSE
