------------------------------ MODULE Trace_Recover ------------------------------
(* Binding O for C06: the protected secret-key packet layout (RFC 4880 5.5.3) and what an        *)
(* independent implementation recovers from it.                                                  *)
EXTENDS Encrypt, TLC, Json, IOUtils
J == JsonDeserialize(IOEnv.TRACE_FILE)
Events == J.events
VARIABLE i
\* protected part of a secret key body b whose public fields end at p (1-based index of the usage octet = p + 1)
Prot(b, p) ==
  LET u == b[p + 1] IN
  IF u \notin {0, 254, 255} THEN
    \* the usage octet is the cipher id (5.5.3): its IV follows directly, then the encrypted integers and 16-bit checksum
    (IF BlockLen(u) = 0 \/ p + 1 + BlockLen(u) >= Len(b) THEN [ok |-> FALSE]
     ELSE [ok |-> TRUE, usage |-> u, sym |-> u, spec |-> 0, iv |-> SubSeq(b, p + 2, p + 1 + BlockLen(u)), ct |-> SubSeq(b, p + 2 + BlockLen(u), Len(b))])
  ELSE IF u = 0 \/ Len(b) < p + 4 THEN [ok |-> FALSE]
  ELSE LET sym == b[p + 2]  spec == b[p + 3]
           sl == IF spec = 0 THEN 2 ELSE IF spec = 1 THEN 10 ELSE IF spec = 3 THEN 11 ELSE 0
           bs == BlockLen(sym) IN
    IF sl = 0 \/ bs = 0 \/ p + 2 + sl + bs > Len(b) THEN [ok |-> FALSE]
    ELSE [ok |-> TRUE, usage |-> u, sym |-> sym, spec |-> spec, iv |-> SubSeq(b, p + 3 + sl, p + 2 + sl + bs),
          ct |-> SubSeq(b, p + 3 + sl + bs, Len(b))]
\* plaintext of the protected part: secret MPIs then SHA-1 (usage 254) or 16-bit sum (usage 255) of them
PlainOK(pt, usage, sha1claim) ==
  IF usage = 254 THEN Len(pt) > 20 /\ SubSeq(pt, Len(pt) - 19, Len(pt)) = sha1claim
  ELSE Len(pt) > 2 /\ BEv(SubSeq(pt, Len(pt) - 1, Len(pt))) = Sum16(SubSeq(pt, 1, Len(pt) - 2))
Secret(pt, usage) == SubSeq(pt, 1, Len(pt) - (IF usage = 254 THEN 20 ELSE 2))
RecoverEv(e) ==
  LET pr == Prot(e.body, e.publen) IN
  IF PubEnd(e.body) # e.publen + 1 THEN "harness.publen"
  ELSE IF ~pr.ok \/ pr.usage # 254 \/ pr.spec # 3 THEN "C06.layout"
  ELSE IF e.failed THEN "C06.recover"
  ELSE IF Len(e.pt) # Len(pr.ct) THEN "C06.layout"
  ELSE IF ~PlainOK(e.pt, 254, e.sha1_all_but_last_20) THEN "C06.recover"
  ELSE IF Secret(e.pt, 254) # e.orig_secret THEN "C06.recover"
  ELSE IF Occurs(SubSeq(e.orig_secret, 3, MinOf(Len(e.orig_secret), 18)), e.body) THEN "C06.noclear-secret-at-rest"
  ELSE "ok"
ForeignEv(e) ==
  LET pr == Prot(e.body, e.publen) IN
  IF ~pr.ok \/ Len(pr.ct) # Len(e.pt) \/ Secret(e.pt, e.usage) # e.orig_secret THEN "harness.foreign-layout"
  ELSE IF e.usage # 254 /\ ~PlainOK(e.pt, 255, <<>>) THEN "harness.foreign-checksum"
  ELSE IF e.raised /\ e.usage \notin {254, 255} /\ ~e.loaded THEN "ok"            \* the pre-S2K form may be refused at load
  ELSE IF e.raised THEN "C06.foreign-form"
  ELSE IF ~e.loaded_protected THEN "C06.foreign-form"
  ELSE IF ~e.wrong_refused THEN "C06.wrong-pass"
  ELSE IF ~e.sign_ok THEN "C06.foreign-form"
  ELSE IF ~e.relocked THEN "C06.relock"
  ELSE "ok"
GnuEv(e) == IF e.raised \/ ~e.fingerprint_ok \/ ~e.export_same THEN "C06.foreign-form" ELSE IF ~e.sign_refused THEN "C06.refuse-locked" ELSE "ok"
\* mixed protection states (KeyProtect.tla per component: the primary unprotected, subkeys locked): an operation that needs a locked
\* component refuses; protecting the key does not destroy a secret it cannot read
MixedEv(e) == IF e.op \in {"sign", "decrypt"} /\ e.outcome # "refused" THEN "C06.refuse-locked"
              ELSE IF e.op = "protect" /\ e.outcome = "secret-lost" THEN "C06.recover"
              ELSE IF e.op = "protect-fails" /\ e.outcome # "unchanged" THEN "C06.failed-protect"
              ELSE "ok"
Judge(e) == CASE e.k = "mixed" -> MixedEv(e) [] e.k = "recover" -> RecoverEv(e) [] e.k = "foreign-secret" -> ForeignEv(e) [] e.k = "gnu-dummy" -> GnuEv(e) [] OTHER -> "harness.unknown-event"
Init == i = 1
Next == /\ i <= Len(Events) + 1
        /\ IF i = Len(Events) + 1 THEN PrintT(<<"DONE", Len(Events)>>)
           ELSE LET v == Judge(Events[i]) IN IF v = "ok" THEN TRUE ELSE PrintT(<<"REJECT", i, v>>)
        /\ i' = i + 1
Spec == Init /\ [][Next]_i
=============================================================================
