SPECIFICATION TSpec
CONSTANT Pass <- TPass
CHECK_DEADLOCK FALSE
