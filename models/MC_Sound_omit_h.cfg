SPECIFICATION Spec
CONSTANT Omit = "h"
INVARIANT Sound
INVARIANT NeutralOK
CHECK_DEADLOCK FALSE
