------------------------------ MODULE Trace_C12 ------------------------------
(* Binding O for C12.  Event: one call of String2Key.derive_key with the harness's claimed stream *)
(* descriptors and the digests hashlib produced for them; TLC checks the descriptors against      *)
(* S2K.tla, the explicit stream expansion for short streams, and the key assembly.                 *)
EXTENDS S2K, TLC, Json, IOUtils
J == JsonDeserialize(IOEnv.TRACE_FILE)
Events == J.events
VARIABLE i
Judge(e) ==
  IF ~DescriptorsOK(e.spec, e.salt, e.c, e.pass, e.kbits, e.hbits, e.ctx) THEN "C12.harness-descriptor"
  ELSE IF \E k \in 1..Len(e.ctx) : "exp" \in DOMAIN e.ctx[k] /\ e.ctx[k].exp # ContextInput(e.ctx[k].zeros, e.ctx[k].unit, e.ctx[k].len)
       THEN "C12.harness-expansion"
  ELSE IF e.key # Assemble([k \in 1..Len(e.ctx) |-> e.ctx[k].digest], e.kbits) THEN
       (IF e.key = <<256>> THEN "C12.stream" ELSE "C12.assemble")
  ELSE "ok"
Init == i = 1
Next == /\ i <= Len(Events) + 1
        /\ IF i = Len(Events) + 1 THEN PrintT(<<"DONE", Len(Events)>>)
           ELSE LET v == Judge(Events[i]) IN IF v = "ok" THEN TRUE ELSE PrintT(<<"REJECT", i, v>>)
        /\ i' = i + 1
Spec == Init /\ [][Next]_i
=============================================================================
