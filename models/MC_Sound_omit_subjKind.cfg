SPECIFICATION Spec
CONSTANT Omit = "subjKind"
INVARIANT Sound
INVARIANT NeutralOK
CHECK_DEADLOCK FALSE
