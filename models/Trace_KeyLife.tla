------------------------------ MODULE Trace_KeyLife ------------------------------
(* Binding V for C06 / C07 / C18: recorded protection life cycles of real keys validated against  *)
(* KeyProtect.tla; the clause family reported is selected by the environment variable FOCUS.      *)
EXTENDS KeyProtect, Packets, TLC, Json, IOUtils
J == JsonDeserialize(IOEnv.TRACE_FILE)
Traces == J.traces
Focus == IOEnv.FOCUS
TPass == {"p1", "p2"}
VARIABLES tid, i
tvars == <<tid, i, prot, pw, depth>>
Ev == Traces[tid].events[i]
Meta == Traces[tid].meta
SetOf(s) == {s[k] : k \in 1..Len(s)}
\* ---- state after the event, following KeyProtect's actions
After(e) ==
  LET a == e.act[1]  p == e.act[2] IN
  IF a = "protect" THEN (IF prot \in {"none", "unlocked"} THEN [prot |-> "locked", pw |-> p, depth |-> depth] ELSE [prot |-> prot, pw |-> pw, depth |-> depth])
  ELSE IF a = "unlock" THEN
     (IF prot = "none" THEN [prot |-> prot, pw |-> pw, depth |-> depth + 1]
      ELSE IF p = pw THEN [prot |-> "unlocked", pw |-> pw, depth |-> depth + 1]
      ELSE [prot |-> "locked", pw |-> pw, depth |-> depth])
  ELSE IF a = "exit" THEN [prot |-> IF prot = "none" THEN "none" ELSE "locked", pw |-> pw, depth |-> depth - 1]
  ELSE [prot |-> prot, pw |-> pw, depth |-> depth]
WrongUnlock(e) == e.act[1] = "unlock" /\ prot # "none" /\ e.act[2] # pw
\* ---- clauses (s = state after the event, o = observation after the event)
C06(e, s) ==
  LET o == e.obs  can == s.prot \in {"none", "unlocked"} IN
  IF WrongUnlock(e) /\ ~e.raised THEN "C06.wrong-pass"
  ELSE IF e.act[1] = "unlock" /\ ~WrongUnlock(e) /\ e.raised THEN "C06.unlock-restores"
  ELSE IF ~Split(o.privblob).ok THEN "C06.export-wellformed"          \* the export is a sequence of well-formed packets in every state
  ELSE IF o.is_protected # (s.prot # "none") \/ o.is_unlocked # (s.prot # "locked") THEN "C06.relock"
  ELSE IF can /\ o.sign # "ok" THEN "C06.unlock-restores"
  ELSE IF can /\ o.decrypt # "ok" THEN "C06.unlock-restores"
  ELSE IF ~can /\ (o.sign # "refused" \/ o.decrypt # "refused") THEN "C06.refuse-locked"
  ELSE IF ~can /\ o.secret_in_graph THEN "C06.wiped"
  ELSE IF s.prot # "none" /\ o.secret_in_export THEN "C06.noclear-secret-at-rest"
  ELSE IF s.prot # "none" /\ "reimport" \in DOMAIN o /\ ~(o.reimport.protected /\ ~o.reimport.unlocked_before /\ o.reimport.unlock_ok /\ o.reimport.sign_ok /\ o.reimport.wrong_refused) THEN "C06.reimport"
  ELSE "ok"
PubTags == {6, 14, 13, 17, 2}
C07(e, s) ==
  LET o == e.obs.pub IN
  IF ~(SetOf(Tags(o.blob)) \subseteq PubTags) \/ ~Split(o.blob).ok THEN "C07.tags"
  ELSE IF o.secret_in_export \/ o.secret_in_armor THEN "C07.no-secret"
  ELSE IF KeyBodies(o.blob) # KeyBodies(e.obs.privblob) THEN "C07.same-public-view"
  ELSE IF \E k \in 1..Len(KeyBodies(o.blob)) : ~IsPublicKeyBody(SelectSeq(Split(o.blob).pkts, LAMBDA x : x.tag \in {6, 14})[k].body) THEN "C07.tags"
  ELSE IF o.uids # e.obs.priv_uids \/ o.nsigs # e.obs.priv_exportable_sigs THEN "C07.same-public-view"
  ELSE IF o.fingerprints # Meta.fingerprints THEN "C07.same-public-view"
  ELSE IF o.private_ops # "all-refused" THEN "C07.refuse"
  ELSE "ok"
C18(e, s) ==
  LET o == e.obs IN
  IF o.fingerprints # Meta.fingerprints \/ o.pub.fingerprints # Meta.fingerprints THEN "C18.stable"
  ELSE IF "reimport" \in DOMAIN o /\ o.reimport.fingerprints # Meta.fingerprints THEN "C18.stable"
  ELSE IF \E k \in 1..Len(KeyBodies(o.privblob)) : Meta.preimages[k] # <<153>> \o BE(Len(KeyBodies(o.privblob)[k]), 2) \o KeyBodies(o.privblob)[k] THEN "C18.preimage"
  ELSE IF \E k \in 1..Len(Meta.digests) : Meta.fpr_octets[k] # Meta.digests[k] \/ Meta.keyids[k] # SubSeq(Meta.digests[k], 13, 20) THEN "C18.keyid"
  ELSE "ok"
Clause(e, s) == IF Focus = "C06" THEN C06(e, s) ELSE IF Focus = "C07" THEN C07(e, s) ELSE C18(e, s)
\* a trace may name the protection state its key starts in (a key imported already protected); default: KeyProtect's Init
InitOf(t) == IF t <= Len(Traces) /\ "init" \in DOMAIN Traces[t].meta THEN Traces[t].meta.init ELSE [prot |-> "none", pw |-> "-"]
NextTrace == tid' = tid + 1 /\ i' = 1 /\ prot' = InitOf(tid + 1).prot /\ pw' = InitOf(tid + 1).pw /\ depth' = 0
TInit == tid = 1 /\ i = 1 /\ prot = InitOf(1).prot /\ pw = InitOf(1).pw /\ depth = 0
Step == IF tid > Len(Traces) THEN PrintT(<<"DONE", Len(Traces)>>) /\ tid' = tid + 1 /\ UNCHANGED <<i, prot, pw, depth>>
        ELSE IF Len(Traces[tid].events) = 0 THEN NextTrace
        ELSE LET s == After(Ev)  c == Clause(Ev, s) IN
           IF c # "ok" THEN PrintT(<<"REJECT", tid, c, i>>) /\ NextTrace
           ELSE IF i = Len(Traces[tid].events) THEN NextTrace
           ELSE tid' = tid /\ i' = i + 1 /\ prot' = s.prot /\ pw' = s.pw /\ depth' = s.depth
TSpec == TInit /\ [][tid <= Len(Traces) + 1 /\ Step]_tvars
=============================================================================
