---- MODULE MC_Verbatim ----
EXTENDS Verbatim, TLC
VARIABLE a
Init == a \in Areas
Next == UNCHANGED a
Spec == Init /\ [][Next]_a
WellFormed == SubSplit(a).ok
IsVerbatim == HashedAs(a) = a
====
