---- MODULE MC_HeaderSM ----
EXTENDS HeaderSM
\* boundary set: both sides of every width boundary that fits a TLC model (4-octet values are
\* exercised on real packets only up to 70 000 octets)
MCLens == {0, 1, 191, 192, 255, 256, 8383, 8384, 65535, 65536, 70000}
\* behaviour emission for replay: every (format, length type, n, n2) crossing
Scenario == phase = "emitted" /\ out # <<>> => PrintT(<<"BEH", fmt, lt, blen, out>>)
====
