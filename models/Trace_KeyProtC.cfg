SPECIFICATION TSpec
CONSTANT Pass = {"p1", "p2"}
CONSTANT WipeUnprotected = FALSE
CONSTANT ProtectLocked = FALSE
CONSTANT CheckSelected = TRUE
CHECK_DEADLOCK FALSE
