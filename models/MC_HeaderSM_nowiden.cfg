SPECIFICATION Spec
CONSTANT Lens <- MCLens
CONSTANT Tag = 13
CONSTANT Widen = FALSE
INVARIANT EmitOK
CHECK_DEADLOCK FALSE
