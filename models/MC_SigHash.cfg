SPECIFICATION Spec
CONSTANT Small = FALSE
INVARIANT Injective
INVARIANT Counted
CHECK_DEADLOCK FALSE
