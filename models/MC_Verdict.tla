---- MODULE MC_Verdict ----
(* Exhaustive design-level check: all 2^11 issue sets, all advisory additions, all results of     *)
(* length <= 3 over key conditions x correctness.                                                  *)
EXTENDS Verdict, TLC
CONSTANT AsFound
VARIABLE s
Init == s \in SUBSET Issue
Next == UNCHANGED s
Spec == Init /\ [][Next]_s
F(S) == IF AsFound THEN FailsExact(S) ELSE Fails(S)
\* disqualifying conditions always disqualify, whatever else is true
Disqualify == (s \cap Disq # {}) => F(s)
Monotone == F(s) => \A a \in Advisory : F(s \cup {a})
OnlyDisq == F(s) => s \cap Disq # {}
\* results: entries produced by the algorithm for key issue set s and up to 3 signatures
Results == UNION {[1..n -> BOOLEAN] : n \in 1..3}
ResultOf(cs) == [k \in 1..Len(cs) |-> EntryFor(s, cs[k], F)]
Coherent == \A cs \in Results : LET r == ResultOf(cs) IN
    /\ GoodIdx(r) \cup BadIdx(r) = 1..Len(r) /\ GoodIdx(r) \cap BadIdx(r) = {}          \* partition
    /\ (Truthy(r) <=> BadIdx(r) = {})
    /\ \A k \in 1..Len(cs) : ~cs[k] => k \in BadIdx(r)                                   \* wrong is bad
    /\ (s \cap Disq # {} => ~Truthy(r))                                                  \* disqualified key => falsy
====
