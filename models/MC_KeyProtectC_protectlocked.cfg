SPECIFICATION Spec
CONSTANT Pass <- MCPass
CONSTANT WipeUnprotected = FALSE
CONSTANT ProtectLocked = TRUE
CONSTANT CheckSelected = TRUE
INVARIANT TypeOK
INVARIANT NoSecretLost
INVARIANT NeverGarbage
INVARIANT RelockedOutsideScopes
CHECK_DEADLOCK FALSE
