---- MODULE MC_SigHash ----
(* Injectivity of the RFC 4880 5.2.4 hash input on semantic classes, over tiny alphabets: the    *)
(* number of distinct hash inputs equals the number of semantically distinct configurations.     *)
(* This is the design fact that makes "a component dropped from the hashed data" a violation.    *)
EXTENDS SigHash, TLC
CONSTANT Small
Bits == {0, 1}
Strs == UNION {[1..n -> Bits] : n \in 0..2}
Areas == IF Small THEN {<<>>, <<2, 2, 0>>, <<2, 130, 0>>} ELSE {<<>>, <<2, 2, 0>>, <<2, 2, 1>>, <<2, 130, 0>>, <<3, 2, 0, 0>>}     \* hashed areas (subpacket encodings) incl. critical bit
SigBodies(ty) == {<<4, ty, pk, h>> \o BE(Len(a), 2) \o a \o <<0, 0, 9, 9>> : pk \in (IF Small THEN {22} ELSE {1, 22}), h \in {2, 8}, a \in Areas}
Cfg(ty) ==
  IF ty \in {0, 1} THEN {[b |-> b, s |-> [doc |-> d]] : b \in SigBodies(ty), d \in Strs}
  ELSE IF ty \in {2, 64} THEN {[b |-> b, s |-> [doc |-> <<>>]] : b \in SigBodies(ty)}
  ELSE IF ty \in CertTypes \cup {22} THEN {[b |-> b, s |-> [primary |-> p, uid |-> u, isuid |-> i]] : b \in SigBodies(ty), p \in Strs, u \in Strs, i \in BOOLEAN}
  ELSE IF ty \in {24, 25, 40} THEN {[b |-> b, s |-> [primary |-> p, sub |-> q]] : b \in SigBodies(ty), p \in Strs, q \in Strs}
  ELSE {[b |-> b, s |-> [primary |-> p]] : b \in SigBodies(ty), p \in Strs}
Types == {0, 1, 2, 64, 16, 17, 18, 19, 48, 22, 24, 25, 40, 31, 32}
AllCfg == UNION {Cfg(ty) : ty \in Types}
VARIABLE x
Init == x = 0
Next == UNCHANGED x
Spec == Init /\ [][Next]_x
Injective == Cardinality({HashInput(c.b, c.s) : c \in AllCfg}) = Cardinality(AllCfg)
Counted == Cardinality(AllCfg) > (IF Small THEN 4000 ELSE 15000)
====
