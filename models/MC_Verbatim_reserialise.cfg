SPECIFICATION Spec
CONSTANT Mode = "reserialise"
INVARIANT WellFormed
INVARIANT IsVerbatim
CHECK_DEADLOCK FALSE
