SPECIFICATION GSpec
CONSTANT MaxLen = 12
CONSTRAINT Bound
INVARIANT EmitFull
INVARIANT LedgerOK
CHECK_DEADLOCK FALSE
