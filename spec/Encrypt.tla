------------------------------- MODULE Encrypt -------------------------------
(* RFC 4880 sections 5.1, 5.3, 5.13, 5.14 and RFC 6637 section 8: layouts of encrypted messages. *)
(* Primitives (CFB, SHA-1, RSA, ECDH, KDF hash, AES key wrap) are opaque: an event carries their  *)
(* inputs and outputs; these operators say which octets must be fed to them and where their       *)
(* outputs must be placed.                                                                        *)
EXTENDS Packets

\* symmetric algorithm ids -> key size / block size in octets (9.2)
KeyLen(a) == CASE a = 2 -> 24 [] a \in {3, 4, 7, 11} -> 16 [] a \in {8, 12} -> 24 [] a \in {9, 10, 13} -> 32 [] a = 1 -> 16 [] OTHER -> 0
BlockLen(a) == CASE a \in {1, 2, 3, 4} -> 8 [] a \in {7, 8, 9, 10, 11, 12, 13} -> 16 [] OTHER -> 0

\* ---- the "m" block inside a PKESK (5.1): algorithm id, session key, two-octet sum of the key octets
SessionBlock(alg, sk) == <<alg>> \o sk \o BE(Sum16(sk), 2)
SessionBlockOK(m) ==
  Len(m) >= 3 /\ KeyLen(m[1]) > 0 /\ Len(m) = 3 + KeyLen(m[1])
  /\ BEv(SubSeq(m, Len(m) - 1, Len(m))) = Sum16(SubSeq(m, 2, Len(m) - 2))
BlockAlg(m) == m[1]
BlockKey(m) == SubSeq(m, 2, Len(m) - 2)
\* PKCS5-style padding to a multiple of 8 octets (RFC 6637 section 8)
Pkcs5Pad(m) == LET n == 8 - (Len(m) % 8) IN m \o [k \in 1..n |-> n]
\* (RFC 6637 section 8 also allows padding the block to a fixed 40 octets, i.e. more than 8 padding octets)
Pkcs5OK(p) == Len(p) > 0 /\ Len(p) % 8 = 0 /\ p[Len(p)] >= 1 /\ p[Len(p)] <= Len(p)
              /\ \A k \in (Len(p) - p[Len(p)] + 1)..Len(p) : p[k] = p[Len(p)]
Pkcs5Strip(p) == SubSeq(p, 1, Len(p) - p[Len(p)])

\* ---- PKESK v3 body (5.1): 03, key id (8), public-key algorithm, algorithm specific fields
PkeskFields(b) ==
  IF Len(b) < 10 \/ b[1] # 3 THEN [ok |-> FALSE]
  ELSE [ok |-> TRUE, keyid |-> SubSeq(b, 2, 9), pk |-> b[10], rest |-> SubSeq(b, 11, Len(b))]
\* RSA: one MPI, nothing after it
PkeskRsaOK(f) == f.ok /\ f.pk \in {1, 2} /\ LET d == MPIDecAt(f.rest, 1) IN d.ok /\ d.next = Len(f.rest) + 1
\* ECDH: MPI of the ephemeral point, one-octet length, wrapped key of that length
PkeskEcdh(f) ==
  LET d == MPIDecAt(f.rest, 1) IN
  IF ~(f.ok /\ f.pk = 18 /\ d.ok /\ d.next <= Len(f.rest)) THEN [ok |-> FALSE]
  ELSE LET n == f.rest[d.next] IN
    IF d.next + n # Len(f.rest) THEN [ok |-> FALSE]
    ELSE [ok |-> TRUE, point |-> d.mag, wrapped |-> SubSeq(f.rest, d.next + 1, Len(f.rest))]
\* RFC 6637 section 7/8: KDF parameter block
AnonymousSender == <<65, 110, 111, 110, 121, 109, 111, 117, 115, 32, 83, 101, 110, 100, 101, 114, 32, 32, 32, 32>>
KdfParam(oid, kdfhash, kekalg, fpr) == <<Len(oid)>> \o oid \o <<18, 3, 1, kdfhash, kekalg>> \o AnonymousSender \o fpr
KdfInput(shared, param) == <<0, 0, 0, 1>> \o shared \o param
\* curve OID and KDF parameters of an ECDH public key body (04, time(4), 18, oidlen, oid, MPI point, 03 01 hash kek)
EcdhKeyParams(kb) ==
  LET ol == kb[7]  oid == SubSeq(kb, 8, 7 + ol)  d == MPIDecAt(kb, 8 + ol) IN
  [oid |-> oid, point |-> d.mag, kdfhash |-> kb[d.next + 2], kekalg |-> kb[d.next + 3],
   ok |-> d.ok /\ kb[6] = 18 /\ kb[d.next] = 3 /\ kb[d.next + 1] = 1 /\ d.next + 3 = Len(kb)]

\* ---- SKESK v4 body (5.3): 04, symmetric algorithm, S2K specifier, optional encrypted session key
SkeskFields(b) ==
  IF Len(b) < 4 \/ b[1] # 4 THEN [ok |-> FALSE]
  ELSE LET spec == b[3]
           sl == IF spec = 0 THEN 2 ELSE IF spec = 1 THEN 10 ELSE IF spec = 3 THEN 11 ELSE 0 IN
    IF sl = 0 \/ 2 + sl > Len(b) THEN [ok |-> FALSE]
    ELSE [ok |-> TRUE, alg |-> b[2], spec |-> spec, halg |-> b[4],
          salt |-> IF spec = 0 THEN <<>> ELSE SubSeq(b, 5, 12), count |-> IF spec = 3 THEN b[13] ELSE 0,
          esk |-> SubSeq(b, 3 + sl, Len(b))]
\* the decrypted ESK is  algorithm id || session key
EskPlainOK(m) == Len(m) >= 1 /\ KeyLen(m[1]) > 0 /\ Len(m) = 1 + KeyLen(m[1])

\* ---- SEIPD v1 (5.13) and MDC (5.14)
\* plaintext = prefix (block size random octets) || last two prefix octets repeated || packets || D3 14 || SHA-1(everything before the hash)
SeipdPlain(prefix, packets, mdc) == prefix \o SubSeq(prefix, Len(prefix) - 1, Len(prefix)) \o packets \o <<211, 20>> \o mdc
SeipdSplit(pt, bs) ==
  IF Len(pt) < bs + 2 + 22 THEN [ok |-> FALSE]
  ELSE [ok |-> TRUE,
        prefix |-> SubSeq(pt, 1, bs),
        repeat |-> SubSeq(pt, bs + 1, bs + 2),
        packets |-> SubSeq(pt, bs + 3, Len(pt) - 22),
        mdchdr |-> SubSeq(pt, Len(pt) - 21, Len(pt) - 20),
        mdc |-> SubSeq(pt, Len(pt) - 19, Len(pt)),
        mdcrange |-> Len(pt) - 20]                              \* SHA-1 is over pt[1..mdcrange], i.e. including D3 14
SeipdOK(s) == s.ok /\ s.repeat = SubSeq(s.prefix, Len(s.prefix) - 1, Len(s.prefix)) /\ s.mdchdr = <<211, 20>>
\* an encrypted message is: zero or more ESK packets (tags 1, 3), then exactly one container (tag 18 or 9)
EncryptedMessageOK(blob) ==
  LET r == Split(blob) IN
  /\ r.ok /\ Len(r.pkts) >= 1
  /\ r.pkts[Len(r.pkts)].tag \in {18, 9}
  /\ \A k \in 1..(Len(r.pkts) - 1) : r.pkts[k].tag \in {1, 3}
=============================================================================
