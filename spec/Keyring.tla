------------------------------ MODULE Keyring ------------------------------
(* Property spec for C19: a keyring is the set of key objects currently loaded; every observable *)
(* is a function of that set.  Deliberately silent on WHICH carrier is selected when several     *)
(* loaded keys carry an identifier.                                                              *)
EXTENDS Naturals, FiniteSets, Sequences
CONSTANTS Inst,          \* key objects (primary keys) that can be loaded / unloaded
          Comps,         \* [Inst -> SUBSET Comp]: the component classes (primary, subkeys) of an object
          CompAliases,   \* [Comp -> SUBSET Ident]: identifiers a component answers to
          CompFpr        \* [Comp -> fingerprint]
VARIABLE loaded
AllComps == UNION {Comps[x] : x \in Inst}
Ident == UNION {CompAliases[c] : c \in AllComps}
LoadedComps(L) == UNION {Comps[x] : x \in L}
\* ---- observations as functions of the set C of key objects (components) held; a whole key is held as its components, and a
\*      subkey object can also be loaded or unloaded on its own (Trace_C19 tracks C directly)
FprsC(C) == {CompFpr[c] : c \in C}
CarriersC(C, a) == {c \in C : a \in CompAliases[c]}
FprsOKC(C, got) == got = FprsC(C)
SelOKC(C, a, got) == IF CarriersC(C, a) = {} THEN got = "none" ELSE got \in CarriersC(C, a)
\* an identifier that is an ENCRYPTED MESSAGE selects "a key that can decrypt it": when a secret carrier is held the selection is one of
\* those; when only public carriers are held the recipient's public key is all there is to hand out (Sec = the secret components)
SelDecOKC(C, a, got, Sec) == IF CarriersC(C, a) \cap Sec = {} THEN SelOKC(C, a, got) ELSE got \in CarriersC(C, a) \cap Sec
HasOKC(C, a, got) == got = (CarriersC(C, a) # {})
LenOKC(C, got) == got = Cardinality(C)     \* number of key objects (primaries and subkeys) held
\* ---- the same for a set L of whole keys
Fprs(L) == FprsC(LoadedComps(L))
Carriers(L, a) == CarriersC(LoadedComps(L), a)
FprsOK(L, got) == FprsOKC(LoadedComps(L), got)
SelOK(L, a, got) == SelOKC(LoadedComps(L), a, got)
HasOK(L, a, got) == HasOKC(LoadedComps(L), a, got)
LenOK(L, got) == LenOKC(LoadedComps(L), got)
\* ---- transitions
Init == loaded = {}
Load(x) == x \notin loaded /\ loaded' = loaded \cup {x}
Reload(x) == x \in loaded /\ UNCHANGED loaded            \* loading a loaded object again changes nothing
Unload(x) == x \in loaded /\ loaded' = loaded \ {x}
UnloadAbsent(x) == x \notin loaded /\ UNCHANGED loaded   \* unloading an object that is not loaded changes nothing
Next == \E x \in Inst : Load(x) \/ Reload(x) \/ Unload(x) \/ UnloadAbsent(x)
Spec == Init /\ [][Next]_loaded
TypeOK == loaded \subseteq Inst
=============================================================================
