------------------------------ MODULE Keyring ------------------------------
(* Property spec for C19: a keyring is the set of key objects currently loaded; every observable *)
(* is a function of that set.  Deliberately silent on WHICH carrier is selected when several     *)
(* loaded keys carry an identifier.                                                              *)
EXTENDS Naturals, FiniteSets, Sequences
CONSTANTS Inst,          \* key objects (primary keys) that can be loaded / unloaded
          Comps,         \* [Inst -> SUBSET Comp]: the component classes (primary, subkeys) of an object
          CompAliases,   \* [Comp -> SUBSET Ident]: identifiers a component answers to
          CompFpr        \* [Comp -> fingerprint]
VARIABLE loaded
AllComps == UNION {Comps[x] : x \in Inst}
Ident == UNION {CompAliases[c] : c \in AllComps}
LoadedComps(L) == UNION {Comps[x] : x \in L}
Fprs(L) == {CompFpr[c] : c \in LoadedComps(L)}
Carriers(L, a) == {c \in LoadedComps(L) : a \in CompAliases[c]}
\* ---- allowed observations in a state where L is loaded
FprsOK(L, got) == got = Fprs(L)
SelOK(L, a, got) == IF Carriers(L, a) = {} THEN got = "none" ELSE got \in Carriers(L, a)
HasOK(L, a, got) == got = (Carriers(L, a) # {})
RECURSIVE ObjCount(_)
ObjCount(L) == IF L = {} THEN 0 ELSE LET x == CHOOSE y \in L : TRUE IN Cardinality(Comps[x]) + ObjCount(L \ {x})
LenOK(L, got) == got = ObjCount(L)          \* number of key objects (primaries and subkeys) held
\* ---- transitions
Init == loaded = {}
Load(x) == x \notin loaded /\ loaded' = loaded \cup {x}
Reload(x) == x \in loaded /\ UNCHANGED loaded            \* loading a loaded object again changes nothing
Unload(x) == x \in loaded /\ loaded' = loaded \ {x}
UnloadAbsent(x) == x \notin loaded /\ UNCHANGED loaded   \* unloading an object that is not loaded changes nothing
Next == \E x \in Inst : Load(x) \/ Reload(x) \/ Unload(x) \/ UnloadAbsent(x)
Spec == Init /\ [][Next]_loaded
TypeOK == loaded \subseteq Inst
=============================================================================
