------------------------------- MODULE Octets -------------------------------
(* Octet strings as sequences over 0..255.  TLC integers are 32-bit signed, so every quantity  *)
(* that may reach 2^31 travels as an octet string ("quad" = 4 octets, big endian).             *)
EXTENDS Integers, Sequences, FiniteSets, SequencesExt, Functions

Byte == 0..255
IsOctets(s) == \A k \in 1..Len(s) : s[k] \in Byte

\* big-endian value of a short octet string (caller guarantees < 2^31)
BEv(bs) == FoldLeft(LAMBDA a, b : a * 256 + b, 0, bs)
\* big-endian encoding of n (0 <= n < 2^31) in exactly w octets (high octets dropped if too narrow)
BE(n, w) == [k \in 1..w |-> (n \div (256 ^ (w - k))) % 256]
\* does n fit in w octets (w <= 3; every n < 2^31 fits in 4)
Fits(n, w) == IF w >= 4 THEN TRUE ELSE n < 256 ^ w

Take(s, n) == SubSeq(s, 1, IF n < Len(s) THEN n ELSE Len(s))
Drop(s, n) == SubSeq(s, n + 1, Len(s))
Zeros(n) == [k \in 1..n |-> 0]
Repeat(x, n) == [k \in 1..n |-> x]
MaxOf(a, b) == IF a >= b THEN a ELSE b
MinOf(a, b) == IF a <= b THEN a ELSE b

\* quads ------------------------------------------------------------------------------------
IsQuad(q) == Len(q) = 4 /\ IsOctets(q)
QuadSmall(q) == q[1] < 128                      \* value < 2^31, representable as a TLC integer
QuadVal(q) == BEv(q)                            \* only when QuadSmall(q)
Quad(n) == BE(n, 4)
\* compare a quad with a small integer without overflowing
QuadGE(q, n) == IF QuadSmall(q) THEN QuadVal(q) >= n ELSE TRUE
\* strip leading zero octets
RECURSIVE StripZ(_)
StripZ(s) == IF Len(s) > 0 /\ s[1] = 0 THEN StripZ(Tail(s)) ELSE s

\* number of significant bits of one octet
BitLen8(b) == IF b >= 128 THEN 8 ELSE IF b >= 64 THEN 7 ELSE IF b >= 32 THEN 6 ELSE IF b >= 16 THEN 5
              ELSE IF b >= 8 THEN 4 ELSE IF b >= 4 THEN 3 ELSE IF b >= 2 THEN 2 ELSE IF b >= 1 THEN 1 ELSE 0

\* first index k >= from with s[k] = x, or 0
IndexFrom(s, x, from) ==
  LET c == {k \in from..Len(s) : s[k] = x} IN
  IF c = {} THEN 0 ELSE CHOOSE k \in c : \A j \in c : k <= j

\* is p a prefix / suffix / infix of s
IsPrefixOf(p, s) == Len(p) <= Len(s) /\ SubSeq(s, 1, Len(p)) = p
IsSuffixOf(p, s) == Len(p) <= Len(s) /\ SubSeq(s, Len(s) - Len(p) + 1, Len(s)) = p
Occurs(p, s) == Len(p) > 0 /\ \E k \in 1..(Len(s) - Len(p) + 1) : SubSeq(s, k, k + Len(p) - 1) = p

\* 16-bit additive checksum of an octet string
Sum16(bs) == FoldLeft(LAMBDA a, b : (a + b) % 65536, 0, bs)
=============================================================================
