---------------------------- MODULE KeyringImpl ----------------------------
(* Algorithm spec of pgpy.PGPKeyring (pgpy/pgp.py): the deque of alias maps ("layers"), one      *)
(* operator per Python branch: _add_alias, _sort_alias, _add_key, unload.  Checked by TLC to      *)
(* implement Keyring (the refinement mapping is  loaded <- prim).                                 *)
EXTENDS Naturals, Integers, Sequences, FiniteSets, TLC, SequencesExt, FiniteSetsExt, Functions
CONSTANTS Prim,         \* primary key objects
          SubsOf,       \* [Prim -> Seq(Comp)]: subkey objects in insertion order
          AliasSeq,     \* [Comp -> Seq(Alias)] in the order _add_key registers them (Comp includes Prim)
          Created,      \* [Comp -> Nat]
          IsPublic,     \* [Comp -> BOOLEAN]
          MaxDepth,
          Fixed         \* TRUE: _add_alias puts a new holder into a layer that lacks the alias (repaired code)
VARIABLES keys, layers, prim
vars == <<keys, layers, prim>>
Comp == Prim \cup UNION {Range(SubsOf[p]) : p \in Prim}
Alias == UNION {Range(AliasSeq[h]) : h \in Comp}
Carries(h, a) == a \in Range(AliasSeq[h])
EmptyMap == [x \in {} |-> 0]
Has(m, a) == a \in DOMAIN m
Put(m, a, h) == [x \in (DOMAIN m) \cup {a} |-> IF x = a THEN h ELSE m[x]]
Del(m, a) == [x \in (DOMAIN m) \ {a} |-> m[x]]
InRing(ls, a) == \E i \in 1..Len(ls) : Has(ls[i], a)
Holders(ls, a) == {ls[i][a] : i \in {j \in 1..Len(ls) : Has(ls[j], a)}}
DropEmpty(ls) == SelectSeq(ls, LAMBDA m : DOMAIN m # {})
\* sort key (created, is_public); ties broken by CHOOSE (python: arbitrary set order)
Less(h1, h2) == \/ Created[h1] < Created[h2]
                \/ Created[h1] = Created[h2] /\ ~IsPublic[h1] /\ IsPublic[h2]
SortedSeqOf(S) == CHOOSE s \in [1..Cardinality(S) -> S] :
                     /\ Range(s) = S
                     /\ \A i, j \in 1..Cardinality(S) : i < j => ~Less(s[j], s[i])
SortAlias(ls, a) ==                                   \* PGPKeyring._sort_alias
  LET popped  == [i \in 1..Len(ls) |-> IF Has(ls[i], a) THEN Del(ls[i], a) ELSE ls[i]]
      s       == SortedSeqOf(Holders(ls, a))
      placed  == [i \in 1..Len(ls) |-> IF i <= Len(s) THEN Put(popped[i], a, s[i]) ELSE popped[i]]
  IN DropEmpty(placed)
AddAlias(ls, a, h) ==                                 \* PGPKeyring._add_alias
  IF ~InRing(ls, a) THEN [ls EXCEPT ![Len(ls)] = Put(ls[Len(ls)], a, h)]       \* brand new alias: last layer
  ELSE IF h \in Holders(ls, a) THEN ls                                         \* duplicate link: ignored
  ELSE LET n == Cardinality({j \in 1..Len(ls) : Has(ls[j], a)})
           ad == Len(ls) - n       \* python adepth + 1 (1-based); 0 means "all layers have it"
           ls2 == IF ad = 0 THEN <<EmptyMap>> \o ls ELSE ls
           d == IF Fixed
                THEN CHOOSE j \in 1..Len(ls2) : ~Has(ls2[j], a) /\ \A jj \in 1..(j - 1) : Has(ls2[jj], a)
                ELSE IF ad = 0 THEN 1 ELSE ad                      \* as coded before the repair
       IN SortAlias([ls2 EXCEPT ![d] = Put(ls2[d], a, h)], a)
RECURSIVE AddAll(_, _, _, _)
AddAll(ls, as, k, h) == IF k > Len(as) THEN ls ELSE AddAll(AddAlias(ls, as[k], h), as, k + 1, h)
RECURSIVE AddKeys(_, _, _)                            \* _add_key for the primary, then each subkey
AddKeys(ls, hs, k) == IF k > Len(hs) THEN ls ELSE AddKeys(AddAll(ls, AliasSeq[hs[k]], 1, hs[k]), hs, k + 1)
RECURSIVE PopAll(_, _, _)
PopAll(ls, todo, h) ==                                \* PGPKeyring.unload, alias loop for one key object
  IF todo = <<>> THEN ls
  ELSE LET a == Head(todo)
           popped == [i \in 1..Len(ls) |-> IF Has(ls[i], a) /\ ls[i][a] = h THEN Del(ls[i], a) ELSE ls[i]]
           nxt == IF InRing(popped, a) THEN SortAlias(popped, a) ELSE popped
       IN PopAll(nxt, Tail(todo), h)
RECURSIVE PopKeys(_, _, _)
PopKeys(ls, hs, k) == IF k > Len(hs) THEN ls ELSE PopKeys(PopAll(ls, AliasSeq[hs[k]], hs[k]), hs, k + 1)
Objs(p) == <<p>> \o SubsOf[p]

Init == keys = {} /\ layers = <<EmptyMap>> /\ prim = {}
Load(p) == /\ p \notin prim
           /\ prim' = prim \cup {p}
           /\ keys' = keys \cup Range(Objs(p))
           /\ layers' = AddKeys(layers, Objs(p), 1)
Unload(p) == /\ p \in prim
             /\ prim' = prim \ {p}
             /\ keys' = keys \ Range(Objs(p))
             /\ layers' = PopKeys(layers, Objs(p), 1)
LoadAny == \E p \in Prim : Load(p)
UnloadAny == \E p \in Prim : Unload(p)
Next == LoadAny \/ UnloadAny
DepthBound == TLCGet("level") <= MaxDepth
Spec == Init /\ [][Next]_vars
\* ---- the observation, read off the layers exactly as _get_key does ----
Select(a) == IF InRing(layers, a)
             THEN layers[CHOOSE i \in 1..Len(layers) : Has(layers[i], a) /\ \A j \in 1..(i-1) : ~Has(layers[j], a)][a]
             ELSE "none"
RingHas(a) == InRing(layers, a)
\* ---- refinement of Keyring: every observable equals what the property spec allows for loaded = prim
Consistent == \A a \in Alias :
                 IF \E h \in keys : Carries(h, a)
                 THEN Select(a) \in keys /\ Carries(Select(a), a) /\ RingHas(a)
                 ELSE Select(a) = "none" /\ ~RingHas(a)
NoDangling == \A i \in 1..Len(layers) : \A a \in DOMAIN layers[i] : layers[i][a] \in keys /\ Carries(layers[i][a], a)
\* every holder of an alias appears in exactly one layer, no alias maps are empty (except the initial one)
Complete == \A h \in keys : \A a \in Range(AliasSeq[h]) : Cardinality({i \in 1..Len(layers) : Has(layers[i], a) /\ layers[i][a] = h}) = 1
KeysOK == keys = UNION {Range(Objs(p)) : p \in prim}
=============================================================================
