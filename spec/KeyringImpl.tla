---------------------------- MODULE KeyringImpl ----------------------------
(* Algorithm spec of pgpy.PGPKeyring (pgpy/pgp.py): the deque of alias maps ("layers"), one      *)
(* operator per Python branch: _add_alias, _sort_alias, _add_key, unload.  Checked by TLC to      *)
(* implement Keyring (the refinement mapping is  loaded <- prim).                                 *)
EXTENDS Naturals, Integers, Sequences, FiniteSets, TLC, SequencesExt, FiniteSetsExt, Functions
CONSTANTS Prim,         \* primary key objects
          SubsOf,       \* [Prim -> Seq(Comp)]: subkey objects in insertion order
          AliasSeq,     \* [Comp -> Seq(Alias)] in the order _add_key registers them (Comp includes Prim)
          Created,      \* [Comp -> Nat]
          IsPublic,     \* [Comp -> BOOLEAN]
          MaxDepth,
          Fixed,        \* TRUE: _add_alias puts a new holder into a layer that lacks the alias (repaired code)
          Squeeze,      \* [query -> query]: the query with its spaces removed (identity on space-free strings); DOMAIN = all queries
          HexLike,      \* the queries whose space-free form looks like a fingerprint / key id (8..40 hex digits)
          FallbackAll,  \* TRUE: the space-free form is tried for EVERY query (as found); FALSE: for HexLike ones only (repaired)
          ReloadSubs,   \* TRUE: load() of a loaded key object still (re-)adds its subkeys (repaired); FALSE: it does nothing (as found)
          PreferPrivate,\* TRUE: key(message) takes a loaded recipient whose private half is loaded first (repaired); FALSE: any loaded one
          Msgs          \* set of messages, each the set of recipient key ids (aliases)
VARIABLES keys, layers, prim
vars == <<keys, layers, prim>>
Comp == Prim \cup UNION {Range(SubsOf[p]) : p \in Prim}
Alias == UNION {Range(AliasSeq[h]) : h \in Comp}
Carries(h, a) == a \in Range(AliasSeq[h])
EmptyMap == [x \in {} |-> 0]
Has(m, a) == a \in DOMAIN m
Put(m, a, h) == [x \in (DOMAIN m) \cup {a} |-> IF x = a THEN h ELSE m[x]]
Del(m, a) == [x \in (DOMAIN m) \ {a} |-> m[x]]
InRing(ls, a) == \E i \in 1..Len(ls) : Has(ls[i], a)
Holders(ls, a) == {ls[i][a] : i \in {j \in 1..Len(ls) : Has(ls[j], a)}}
DropEmpty(ls) == SelectSeq(ls, LAMBDA m : DOMAIN m # {})
\* sort key (created, is_public); ties broken by CHOOSE (python: arbitrary set order)
Less(h1, h2) == \/ Created[h1] < Created[h2]
                \/ Created[h1] = Created[h2] /\ ~IsPublic[h1] /\ IsPublic[h2]
SortedSeqOf(S) == CHOOSE s \in [1..Cardinality(S) -> S] :
                     /\ Range(s) = S
                     /\ \A i, j \in 1..Cardinality(S) : i < j => ~Less(s[j], s[i])
SortAlias(ls, a) ==                                   \* PGPKeyring._sort_alias
  LET popped  == [i \in 1..Len(ls) |-> IF Has(ls[i], a) THEN Del(ls[i], a) ELSE ls[i]]
      s       == SortedSeqOf(Holders(ls, a))
      placed  == [i \in 1..Len(ls) |-> IF i <= Len(s) THEN Put(popped[i], a, s[i]) ELSE popped[i]]
  IN DropEmpty(placed)
AddAlias(ls, a, h) ==                                 \* PGPKeyring._add_alias
  IF ~InRing(ls, a) THEN [ls EXCEPT ![Len(ls)] = Put(ls[Len(ls)], a, h)]       \* brand new alias: last layer
  ELSE IF h \in Holders(ls, a) THEN ls                                         \* duplicate link: ignored
  ELSE LET n == Cardinality({j \in 1..Len(ls) : Has(ls[j], a)})
           ad == Len(ls) - n       \* python adepth + 1 (1-based); 0 means "all layers have it"
           ls2 == IF ad = 0 THEN <<EmptyMap>> \o ls ELSE ls
           d == IF Fixed
                THEN CHOOSE j \in 1..Len(ls2) : ~Has(ls2[j], a) /\ \A jj \in 1..(j - 1) : Has(ls2[jj], a)
                ELSE IF ad = 0 THEN 1 ELSE ad                      \* as coded before the repair
       IN SortAlias([ls2 EXCEPT ![d] = Put(ls2[d], a, h)], a)
RECURSIVE AddAll(_, _, _, _)
AddAll(ls, as, k, h) == IF k > Len(as) THEN ls ELSE AddAll(AddAlias(ls, as[k], h), as, k + 1, h)
RECURSIVE AddKeys(_, _, _)                            \* _add_key for the primary, then each subkey
AddKeys(ls, hs, k) == IF k > Len(hs) THEN ls ELSE AddKeys(AddAll(ls, AliasSeq[hs[k]], 1, hs[k]), hs, k + 1)
RECURSIVE PopAll(_, _, _)
PopAll(ls, todo, h) ==                                \* PGPKeyring.unload, alias loop for one key object
  IF todo = <<>> THEN ls
  ELSE LET a == Head(todo)
           popped == [i \in 1..Len(ls) |-> IF Has(ls[i], a) /\ ls[i][a] = h THEN Del(ls[i], a) ELSE ls[i]]
           nxt == IF InRing(popped, a) THEN SortAlias(popped, a) ELSE popped
       IN PopAll(nxt, Tail(todo), h)
RECURSIVE PopKeys(_, _, _)
PopKeys(ls, hs, k) == IF k > Len(hs) THEN ls ELSE PopKeys(PopAll(ls, AliasSeq[hs[k]], hs[k]), hs, k + 1)
Objs(p) == <<p>> \o SubsOf[p]

SubObjs == Comp \ Prim
NotHeld(hs) == SelectSeq(hs, LAMBDA h : h \notin keys)        \* _add_key: `if pkid not in self._keys`
HeldOf(hs) == SelectSeq(hs, LAMBDA h : h \in keys)            \* unload: `if pkid in self._keys`
Init == keys = {} /\ layers = <<EmptyMap>> /\ prim = {}
Load(p) == /\ p \notin prim
           /\ prim' = prim \cup {p}
           /\ keys' = keys \cup Range(Objs(p))
           /\ layers' = AddKeys(layers, NotHeld(Objs(p)), 1)
ReloadKeys(p) == IF ReloadSubs THEN keys \cup Range(SubsOf[p]) ELSE keys
\* load() of a key object that is loaded already: as found nothing happens; repaired, its subkeys are (re-)added
Reload(p) == /\ p \in prim
             /\ UNCHANGED prim
             /\ keys' = ReloadKeys(p)
             /\ layers' = IF ReloadSubs THEN AddKeys(layers, NotHeld(SubsOf[p]), 1) ELSE layers
Unload(p) == /\ p \in prim
             /\ prim' = prim \ {p}
             /\ keys' = keys \ Range(Objs(p))
             /\ layers' = PopKeys(layers, HeldOf(Objs(p)), 1)
\* a subkey OBJECT loaded / unloaded on its own (`with ring.key(message) as k: ring.unload(k)` does the latter)
LoadSub(h) == /\ h \in SubObjs /\ h \notin keys
              /\ keys' = keys \cup {h} /\ layers' = AddAll(layers, AliasSeq[h], 1, h) /\ UNCHANGED prim
UnloadSub(h) == /\ h \in SubObjs /\ h \in keys
                /\ keys' = keys \ {h} /\ layers' = PopAll(layers, AliasSeq[h], h) /\ UNCHANGED prim
LoadAny == \E p \in Prim : Load(p) \/ Reload(p)
UnloadAny == \E p \in Prim : Unload(p)
SubAny == \E h \in SubObjs : LoadSub(h) \/ UnloadSub(h)
Next == LoadAny \/ UnloadAny \/ SubAny
\* whenever load(p) returns, p and all its subkeys are held - also when p was loaded already (a state predicate on what Reload would
\* leave behind: as found Reload is a stuttering step, which an action property [A]_vars cannot see)
LoadHoldsAll == \A p \in prim : Range(Objs(p)) \subseteq ReloadKeys(p)
DepthBound == TLCGet("level") <= MaxDepth
Spec == Init /\ [][Next]_vars
\* ---- the observation, read off the layers exactly as _get_key does ----
Select(a) == IF InRing(layers, a)
             THEN layers[CHOOSE i \in 1..Len(layers) : Has(layers[i], a) /\ \A j \in 1..(i-1) : ~Has(layers[j], a)][a]
             ELSE "none"
RingHas(a) == InRing(layers, a)
\* ---- refinement of Keyring: every observable equals what the property spec allows for loaded = prim
Consistent == \A a \in Alias :
                 IF \E h \in keys : Carries(h, a)
                 THEN Select(a) \in keys /\ Carries(Select(a), a) /\ RingHas(a)
                 ELSE Select(a) = "none" /\ ~RingHas(a)
NoDangling == \A i \in 1..Len(layers) : \A a \in DOMAIN layers[i] : layers[i][a] \in keys /\ Carries(layers[i][a], a)
\* every holder of an alias appears in exactly one layer, no alias maps are empty (except the initial one)
Complete == \A h \in keys : \A a \in Range(AliasSeq[h]) : Cardinality({i \in 1..Len(layers) : Has(layers[i], a) /\ layers[i][a] = h}) = 1
KeysOK == prim \subseteq keys /\ keys \subseteq Comp
\* ---- _get_key for an arbitrary query string: per layer, the string as it is, then its space-free form
Sq(q) == IF FallbackAll \/ q \in HexLike THEN Squeeze[q] ELSE q
Hit(m, q) == Has(m, q) \/ Has(m, Sq(q))
GetKey(q) == IF \E i \in 1..Len(layers) : Hit(layers[i], q)
             THEN LET i == CHOOSE i \in 1..Len(layers) : Hit(layers[i], q) /\ \A j \in 1..(i-1) : ~Hit(layers[j], q)
                  IN IF Has(layers[i], q) THEN layers[i][q] ELSE layers[i][Sq(q)]
             ELSE "none"
\* what a query may select: a held object that carries it - a fingerprint / key id also in its grouped (spaced) form
Answers(h, q) == Carries(h, q) \/ (q \in HexLike /\ Carries(h, Squeeze[q]))
QueryOK == \A q \in DOMAIN Squeeze :
             IF \E h \in keys : Answers(h, q) THEN GetKey(q) \in keys /\ Answers(GetKey(q), q) ELSE GetKey(q) = "none"
\* ---- key(message): the recipients that are in the ring, in the order python meets them (a set: any order), the first taken;
\*      repaired: those whose selection is a private key come first
Outcomes(M) == LET inring == {a \in M : InRing(layers, a)}
                   sel == {Select(a) : a \in inring}
               IN IF sel = {} THEN {"none"}
                  ELSE IF PreferPrivate /\ \E h \in sel : ~IsPublic[h] THEN {h \in sel : ~IsPublic[h]} ELSE sel
\* selection by message yields a key that can decrypt it whenever such a key is held
MsgOK == \A M \in Msgs : \A r \in Outcomes(M) :
           IF \E h \in keys : ~IsPublic[h] /\ (\E a \in M : Carries(h, a)) THEN r \in keys /\ ~IsPublic[r] /\ (\E a \in M : Carries(r, a))
           ELSE IF \E h \in keys : \E a \in M : Carries(h, a) THEN r \in keys /\ (\E a \in M : Carries(r, a))
           ELSE r = "none"
=============================================================================
