------------------------------- MODULE Verbatim -------------------------------
(* C05, algorithm level: what is fed to the hash for the hashed subpacket area of a RECEIVED      *)
(* signature.  Mode "raw": the octets as received.  Mode "reserialise": parse every subpacket into *)
(* a typed object and serialise it again (pgpy.packet.fields.SubPackets.__hashbytearray__ as found *)
(* before the repair), with the normalisations the typed classes perform.                          *)
EXTENDS Subpackets, Bitwise
CONSTANT Mode
\* normalisations of the typed classes (pgpy/packet/subpackets/signature.py)
KnownBits(t) == IF t = 27 THEN 191 ELSE IF t = 30 THEN 1 ELSE IF t = 23 THEN 128 ELSE 255
Utf8Of(c) == IF c < 128 THEN <<c>> ELSE <<192 + (c \div 64), 128 + (c % 64)>>
Latin1ToUtf8(b) == FlattenSeq([k \in 1..Len(b) |-> Utf8Of(b[k])])
NormBody(t, b) ==
  IF t \in {4, 7} THEN (IF Len(b) >= 1 THEN <<0>> ELSE b)                 \* Boolean: parsed flag never set (as found)
  ELSE IF t \in {23, 27, 30} /\ Len(b) >= 1 THEN <<b[1] & KnownBits(t)>> \o Zeros(Len(b) - 1) \* ByteFlag keeps known bits of... (first octet), pads
  ELSE IF t \in {24, 26, 28} THEN Latin1ToUtf8(b)                         \* URI / signer's user id: latin-1 in, utf-8 out
  ELSE b
Reser(sp) == SubEnc(sp.type, sp.critical, NormBody(sp.type, sp.body))     \* minimal length encoding, always
HashedAs(area) ==
  IF Mode = "raw" THEN area
  ELSE LET s == SubSplit(area) IN FlattenSeq([k \in 1..Len(s.sps) |-> Reser(s.sps[k])])
\* ---- catalogue of received subpackets (well-formed, as other implementations may write them)
Enc(t, crit, body, form) == (IF form = 5 THEN <<255>> \o BE(Len(body) + 1, 4)
                             ELSE IF form = 2 THEN <<((Len(body) + 1 - 192) \div 256) + 192, (Len(body) + 1 - 192) % 256>>
                             ELSE SubLenEnc(Len(body) + 1)) \o <<t + (IF crit THEN 128 ELSE 0)>> \o body
Catalogue ==
  {Enc(t, c, b, f) : t \in {2}, c \in BOOLEAN, b \in {<<0, 0, 0, 1>>}, f \in {1, 5}}
  \cup {Enc(t, c, <<v>>, f) : t \in {4, 7}, c \in BOOLEAN, v \in {0, 1, 2}, f \in {1, 5}}
  \cup {Enc(t, FALSE, <<v>>, 1) : t \in {23, 27, 30}, v \in {0, 1, 2, 4, 64, 128, 255}}
  \cup {Enc(27, FALSE, <<3, 1>>, 1)}
  \cup {Enc(t, FALSE, b, 1) : t \in {24, 26, 28}, b \in {<<>>, <<97>>, <<195, 169>>, <<233>>}}
  \cup {Enc(t, c, b, f) : t \in {0, 100, 127}, c \in BOOLEAN, b \in {<<>>, <<1, 2>>}, f \in {1, 5}}
  \cup {Enc(100, FALSE, [k \in 1..200 |-> 7], f) : f \in {2, 5}}
Areas == Catalogue \cup {a \o b : a \in Catalogue, b \in {Enc(2, FALSE, <<0, 0, 0, 1>>, 1), Enc(27, FALSE, <<255>>, 1), Enc(100, TRUE, <<>>, 5)}}
=============================================================================
