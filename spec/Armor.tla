-------------------------------- MODULE Armor --------------------------------
(* RFC 4880 section 6: ASCII armor.  Text is a sequence of code points, binary a sequence of     *)
(* octets.  Dearmor is TOTAL: malformed input gives ok = FALSE, never an evaluation error.       *)
EXTENDS Octets, Bitwise

\* ---- radix-64 (6.3) ------------------------------------------------------------------------
B64Char(v) == IF v < 26 THEN 65 + v ELSE IF v < 52 THEN 71 + v ELSE IF v < 62 THEN v - 4 ELSE IF v = 62 THEN 43 ELSE 47
V(c) == IF c >= 65 /\ c <= 90 THEN c - 65
        ELSE IF c >= 97 /\ c <= 122 THEN c - 71
        ELSE IF c >= 48 /\ c <= 57 THEN c + 4
        ELSE IF c = 43 THEN 62 ELSE IF c = 47 THEN 63 ELSE 64           \* 64: not a radix-64 character
B64Enc(bs) ==
  LET n == Len(bs)
      g == (n + 2) \div 3
      o(k) == IF k <= n THEN bs[k] ELSE 0
      ch(j) ==                                   \* j-th output character, 1-based
        LET q == (j - 1) \div 4  r == (j - 1) % 4  a == o(3 * q + 1)  b == o(3 * q + 2)  c == o(3 * q + 3) IN
        IF r = 0 THEN B64Char(a \div 4)
        ELSE IF r = 1 THEN B64Char((a % 4) * 16 + b \div 16)
        ELSE IF r = 2 THEN (IF 3 * q + 2 > n THEN 61 ELSE B64Char((b % 16) * 4 + c \div 64))
        ELSE (IF 3 * q + 3 > n THEN 61 ELSE B64Char(c % 64))
  IN [j \in 1..(4 * g) |-> ch(j)]
\* well-formed radix-64 text: length multiple of 4, '=' only as the last one or two characters
B64OK(s) ==
  /\ Len(s) % 4 = 0
  /\ \A k \in 1..Len(s) : V(s[k]) < 64 \/ (s[k] = 61 /\ k >= Len(s) - 1 /\ (k = Len(s) \/ s[Len(s)] = 61))
B64Pad(s) == IF Len(s) = 0 THEN 0 ELSE IF s[Len(s)] # 61 THEN 0 ELSE IF s[Len(s) - 1] = 61 THEN 2 ELSE 1
B64Dec(s) ==                                                  \* caller: B64OK(s)
  LET n == (Len(s) \div 4) * 3 - B64Pad(s)
      q(k) == 4 * ((k - 1) \div 3)
      r(k) == (k - 1) % 3
      v(j) == LET x == V(s[j]) IN IF x = 64 THEN 0 ELSE x
  IN [k \in 1..n |->
        IF r(k) = 0 THEN v(q(k) + 1) * 4 + v(q(k) + 2) \div 16
        ELSE IF r(k) = 1 THEN (v(q(k) + 2) % 16) * 16 + v(q(k) + 3) \div 4
        ELSE (v(q(k) + 3) % 4) * 64 + v(q(k) + 4)]

\* ---- CRC-24 (6.1): init 0xB704CE, generator 0x1864CFB, over the binary data ----------------
CRCPoly == 8801531                                        \* 0x864CFB (bit 24 is the carry)
CRCStep8(crc0) ==
  LET f[k \in 0..8] == IF k = 0 THEN crc0
        ELSE LET c == f[k - 1] * 2 IN IF c >= 16777216 THEN (c - 16777216) ^^ CRCPoly ELSE c
  IN f[8]
CRC24(bs) == FoldLeft(LAMBDA acc, b : CRCStep8(acc ^^ (b * 65536)), 11994318, bs)
CRCOctets(bs) == BE(CRC24(bs), 3)

\* ---- lines -----------------------------------------------------------------------------------
\* split at LF; one trailing CR of a line is dropped (CRLF line endings)
Lines(t) ==
  LET idx == SelectSeq([k \in 1..Len(t) |-> k], LAMBDA k : t[k] = 10)
      n == Len(idx)
      start(j) == IF j = 1 THEN 1 ELSE idx[j - 1] + 1
      stop(j) == IF j <= n THEN idx[j] - 1 ELSE Len(t)
      raw(j) == SubSeq(t, start(j), stop(j))
      strip(l) == IF Len(l) > 0 /\ l[Len(l)] = 13 THEN SubSeq(l, 1, Len(l) - 1) ELSE l
  IN [j \in 1..(n + 1) |-> strip(raw(j))]
Dashes == <<45, 45, 45, 45, 45>>
BeginPfx == Dashes \o <<66, 69, 71, 73, 78, 32, 80, 71, 80, 32>>                 \* "-----BEGIN PGP "
EndPfx == Dashes \o <<69, 78, 68, 32, 80, 71, 80, 32>>                            \* "-----END PGP "
IsBeginLine(l) == Len(l) > 20 /\ IsPrefixOf(BeginPfx, l) /\ IsSuffixOf(Dashes, l)
IsEndLine(l) == Len(l) > 18 /\ IsPrefixOf(EndPfx, l) /\ IsSuffixOf(Dashes, l)
BeginLabel(l) == SubSeq(l, 16, Len(l) - 5)
EndLabel(l) == SubSeq(l, 14, Len(l) - 5)
SignedMsgLabel == <<83, 73, 71, 78, 69, 68, 32, 77, 69, 83, 83, 65, 71, 69>>      \* "SIGNED MESSAGE"
FirstIdx(S) == CHOOSE j \in S : \A jj \in S : j <= jj
IsBlank(l) == \A k \in 1..Len(l) : l[k] \in {32, 9}
\* "Key: Value"
ColonAt(l) == LET c == {k \in 1..(Len(l) - 1) : l[k] = 58 /\ l[k + 1] = 32} IN IF c = {} THEN 0 ELSE FirstIdx(c)
HeaderPair(l) == LET c == ColonAt(l) IN <<SubSeq(l, 1, c - 1), SubSeq(l, c + 2, Len(l))>>

NotArmor == [ok |-> FALSE, label |-> <<>>, headers |-> <<>>, payload |-> <<>>, hascrc |-> FALSE, crc |-> <<>>, crcok |-> FALSE,
             maxline |-> 0, tailok |-> FALSE, why |-> "no armor", endline |-> 0]
\* Decode the first armor block of text t whose BEGIN line is at or after line `from` and is not a
\* cleartext "SIGNED MESSAGE" header.
DearmorFrom(t, from) ==
  LET ls == Lines(t)
      bs == {j \in from..Len(ls) : IsBeginLine(ls[j]) /\ BeginLabel(ls[j]) # SignedMsgLabel} IN
  IF bs = {} THEN NotArmor
  ELSE LET b == FirstIdx(bs)
           blanks == {j \in (b + 1)..Len(ls) : IsBlank(ls[j])} IN
    IF blanks = {} THEN [NotArmor EXCEPT !.why = "no blank line after the armor headers"]
    ELSE LET bl == FirstIdx(blanks)
             hdrlines == SubSeq(ls, b + 1, bl - 1)
             ends == {j \in (bl + 1)..Len(ls) : IsEndLine(ls[j])} IN
      IF \E k \in 1..Len(hdrlines) : ColonAt(hdrlines[k]) = 0 THEN [NotArmor EXCEPT !.why = "malformed armor header line"]
      ELSE IF ends = {} THEN [NotArmor EXCEPT !.why = "no END line"]
      ELSE LET en == FirstIdx(ends)
               crcs == {j \in (bl + 1)..(en - 1) : Len(ls[j]) = 5 /\ ls[j][1] = 61}
               lastbody == IF crcs = {} THEN en - 1 ELSE FirstIdx(crcs) - 1
               bodylines == SubSeq(ls, bl + 1, lastbody)
               body == FlattenSeq(bodylines)
               crctxt == IF crcs = {} THEN <<>> ELSE SubSeq(ls[FirstIdx(crcs)], 2, 5) IN
        IF ~B64OK(body) THEN [NotArmor EXCEPT !.why = "body is not radix-64"]
        ELSE IF crcs # {} /\ (FirstIdx(crcs) # en - 1 \/ ~B64OK(crctxt) \/ B64Pad(crctxt) # 0) THEN [NotArmor EXCEPT !.why = "malformed checksum line"]
        ELSE LET payload == B64Dec(body)
                 crc == IF crcs = {} THEN <<>> ELSE B64Dec(crctxt) IN
          [ok |-> TRUE, label |-> BeginLabel(ls[b]),
           headers |-> [k \in 1..Len(hdrlines) |-> HeaderPair(hdrlines[k])],
           payload |-> payload, hascrc |-> crcs # {}, crc |-> crc,
           crcok |-> crcs # {} /\ crc = CRCOctets(payload),
           maxline |-> IF bodylines = <<>> THEN 0 ELSE FoldLeft(LAMBDA m, l : MaxOf(m, Len(l)), 0, bodylines),
           tailok |-> EndLabel(ls[en]) = BeginLabel(ls[b]), why |-> "ok", endline |-> en]
Dearmor(t) == DearmorFrom(t, 1)
\* all armor blocks of a text, in order (several keys, each in a block of its own, one after the other)
RECURSIVE BlocksFrom(_, _)
BlocksFrom(t, from) == LET r == DearmorFrom(t, from) IN IF ~r.ok THEN <<>> ELSE <<r>> \o BlocksFrom(t, r.endline + 1)
AllBlocks(t) == BlocksFrom(t, 1)
AllPayloads(t) == LET bs == AllBlocks(t) IN FlattenSeq([k \in 1..Len(bs) |-> bs[k].payload])

\* ---- writing (used for the design-level round trip) ---------------------------------------------
WrapLines(s, w) == [j \in 1..((Len(s) + w - 1) \div w) |-> SubSeq(s, (j - 1) * w + 1, MinOf(j * w, Len(s)))]
JoinLF(ls) == FlattenSeq([k \in 1..Len(ls) |-> ls[k] \o <<10>>])
ArmorText(label, hdrs, payload, w) ==
  JoinLF(<<BeginPfx \o label \o Dashes>>
         \o [k \in 1..Len(hdrs) |-> hdrs[k][1] \o <<58, 32>> \o hdrs[k][2]]
         \o <<<<>>>>
         \o WrapLines(B64Enc(payload), w)
         \o <<<<61>> \o B64Enc(CRCOctets(payload))>>
         \o <<EndPfx \o label \o Dashes>>)
\* block labels by object kind (6.2)
LabelOf(kind) == CASE kind = "pubkey" -> <<80, 85, 66, 76, 73, 67, 32, 75, 69, 89, 32, 66, 76, 79, 67, 75>>
                   [] kind = "privkey" -> <<80, 82, 73, 86, 65, 84, 69, 32, 75, 69, 89, 32, 66, 76, 79, 67, 75>>
                   [] kind = "message" -> <<77, 69, 83, 83, 65, 71, 69>>
                   [] kind = "signature" -> <<83, 73, 71, 78, 65, 84, 85, 82, 69>>
                   [] OTHER -> <<63>>
=============================================================================
