-------------------------------- MODULE Sound --------------------------------
(* C01, symbolic (Dolev-Yao) level.  A signature primitive is ideal: Verify(k, m, s) holds iff    *)
(* s was issued by k over exactly m.  An attempt is a record of the fields of a signature packet, *)
(* the subject components and the verifying key; the attacker changes one field at a time.        *)
(* Algorithm spec: which fields PGPy feeds to the primitive (HashedFields).  The constant Omit    *)
(* removes one field from that list (spec mutation: must make Sound fail).                         *)
EXTENDS Naturals, Sequences, FiniteSets, TLC
CONSTANTS Omit           \* a field name, or "none"
\* fields of an attempt -------------------------------------------------------------------------
SemFields == {"vkey", "type", "pk", "h", "hashed", "hashedLen", "subjKind", "subj1", "subj2", "subjLen", "sigval"}
NeutralFields == {"unhashed", "left16", "hdrfmt", "mpipad"}
Fields == SemFields \cup NeutralFields
Val == {0, 1}                      \* every field ranges over two abstract values; 0 = as signed
VARIABLES att, issued, verdict, nmut
vars == <<att, issued, verdict, nmut>>
Orig == [f \in Fields |-> 0]
\* what the primitive sees: the verifying key, the message (all hashed fields), the signature value
Msg(a) == [f \in (SemFields \ {"vkey", "sigval"}) \ {Omit} |-> a[f]]
Triple(a) == <<a["vkey"], Msg(a), a["sigval"]>>
Init == att = Orig /\ issued = {Triple(Orig)} /\ verdict = "none" /\ nmut = 0
Mutate(f) == /\ verdict = "none" /\ nmut < 2
             /\ att' = [att EXCEPT ![f] = 1 - att[f]]
             /\ nmut' = nmut + 1 /\ UNCHANGED <<issued, verdict>>
Verify == /\ verdict = "none"
          /\ verdict' = IF Triple(att) \in issued THEN "truthy" ELSE "falsy"
          /\ UNCHANGED <<att, issued, nmut>>
Next == (\E f \in Fields : Mutate(f)) \/ Verify
Spec == Init /\ [][Next]_vars
\* the property: truthy only if every semantic field is as signed
Semantic(a) == \E f \in SemFields : a[f] # Orig[f]
Sound == verdict = "truthy" => ~Semantic(att)
\* liveness-free completeness sanity: neutral mutations do not break verification in the ideal model
NeutralOK == (verdict # "none" /\ ~Semantic(att)) => verdict = "truthy"
=============================================================================
