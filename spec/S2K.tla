-------------------------------- MODULE S2K --------------------------------
(* RFC 4880 section 3.7.1: string-to-key.  The hash function is opaque: a derivation is described *)
(* by one stream descriptor per hash context, <<zeros, unit, length>>, meaning that the context    *)
(* is fed  Zeros(zeros) \o Cycle(unit, length).                                                    *)
EXTENDS Wire
Simple == 0   Salted == 1   Iterated == 3
Unit(spec, salt, pass) == IF spec = Simple THEN pass ELSE salt \o pass
\* number of octets of the salt+passphrase stream that are hashed
StreamLen(spec, c, u) == IF spec = Iterated THEN MaxOf(S2KCount(c), Len(u)) ELSE Len(u)
\* u repeated and truncated to exactly n octets (n = 0 or u = <<>> gives <<>>)
Cycle(u, n) == IF Len(u) = 0 THEN <<>> ELSE [k \in 1..n |-> u[((k - 1) % Len(u)) + 1]]
NCtx(keyBits, hashBits) == (keyBits + hashBits - 1) \div hashBits
ContextInput(i, u, n) == Zeros(i) \o Cycle(u, n)          \* context i = 0, 1, 2, ...
\* key assembly: digests concatenated, first context leftmost, excess on the right discarded
Assemble(digests, keyBits) == Take(FlattenSeq(digests), keyBits \div 8)
\* a derivation record is conformant iff its descriptors are the prescribed ones
DescriptorsOK(spec, salt, c, pass, keyBits, hashBits, ctxs) ==
  LET u == Unit(spec, salt, pass)  n == StreamLen(spec, c, u) IN
  /\ Len(ctxs) = NCtx(keyBits, hashBits)
  /\ \A i \in 1..Len(ctxs) : ctxs[i].zeros = i - 1 /\ ctxs[i].unit = u /\ ctxs[i].len = n
     /\ Len(ctxs[i].digest) * 8 = hashBits
=============================================================================
