----------------------------- MODULE Subpackets -----------------------------
(* RFC 4880 section 5.2.3: version 4 signature packet body, subpacket areas, subpackets.         *)
EXTENDS Packets

\* ---- subpacket areas ------------------------------------------------------------------------
\* split an area (without its two-octet length) into subpackets [type, critical, body, raw]
RECURSIVE SubSplitFrom(_, _, _)
SubSplitFrom(a, p, acc) ==
  IF p > Len(a) THEN [ok |-> TRUE, sps |-> acc]
  ELSE LET d == SubLenDecAt(a, p) IN
    IF ~d.ok \/ d.val < 1 \/ p + d.size + d.val - 1 > Len(a) THEN [ok |-> FALSE, sps |-> acc]
    ELSE LET t == a[p + d.size]
             raw == SubSeq(a, p, p + d.size + d.val - 1) IN
      SubSplitFrom(a, p + d.size + d.val,
                   Append(acc, [type |-> t % 128, critical |-> t >= 128, body |-> SubSeq(a, p + d.size + 1, p + d.size + d.val - 1),
                                raw |-> raw, lenfield |-> d.size]))
SubSplit(a) == SubSplitFrom(a, 1, <<>>)
SubEnc(type, critical, body) == SubLenEnc(Len(body) + 1) \o <<type + (IF critical THEN 128 ELSE 0)>> \o body

\* ---- version 4 signature body ---------------------------------------------------------------
SigBad == [ok |-> FALSE]
SigFields(b) ==
  IF Len(b) < 10 \/ b[1] # 4 THEN [ok |-> FALSE, ver |-> IF Len(b) > 0 THEN b[1] ELSE 0]
  ELSE LET hl == b[5] * 256 + b[6] IN
    IF 8 + hl > Len(b) THEN [ok |-> FALSE, ver |-> 4]
    ELSE LET ul == b[7 + hl] * 256 + b[8 + hl] IN
      IF 10 + hl + ul > Len(b) THEN [ok |-> FALSE, ver |-> 4]
      ELSE [ok |-> TRUE, ver |-> 4, type |-> b[2], pk |-> b[3], h |-> b[4],
            hashedLen |-> hl,
            hashedArea |-> SubSeq(b, 7, 6 + hl),
            hashedRegion |-> SubSeq(b, 1, 6 + hl),            \* version .. last hashed subpacket, as on the wire
            unhashedArea |-> SubSeq(b, 9 + hl, 8 + hl + ul),
            left16 |-> SubSeq(b, 9 + hl + ul, 10 + hl + ul),
            sigvals |-> SubSeq(b, 11 + hl + ul, Len(b))]

\* number of MPIs in the signature value by public-key algorithm (RSA 1,2,3; DSA 17; ECDSA 19; EdDSA 22)
NSigMPI(pk) == IF pk \in {1, 2, 3} THEN 1 ELSE IF pk \in {17, 19, 22} THEN 2 ELSE 0
RECURSIVE MPISeqFrom(_, _, _, _)
MPISeqFrom(s, p, n, acc) ==       \* read n MPIs (n = 0: as many as there are); result [ok, mags, next]
  IF n = 0 /\ p > Len(s) THEN [ok |-> TRUE, mags |-> acc, next |-> p]
  ELSE IF n > 0 /\ Len(acc) = n THEN [ok |-> TRUE, mags |-> acc, next |-> p]
  ELSE LET d == MPIDecAt(s, p) IN
    IF ~d.ok THEN [ok |-> FALSE, mags |-> acc, next |-> p]
    ELSE MPISeqFrom(s, d.next, n, Append(acc, d.mag))
\* lenient reading (what a tolerant reader extracts): a declared length running past the end is clamped
RECURSIVE MPISeqLenient(_, _, _, _)
MPISeqLenient(s, p, n, acc) ==
  IF p + 1 > Len(s) \/ (n > 0 /\ Len(acc) = n) THEN acc
  ELSE LET bits == s[p] * 256 + s[p + 1]
           nb == (bits + 7) \div 8
           to == MinOf(p + 1 + nb, Len(s)) IN
    MPISeqLenient(s, to + 1, n, Append(acc, StripZ(SubSeq(s, p + 2, to))))
\* signature value normalised to magnitudes (leading zero bits / padding / declared bit counts do not matter)
SigValue(f) == MPISeqLenient(f.sigvals, 1, NSigMPI(f.pk), <<>>)

HasSub(sps, t) == \E k \in 1..Len(sps) : sps[k].type = t
SubsOfType(sps, t) == SelectSeq(sps, LAMBDA x : x.type = t)
\* well-formed v4 signature packet body (what another RFC 4880 reader needs)
SigWF(b) ==
  LET f == SigFields(b) IN
  /\ f.ok
  /\ LET hs == SubSplit(f.hashedArea)  us == SubSplit(f.unhashedArea) IN
     /\ hs.ok /\ us.ok
     /\ HasSub(hs.sps, 2)                                              \* creation time MUST be hashed
     /\ \A k \in 1..Len(hs.sps) : hs.sps[k].type = 2 => Len(hs.sps[k].body) = 4
     /\ LET r == MPISeqFrom(f.sigvals, 1, NSigMPI(f.pk), <<>>) IN
          NSigMPI(f.pk) > 0 => r.ok /\ r.next = Len(f.sigvals) + 1
\* issuer key id named by a signature: hashed area first, then unhashed (type 16, 8 octets), or fingerprint (type 33)
IssuerIds(f) ==
  LET hs == SubSplit(f.hashedArea).sps  us == SubSplit(f.unhashedArea).sps
      all == hs \o us IN
  {all[k].body : k \in {j \in 1..Len(all) : all[j].type = 16 /\ Len(all[j].body) = 8}}
IssuerFprs(f) ==
  LET all == SubSplit(f.hashedArea).sps \o SubSplit(f.unhashedArea).sps IN
  {Tail(all[k].body) : k \in {j \in 1..Len(all) : all[j].type = 33 /\ Len(all[j].body) = 21 /\ all[j].body[1] = 4}}
=============================================================================
