------------------------------- MODULE Message -------------------------------
(* RFC 4880 section 11.3: OpenPGP message grammar over packet sequences, one-pass signature      *)
(* nesting (5.4), literal data fields (5.9).                                                      *)
EXTENDS Subpackets
\* one-pass signature packet body (5.4): 03, type, hash, pk, key id (8), flag
OpsFields(b) == IF Len(b) # 13 \/ b[1] # 3 THEN [ok |-> FALSE]
                ELSE [ok |-> TRUE, type |-> b[2], h |-> b[3], pk |-> b[4], keyid |-> SubSeq(b, 5, 12), last |-> b[13]]
\* literal data packet body (5.9): format, file name length, file name, time (4), content
LitFields(b) == IF Len(b) < 6 \/ 6 + b[2] > Len(b) THEN [ok |-> FALSE]
                ELSE [ok |-> TRUE, format |-> b[1], filename |-> SubSeq(b, 3, 2 + b[2]), time |-> SubSeq(b, 3 + b[2], 6 + b[2]),
                      content |-> SubSeq(b, 7 + b[2], Len(b))]
TagsOf(ps) == [k \in 1..Len(ps) |-> ps[k].tag]
IsEsk(t) == t \in {1, 3}
IsContainer(t) == t \in {9, 18}
\* ---- grammar: ps is a sequence of packet records (PacketAt results)
Encrypted(ps) == Len(ps) >= 1 /\ IsContainer(ps[Len(ps)].tag) /\ \A k \in 1..(Len(ps) - 1) : IsEsk(ps[k].tag)
Plain(ps) == Len(ps) = 1 /\ ps[1].tag \in {11, 8}
\* one-pass signed: n OPS, one literal/compressed message, n signatures
OnePassN(ps) == IF Len(ps) % 2 = 1 THEN (Len(ps) - 1) \div 2 ELSE 0
OnePassShape(ps) == LET n == OnePassN(ps) IN
  /\ Len(ps) >= 3 /\ Len(ps) % 2 = 1
  /\ \A k \in 1..n : ps[k].tag = 4
  /\ ps[n + 1].tag \in {11, 8}
  /\ \A k \in (n + 2)..Len(ps) : ps[k].tag = 2
\* OPS i (1-based, outermost first) belongs to signature n + 1 - i (counted from the first trailing signature)
OpsMatch(ps) == LET n == OnePassN(ps) IN
  \A k \in 1..n :
    LET o == OpsFields(ps[k].body)  f == SigFields(ps[Len(ps) + 1 - k].body) IN
      o.ok /\ f.ok /\ o.type = f.type /\ o.h = f.h /\ o.pk = f.pk /\ o.keyid \in IssuerIds(f)
\* only the last one-pass packet (the one next to the message) is marked as final
OpsLast(ps) == LET n == OnePassN(ps) IN
  \A k \in 1..n : LET o == OpsFields(ps[k].body) IN o.ok /\ ((o.last # 0) <=> (k = n))
\* old-style: signatures first, then the message (used by PGPy for signatures over an encrypted message)
SigPrefixed(ps) == \E n \in 1..(Len(ps) - 1) : (\A k \in 1..n : ps[k].tag = 2) /\ (Plain(SubSeq(ps, n + 1, Len(ps))) \/ Encrypted(SubSeq(ps, n + 1, Len(ps))))
Grammar(ps) == Plain(ps) \/ Encrypted(ps) \/ OnePassShape(ps) \/ SigPrefixed(ps)
\* the literal packet of an (unencrypted) message: position and fields
LiteralOf(ps) == IF Plain(ps) THEN ps[1] ELSE IF OnePassShape(ps) THEN ps[OnePassN(ps) + 1] ELSE [tag |-> 0, body |-> <<>>]
SigPacketsOf(ps) == SelectSeq(ps, LAMBDA x : x.tag = 2)
=============================================================================
