------------------------------- MODULE SigOpts -------------------------------
(* The optional parameters of PGPy's signing calls and the call kinds they apply to (C02).        *)
(* Used to generate a covering set: none, every single option, every pair, all.                   *)
EXTENDS Naturals, FiniteSets
Kinds == {"doc", "text", "timestamp", "selfcert", "thirdparty", "directkey", "revoke", "bind"}
General == {"expires", "notation", "policy_uri", "not_revocable", "intended_recipients", "no_issuer_fpr", "user"}
SelfOnly == {"usage", "ciphers", "hashes", "compression", "key_expiration", "keyserver", "keyserver_flags", "primary"}
ThirdOnly == {"trust", "trust_regex", "exportable_true", "exportable_false"}
RevokeOnly == {"reason", "comment"}
BindOnly == {"usage", "key_expiration"}
Applicable(kind) ==
  CASE kind \in {"doc", "text", "timestamp"} -> General
    [] kind = "selfcert" -> General \cup SelfOnly
    [] kind = "thirdparty" -> (General \ {"user"}) \cup ThirdOnly
    [] kind = "directkey" -> General \ {"user"}
    [] kind = "revoke" -> (General \ {"user"}) \cup RevokeOnly
    [] kind = "bind" -> (General \ {"user"}) \cup BindOnly
Conflict(S) == {"exportable_true", "exportable_false"} \subseteq S \/ ("trust_regex" \in S /\ "trust" \notin S /\ Cardinality(S) = 1)
Cover(kind) == LET A == Applicable(kind) IN
  {S \in ({{}} \cup {{a} : a \in A} \cup {{a, b} : a \in A, b \in A} \cup {A \ {"exportable_false"}}) : ~Conflict(S)}
=============================================================================
