--------------------------------- MODULE Cert ---------------------------------
(* C14 / C15: a certificate (transferable key) as a ledger of issued signatures.  Every signature  *)
(* record carries the component it was issued for; the observable state of the key is a function  *)
(* of the ledger.  State is a record so that the same operators drive the generator (Gen_Cert)    *)
(* and the trace validation (Trace_Cert).                                                          *)
EXTENDS Integers, Sequences, FiniteSets, SequencesExt
UidNames == {"A", "B", "IMG"}                 \* two user ids and one user attribute
SubNames == {"S1", "S2"}                      \* S1 can sign (needs a cross-signature), S2 encrypts
\* a ledger record: kind, tgt, tick, seq (position), tag (free-form data of the signature: preference set / flags id), prim
Kinds == {"cert", "certrev", "third", "third-local", "bind", "subrev", "keyrev", "revoker", "dropped"}
Empty == [uids |-> <<>>, subs |-> <<>>, ledger |-> <<>>, tick |-> 0]
Rec(st, kind, tgt, tag, prim) == [kind |-> kind, tgt |-> tgt, tick |-> st.tick, seq |-> Len(st.ledger) + 1, tag |-> tag, prim |-> prim]
Issue(st, kind, tgt, tag, prim) == [st EXCEPT !.ledger = Append(st.ledger, Rec(st, kind, tgt, tag, prim))]
HasUid(st, u) == \E k \in 1..Len(st.uids) : st.uids[k] = u
HasSub(st, s) == \E k \in 1..Len(st.subs) : st.subs[k] = s
\* ---- actions: act = [op, a, tag, prim]; Enabled says whether the library is expected to perform it
Enabled(st, act) ==
  CASE act.op = "add_uid" -> ~HasUid(st, act.a)
    [] act.op \in {"recertify", "third", "third-local", "revoke_uid", "del_uid"} -> HasUid(st, act.a)
    [] act.op = "add_sub" -> ~HasSub(st, act.a) /\ Len(st.uids) > 0
    [] act.op \in {"rebind", "revoke_sub"} -> HasSub(st, act.a) /\ Len(st.uids) > 0
    [] act.op \in {"revoke_key", "add_revoker"} -> Len(st.uids) > 0
    [] act.op \in {"tick", "export_import", "copy", "derive_pub", "protect_unlock"} -> TRUE
    [] OTHER -> FALSE
Apply(st, act) ==
  CASE act.op = "add_uid" -> Issue([st EXCEPT !.uids = Append(st.uids, act.a)], "cert", act.a, act.tag, act.prim)
    [] act.op = "recertify" -> Issue(st, "cert", act.a, act.tag, act.prim)
    [] act.op = "third" -> Issue(st, "third", act.a, act.tag, FALSE)
    [] act.op = "third-local" -> Issue(st, "third-local", act.a, act.tag, FALSE)
    [] act.op = "revoke_uid" -> Issue(st, "certrev", act.a, act.tag, FALSE)
    \* the identity leaves the key together with the signatures attached to it
    [] act.op = "del_uid" -> [st EXCEPT !.uids = SelectSeq(st.uids, LAMBDA u : u # act.a),
                                        !.ledger = [k \in 1..Len(st.ledger) |-> IF st.ledger[k].tgt = act.a
                                                                               THEN [st.ledger[k] EXCEPT !.kind = "dropped", !.tgt = "-"] ELSE st.ledger[k]]]
    [] act.op = "add_sub" -> Issue([st EXCEPT !.subs = Append(st.subs, act.a)], "bind", act.a, act.tag, FALSE)
    [] act.op = "rebind" -> Issue(st, "bind", act.a, act.tag, FALSE)
    [] act.op = "revoke_sub" -> Issue(st, "subrev", act.a, act.tag, FALSE)
    [] act.op = "revoke_key" -> Issue(st, "keyrev", "key", act.tag, FALSE)
    [] act.op = "add_revoker" -> Issue(st, "revoker", "key", act.tag, FALSE)
    [] act.op = "tick" -> [st EXCEPT !.tick = st.tick + 1]
    \* work continues on the imported key: non-exportable certifications did not travel (positions stay stable)
    [] act.op = "export_import" -> [st EXCEPT !.ledger = [k \in 1..Len(st.ledger) |-> IF st.ledger[k].kind = "third-local"
                                                                                      THEN [st.ledger[k] EXCEPT !.kind = "dropped", !.tgt = "-"] ELSE st.ledger[k]]]
    [] OTHER -> st
\* ---- derived observables ------------------------------------------------------------------------
Recs(st, kinds, tgt) == SelectSeq(st.ledger, LAMBDA r : r.kind \in kinds /\ r.tgt = tgt)
\* most recent = greatest (tick, seq)
Latest(rs) == CHOOSE r \in {rs[k] : k \in 1..Len(rs)} : \A q \in {rs[k] : k \in 1..Len(rs)} : q.tick < r.tick \/ (q.tick = r.tick /\ q.seq <= r.seq)
\* the most recent self-issued signature on an identity (certification or certification revocation)
SelfOn(st, u) == Recs(st, {"cert", "certrev"}, u)
EffSelf(st, u) == IF SelfOn(st, u) = <<>> THEN [kind |-> "none", tag |-> "none", prim |-> FALSE, seq |-> 0, tick |-> -1] ELSE Latest(SelfOn(st, u))
\* among self-signatures of the same second the property cannot tell which is "most recent" unless it fixes the tie rule:
\* candidates = all self-signatures carrying the greatest tick
TopTick(st, u) == EffSelf(st, u).tick
TieCands(st, u) == {SelfOn(st, u)[k].seq : k \in {j \in 1..Len(SelfOn(st, u)) : SelfOn(st, u)[j].tick = TopTick(st, u)}}
EffBind(st, s) == IF Recs(st, {"bind"}, s) = <<>> THEN [tag |-> "none", seq |-> 0, tick |-> -1] ELSE Latest(Recs(st, {"bind"}, s))
BindTieCands(st, s) == LET rs == Recs(st, {"bind"}, s) IN {rs[k].seq : k \in {j \in 1..Len(rs) : rs[j].tick = EffBind(st, s).tick}}
\* the validity period of the KEY is set by self-CERTIFICATIONS (tags p2 / p3 carry a key expiration time); a revocation of an identity
\* carries none and does not lift it. With several identities the property does not say whose certification wins: any that sets one.
ExpClass(tag) == IF tag \in {"p2", "p3"} THEN tag ELSE "none"
LatestCertTag(st, u) == IF Recs(st, {"cert"}, u) = <<>> THEN "none" ELSE Latest(Recs(st, {"cert"}, u)).tag
KeyExpiryCands(st, us) == {ExpClass(LatestCertTag(st, u)) : u \in us} \ {"none"}
KeyExpiryOK(st, got) ==
  LET ids == {u \in {"A", "B"} : HasUid(st, u)}      \* user ids; a user attribute (IMG) alone may or may not be consulted
      att == {u \in {"IMG"} : HasUid(st, u)} IN
  IF KeyExpiryCands(st, ids) # {} THEN got \in KeyExpiryCands(st, ids)
  ELSE got \in {"none"} \cup KeyExpiryCands(st, att)
UidRevoked(st, u) == Recs(st, {"certrev"}, u) # <<>>
SubRevoked(st, s) == Recs(st, {"subrev"}, s) # <<>>
KeyRevoked(st) == Recs(st, {"keyrev"}, "key") # <<>>
\* signatures expected on a component (ledger positions), and those that survive an export (non-exportable ones do not)
SigsOn(st, tgt) == {r.seq : r \in {st.ledger[k] : k \in {j \in 1..Len(st.ledger) : st.ledger[j].tgt = tgt}}}
ExportableSigsOn(st, tgt) == {r.seq : r \in {st.ledger[k] : k \in {j \in 1..Len(st.ledger) : st.ledger[j].tgt = tgt /\ st.ledger[j].kind # "third-local"}}}
=============================================================================
