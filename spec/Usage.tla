-------------------------------- MODULE Usage --------------------------------
(* C16: key-usage policy.  A key is a primary plus 0..3 subkeys; every component has a           *)
(* capability set granted by its MOST RECENT self-signature (identity self-certification for      *)
(* the primary, binding signature for a subkey).                                                  *)
EXTENDS Integers, Sequences, FiniteSets
Flag == {"C", "S", "EC", "ES", "A"}          \* certify, sign, encrypt-communications, encrypt-storage, authentication
Ops == {"sign", "certify", "revoke", "encrypt", "decrypt", "bind", "revoker"}
Forms == {"public", "private-unprotected", "private-locked", "private-unlocked"}
Req(op) == CASE op = "sign" -> {"S"} [] op \in {"certify", "revoke"} -> {"C"} [] op = "encrypt" -> {"EC", "ES"}
             [] OTHER -> {}
PrivateOp(op) == op # "encrypt"
FormOK(op, form) == IF PrivateOp(op) THEN form \in {"private-unprotected", "private-unlocked"} ELSE form = "public"
\* A scenario: pflags (effective flags of the chosen identity), subs: sequence of sequences of flag sets
\* (binding history per subkey, last = most recent), op, form, enforce, hasid
EffSub(sc, k) == sc.subs[k][Len(sc.subs[k])]
FlagsOf(sc, c) == IF c = 0 THEN sc.pflags \cup {"C"} ELSE EffSub(sc, c)      \* primary keys can always certify (RFC 4880 5.2.3.21)
Components(sc) == 0..Len(sc.subs)
Qualified(sc) == {c \in Components(sc) : Req(sc.op) \cap FlagsOf(sc, c) # {}}
MustRefuse(sc) == \/ ~FormOK(sc.op, sc.form)
                  \/ ~sc.hasid
                  \/ (Req(sc.op) # {} /\ Qualified(sc) = {} /\ sc.enforce)
\* outcome: Refuse (-1) or the index of the component that was used (and named in the output)
Refuse == -1
\* the one operation C16 requires to SUCCEED: decryption of a message addressed to a component of a usable private key with an identity
\* ("decryption finds the addressed subkey") - whatever other session-key packets the message carries
MustSucceed(sc) == sc.op = "decrypt" /\ FormOK(sc.op, sc.form) /\ sc.hasid
Allowed(sc, out) ==
  IF out = Refuse THEN ~MustSucceed(sc)           \* otherwise refusing is always safe; progress is not part of C16
  ELSE /\ ~MustRefuse(sc)
       /\ out \in Components(sc)
       \* a component whose latest self-signature grants the capability is used whenever there is one; switching enforcement off only
       \* lifts the refusal when there is none
       /\ (Req(sc.op) # {} /\ (sc.enforce \/ Qualified(sc) # {}) => out \in Qualified(sc))
       /\ (Req(sc.op) = {} /\ sc.op # "decrypt" => out = 0)
\* ---- algorithm spec: KeyAction.usage / check_attributes as coded (pgpy/decorators.py) ----
\* ReadLatest = FALSE models the code as found: a subkey's flags were read from its OLDEST binding.
ImplFlags(sc, c, ReadLatest) == IF c = 0 THEN sc.pflags \cup {"C"} ELSE IF ReadLatest THEN EffSub(sc, c) ELSE sc.subs[c][1]
ImplOutcome(sc, ReadLatest) ==
  IF ~sc.hasid THEN Refuse
  ELSE LET scan == {c \in Components(sc) : Req(sc.op) \cap ImplFlags(sc, c, ReadLatest) # {}}
           pick == IF Req(sc.op) = {} THEN 0
                   ELSE IF scan # {} THEN CHOOSE c \in scan : \A d \in scan : c <= d      \* primary first, then insertion order
                   ELSE IF sc.enforce THEN -2 ELSE Len(sc.subs)                           \* for-else: the last one scanned
       IN IF pick = -2 \/ ~FormOK(sc.op, sc.form) THEN Refuse ELSE pick
=============================================================================
