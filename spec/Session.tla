------------------------------ MODULE Session ------------------------------
(* A whole session with the library: several private keys with their protection state              *)
(* (KeyProtect.tla lifted to a family of keys), the detached signatures and encrypted messages     *)
(* made so far, and a keyring of public keys.  Every action fixes the outcome `out` the caller     *)
(* must observe.  This is the composition the per-property specifications are projections of:      *)
(*   C06  private operations succeed exactly on keys that can operate; scopes relock               *)
(*   C01  a signature verifies exactly with its signer's public key over its own document          *)
(*   C03  an encrypted message opens exactly for its recipients / its passphrase and yields the    *)
(*        original document and inner signature                                                    *)
(*   C19  the keyring finds exactly the keys loaded and not unloaded                               *)
EXTENDS Naturals, Sequences, FiniteSets
CONSTANTS Keys, Pass, Docs, MaxSigs, MaxCts
VARIABLES prot, pw, depth,          \* per key: "none" | "locked" | "unlocked"; passphrase; open unlock scopes
          sigs,                     \* log of detached signatures: [signer, doc]
          cts,                      \* log of encrypted messages: [to (set of keys), pass (BOOLEAN), doc, signer (key or "-")]
          ring,                     \* public keys loaded in the keyring
          out                       \* what the caller observes from the last action
vars == <<prot, pw, depth, sigs, cts, ring, out>>
Res(r, d, s) == [r |-> r, doc |-> d, signer |-> s]
Plain(r) == Res(r, "-", "-")
CanOperate(k) == prot[k] \in {"none", "unlocked"}
Init == /\ prot = [k \in Keys |-> "none"] /\ pw = [k \in Keys |-> "-"] /\ depth = [k \in Keys |-> 0]
        /\ sigs = <<>> /\ cts = <<>> /\ ring = {} /\ out = Plain("init")
\* ---- protection life cycle (KeyProtect's actions, one family member at a time) ---------------------------------------
Protect(k, p) ==
  /\ IF CanOperate(k) THEN prot' = [prot EXCEPT ![k] = "locked"] /\ pw' = [pw EXCEPT ![k] = p] /\ out' = Plain("ok")
     ELSE UNCHANGED <<prot, pw>> /\ out' = Plain("any")          \* protecting a locked key changes nothing
  /\ UNCHANGED <<depth, sigs, cts, ring>>
Unlock(k, p) ==
  /\ IF prot[k] = "none" THEN depth' = [depth EXCEPT ![k] = @ + 1] /\ UNCHANGED prot /\ out' = Plain("ok")
     ELSE IF p = pw[k] THEN prot' = [prot EXCEPT ![k] = "unlocked"] /\ depth' = [depth EXCEPT ![k] = @ + 1] /\ out' = Plain("ok")
     ELSE prot' = [prot EXCEPT ![k] = "locked"] /\ UNCHANGED depth /\ out' = Plain("refused")   \* wrong passphrase: raises
  /\ UNCHANGED <<pw, sigs, cts, ring>>
ScopeExit(k) ==
  /\ depth[k] > 0
  /\ depth' = [depth EXCEPT ![k] = @ - 1]
  /\ prot' = [prot EXCEPT ![k] = IF @ = "none" THEN "none" ELSE "locked"]
  /\ out' = Plain("ok") /\ UNCHANGED <<pw, sigs, cts, ring>>
\* the key object is replaced by what importing its export gives: a protected key comes back locked, no scope is open
ExportImport(k) ==
  /\ prot' = [prot EXCEPT ![k] = IF @ = "none" THEN "none" ELSE "locked"]
  /\ depth' = [depth EXCEPT ![k] = 0]
  /\ out' = Plain("ok") /\ UNCHANGED <<pw, sigs, cts, ring>>
\* ---- signatures -------------------------------------------------------------------------------------------------------
Sign(k, d) ==
  /\ Len(sigs) < MaxSigs
  /\ IF CanOperate(k) THEN sigs' = Append(sigs, [signer |-> k, doc |-> d]) /\ out' = Plain("ok")
     ELSE UNCHANGED sigs /\ out' = Plain("refused")
  /\ UNCHANGED <<prot, pw, depth, cts, ring>>
Verify(k, i, d) ==
  /\ i \in 1..Len(sigs)
  /\ out' = Plain(IF sigs[i].signer = k /\ sigs[i].doc = d THEN "truthy" ELSE "not-truthy")
  /\ UNCHANGED <<prot, pw, depth, sigs, cts, ring>>
\* ---- encryption -------------------------------------------------------------------------------------------------------
Encrypt(R, usepass, d, s) ==
  /\ Len(cts) < MaxCts /\ (R # {} \/ usepass)
  /\ IF s # "-" /\ ~CanOperate(s) THEN UNCHANGED cts /\ out' = Plain("refused")       \* the inner signature cannot be made
     ELSE cts' = Append(cts, [to |-> R, pass |-> usepass, doc |-> d, signer |-> s]) /\ out' = Plain("ok")
  /\ UNCHANGED <<prot, pw, depth, sigs, ring>>
Decrypt(k, j) ==
  /\ j \in 1..Len(cts)
  /\ out' = IF k \in cts[j].to /\ CanOperate(k) THEN Res("plain", cts[j].doc, cts[j].signer) ELSE Plain("refused")
  /\ UNCHANGED <<prot, pw, depth, sigs, cts, ring>>
DecryptPass(j, good) ==
  /\ j \in 1..Len(cts)
  /\ out' = IF cts[j].pass /\ good THEN Res("plain", cts[j].doc, cts[j].signer) ELSE Plain("refused")
  /\ UNCHANGED <<prot, pw, depth, sigs, cts, ring>>
\* ---- keyring ----------------------------------------------------------------------------------------------------------
RingLoad(k) == ring' = ring \cup {k} /\ out' = Plain("ok") /\ UNCHANGED <<prot, pw, depth, sigs, cts>>
RingUnload(k) == k \in ring /\ ring' = ring \ {k} /\ out' = Plain("ok") /\ UNCHANGED <<prot, pw, depth, sigs, cts>>
RingVerify(i, d) ==
  /\ i \in 1..Len(sigs)
  /\ out' = Plain(IF sigs[i].signer \notin ring THEN "no-key" ELSE IF sigs[i].doc = d THEN "truthy" ELSE "not-truthy")
  /\ UNCHANGED <<prot, pw, depth, sigs, cts, ring>>
Next == \/ \E k \in Keys : \/ \E p \in Pass : Protect(k, p) \/ Unlock(k, p)
                           \/ ScopeExit(k) \/ ExportImport(k) \/ RingLoad(k) \/ RingUnload(k)
                           \/ \E d \in Docs : Sign(k, d) \/ \E i \in 1..Len(sigs) : Verify(k, i, d)
                           \/ \E j \in 1..Len(cts) : Decrypt(k, j)
        \/ \E R \in SUBSET Keys, u \in BOOLEAN, d \in Docs, s \in Keys \cup {"-"} : Encrypt(R, u, d, s)
        \/ \E j \in 1..Len(cts), g \in BOOLEAN : DecryptPass(j, g)
        \/ \E i \in 1..Len(sigs), d \in Docs : RingVerify(i, d)
Spec == Init /\ [][Next]_vars
\* ---- properties of the design ------------------------------------------------------------------------------------------
TypeOK == /\ prot \in [Keys -> {"none", "locked", "unlocked"}] /\ depth \in [Keys -> Nat]
          /\ \A k \in Keys : (prot[k] = "none") <=> (pw[k] = "-")
          /\ ring \subseteq Keys
\* a key that is protected and has no open scope is locked
Relocked == \A k \in Keys : (depth[k] = 0 /\ prot[k] # "none") => prot[k] = "locked"
\* no signature and no signed message is ever made by a key that cannot operate (action property)
NoLockedSigner ==
  [][/\ (Len(sigs') > Len(sigs) => CanOperate(sigs'[Len(sigs')].signer))
     /\ (Len(cts') > Len(cts) /\ cts'[Len(cts')].signer # "-" => CanOperate(cts'[Len(cts')].signer))]_vars
\* plaintext is only ever handed to a listed recipient that can operate, or to the passphrase
OnlyRecipientsRead == [][out'.r = "plain" => \E j \in 1..Len(cts) : out'.doc = cts[j].doc /\ out'.signer = cts[j].signer]_vars
\* the logs are append-only
AppendOnly == [][/\ Len(sigs') >= Len(sigs) /\ SubSeq(sigs', 1, Len(sigs)) = sigs
                 /\ Len(cts') >= Len(cts) /\ SubSeq(cts', 1, Len(cts)) = cts]_vars
=============================================================================
