------------------------------ MODULE Packets ------------------------------
(* RFC 4880 section 4: packet headers and packet sequences.                                    *)
EXTENDS Wire

\* Parse the packet that starts at s[p].
\*  ok, tag, fmt ("new"/"old"), lt (old length type or -1), hl (tag octet + first length field),
\*  bl (body length), body (octets, partial chunks joined), next (index after the packet),
\*  partial (TRUE when partial body lengths were used), indet (old-format indeterminate length)
Bad == [ok |-> FALSE, tag |-> -1, fmt |-> "bad", lt |-> -1, hl |-> 0, bl |-> 0, body |-> <<>>, next |-> 0,
        partial |-> FALSE, indet |-> FALSE]
PacketAt(s, p) ==
  IF p > Len(s) \/ s[p] < 128 THEN Bad
  ELSE LET o == s[p] IN
    IF IsNewFmt(o) THEN
      LET d == NewLenDecAt(s, p + 1) IN
      IF d.kind = "short" \/ d.val < 0 THEN Bad
      ELSE IF d.kind = "def" THEN
        IF p + d.size + d.val > Len(s) THEN Bad
        ELSE [ok |-> TRUE, tag |-> o - 192, fmt |-> "new", lt |-> -1, hl |-> 1 + d.size, bl |-> d.val,
              body |-> SubSeq(s, p + 1 + d.size, p + d.size + d.val), next |-> p + 1 + d.size + d.val,
              partial |-> FALSE, indet |-> FALSE]
      ELSE LET c == PartialChain(s, p + 1, 0, <<>>) IN
        IF ~c.ok THEN Bad
        ELSE [ok |-> TRUE, tag |-> o - 192, fmt |-> "new", lt |-> -1, hl |-> 2, bl |-> c.total, body |-> c.body,
              next |-> c.next, partial |-> TRUE, indet |-> FALSE]
    ELSE
      LET lt == LtOf(o)  w == OldWidth(lt)  tag == TagOf(o) IN
      IF lt = 3 THEN [ok |-> TRUE, tag |-> tag, fmt |-> "old", lt |-> 3, hl |-> 1, bl |-> Len(s) - p,
                      body |-> SubSeq(s, p + 1, Len(s)), next |-> Len(s) + 1, partial |-> FALSE, indet |-> TRUE]
      ELSE IF p + w > Len(s) \/ (w = 4 /\ s[p + 1] >= 128) THEN Bad
      ELSE LET n == BEv(SubSeq(s, p + 1, p + w)) IN
        IF p + w + n > Len(s) THEN Bad
        ELSE [ok |-> TRUE, tag |-> tag, fmt |-> "old", lt |-> lt, hl |-> 1 + w, bl |-> n,
              body |-> SubSeq(s, p + 1 + w, p + w + n), next |-> p + 1 + w + n, partial |-> FALSE, indet |-> FALSE]

\* the header octets PacketAt would expect for a definite-length packet
HeaderNew(tag, n) == <<TagOctetNew(tag)>> \o NewLenEnc(n)
HeaderOld(tag, lt, n) == <<TagOctetOld(tag, lt)>> \o OldLenEnc(n, lt)

\* split a whole octet string into packets; result [ok, pkts] where pkts is a sequence of PacketAt records
RECURSIVE SplitFrom(_, _, _)
SplitFrom(s, p, acc) ==
  IF p > Len(s) THEN [ok |-> TRUE, pkts |-> acc]
  ELSE LET k == PacketAt(s, p) IN
    IF ~k.ok THEN [ok |-> FALSE, pkts |-> acc]
    ELSE SplitFrom(s, k.next, Append(acc, k))
Split(s) == SplitFrom(s, 1, <<>>)
Tags(s) == LET r == Split(s) IN [k \in 1..Len(r.pkts) |-> r.pkts[k].tag]

\* ---- version 4 key packets (5.5.2): where the public fields end -----------------------------------
RECURSIVE SkipMPIs(_, _, _)
SkipMPIs(b, p, n) == IF n = 0 THEN p ELSE LET d == MPIDecAt(b, p) IN IF ~d.ok THEN 0 ELSE SkipMPIs(b, d.next, n - 1)
\* index of the first octet after the public fields of a v4 key body, 0 if malformed / unknown algorithm
PubEnd(b) ==
  IF Len(b) < 6 \/ b[1] # 4 THEN 0
  ELSE LET alg == b[6] IN
    IF alg \in {1, 2, 3} THEN SkipMPIs(b, 7, 2)
    ELSE IF alg = 17 THEN SkipMPIs(b, 7, 4)
    ELSE IF alg \in {16, 20} THEN SkipMPIs(b, 7, 3)
    ELSE IF alg \in {18, 19, 22} THEN
      IF Len(b) < 7 \/ b[7] = 0 \/ b[7] = 255 \/ 7 + b[7] > Len(b) THEN 0
      ELSE LET q == SkipMPIs(b, 8 + b[7], 1) IN
        IF q = 0 THEN 0
        ELSE IF alg # 18 THEN q
        ELSE IF q > Len(b) \/ b[q] = 0 \/ b[q] = 255 \/ q + b[q] > Len(b) THEN 0 ELSE q + 1 + b[q]
    ELSE 0
PubPortion(b) == SubSeq(b, 1, PubEnd(b) - 1)
IsPublicKeyBody(b) == PubEnd(b) = Len(b) + 1
KeyAlg(b) == b[6]
KeyCreated(b) == SubSeq(b, 2, 5)
\* all primary / subkey packet bodies (public portion) of a transferable key, in order
KeyBodies(blob) ==
  LET r == Split(blob)
      ks == SelectSeq(r.pkts, LAMBDA k : k.tag \in {5, 6, 7, 14}) IN
  [j \in 1..Len(ks) |-> PubPortion(ks[j].body)]
=============================================================================
