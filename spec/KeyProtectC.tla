------------------------------ MODULE KeyProtectC ------------------------------
(* C06 at the level of COMPONENTS.  KeyProtect.tla treats a key as one unit; this module gives     *)
(* every component (the primary P, a subkey S that is there from the start, a subkey N that can be  *)
(* added later) its own protection state, because the API lets them differ: a subkey object can be  *)
(* protected on its own, a freshly generated (unprotected) key can be added to a protected key, a   *)
(* key may arrive with only its subkeys protected.  One action per API call; the three places where *)
(* the code as found went wrong are switches that TLC must refute.                                  *)
EXTENDS Naturals, Sequences, FiniteSets
CONSTANTS Pass,               \* passphrases that occur
          WipeUnprotected,    \* TRUE (as found): leaving an unlock block clears the secret of EVERY component
          ProtectLocked,      \* TRUE (as found): protect() of the key re-protects components that are locked on their own
          CheckSelected       \* FALSE (as found): an operation checks the key it was called on, not the component that does the work
Comp == {"P", "S", "N"}
VARIABLES st,                 \* [Comp -> "absent" | "clear" | "locked" | "open"]: not there / unprotected / protected, secret wiped / protected, secret in memory
          pw,                 \* [Comp -> Pass \cup {"-"}]: the passphrase the component's secret is encrypted under
          scopes,             \* the open unlock blocks, innermost last: TRUE = a real one (the key was protected when it was entered)
          lost,               \* components whose secret exists nowhere any more (not in memory, not encrypted)
          last                \* outcome of the last operation: "-" | "ok" | "refused" | "garbage" (done with a wiped secret)
vars == <<st, pw, scopes, lost, last>>
Present(c) == st[c] # "absent"
Usable(c) == st[c] \in {"clear", "open"}
Protected(c) == st[c] \in {"locked", "open"}
Init == /\ st = [c \in Comp |-> IF c = "N" THEN "absent" ELSE "clear"]
        /\ pw = [c \in Comp |-> "-"] /\ scopes = <<>> /\ lost = {} /\ last = "-"
\* ---- PGPKey.protect(p): nothing happens on a locked primary; otherwise every component is encrypted under p and wiped -
\*      except one that is locked on its own: its secret is not at hand
ProtectKey(p) ==
  /\ last' = "-" /\ UNCHANGED scopes
  /\ IF st["P"] = "locked" THEN UNCHANGED <<st, pw, lost>>
     ELSE LET redo == {c \in Comp : Present(c) /\ (st[c] # "locked" \/ ProtectLocked)} IN
          /\ st' = [c \in Comp |-> IF c \in redo THEN "locked" ELSE st[c]]
          /\ pw' = [c \in Comp |-> IF c \in redo THEN p ELSE pw[c]]
          /\ lost' = lost \cup {c \in redo : st[c] = "locked"}          \* (as found) zeros were encrypted
\* ---- subkey.protect(p) on the subkey object alone
ProtectSub(c, p) ==
  /\ c \in {"S", "N"} /\ Present(c) /\ last' = "-" /\ UNCHANGED <<scopes, lost>>
  /\ IF st[c] = "locked" THEN UNCHANGED <<st, pw>>
     ELSE st' = [st EXCEPT ![c] = "locked"] /\ pw' = [pw EXCEPT ![c] = p]
\* ---- with key.unlock(p): an unprotected primary makes the block a no-op (subkeys are not touched); otherwise every protected
\*      component is decrypted with p - if one of them has another passphrase the call raises and all protected ones are locked
Unlock(p) ==
  /\ Len(scopes) < 2 /\ last' = "-" /\ UNCHANGED <<pw, lost>>
  /\ IF ~Protected("P") THEN scopes' = Append(scopes, FALSE) /\ UNCHANGED st
     ELSE IF \A c \in Comp : Protected(c) => pw[c] = p
          THEN st' = [c \in Comp |-> IF Protected(c) THEN "open" ELSE st[c]] /\ scopes' = Append(scopes, TRUE)
          ELSE st' = [c \in Comp |-> IF Protected(c) THEN "locked" ELSE st[c]] /\ UNCHANGED scopes
\* ---- leaving the innermost block: what is protected is wiped; what is not protected stays as it is
ScopeExit ==
  /\ scopes # <<>> /\ last' = "-" /\ UNCHANGED pw
  /\ scopes' = SubSeq(scopes, 1, Len(scopes) - 1)
  /\ IF scopes[Len(scopes)]
     THEN /\ st' = [c \in Comp |-> IF st[c] = "open" THEN "locked" ELSE st[c]]
          /\ lost' = IF WipeUnprotected THEN lost \cup {c \in Comp : st[c] = "clear"} ELSE lost
     ELSE UNCHANGED <<st, lost>>
\* ---- key.add_subkey(freshly generated, unprotected key): the primary has to make the binding signature
AddSub ==
  /\ st["N"] = "absent" /\ UNCHANGED <<pw, scopes, lost>>
  /\ IF Usable("P") /\ "P" \notin lost THEN st' = [st EXCEPT !["N"] = "clear"] /\ last' = "ok" ELSE UNCHANGED st /\ last' = "refused"
\* ---- operations: Certify is done by P; Sign through the key is done by S (the only component with that capability), the call is made
\*      on the key; SignBy(c) is the call made on the subkey object itself
Outcome(caller, worker) ==
  IF ~Usable(caller) THEN "refused"
  ELSE IF Usable(worker) THEN (IF worker \in lost THEN "garbage" ELSE "ok")
  ELSE IF CheckSelected THEN "refused" ELSE "garbage"
Certify == last' = Outcome("P", "P") /\ UNCHANGED <<st, pw, scopes, lost>>
Sign == Present("S") /\ last' = Outcome("P", "S") /\ UNCHANGED <<st, pw, scopes, lost>>
SignBy(c) == c \in {"S", "N"} /\ Present(c) /\ last' = Outcome(c, c) /\ UNCHANGED <<st, pw, scopes, lost>>
Next == \/ \E p \in Pass : ProtectKey(p) \/ Unlock(p) \/ (\E c \in {"S", "N"} : ProtectSub(c, p))
        \/ ScopeExit \/ AddSub \/ Certify \/ Sign \/ (\E c \in {"S", "N"} : SignBy(c))
Spec == Init /\ [][Next]_vars
\* ---- what the property fixes ----------------------------------------------------------------------
TypeOK == /\ \A c \in Comp : st[c] \in {"absent", "clear", "locked", "open"} /\ (Protected(c) <=> pw[c] # "-")
          /\ lost \subseteq Comp /\ last \in {"-", "ok", "refused", "garbage"}
NoSecretLost == lost = {}                                  \* whatever is done, every secret stays recoverable (in memory or under its passphrase)
NeverGarbage == last # "garbage"                           \* an operation succeeds with the real secret or refuses
RelockedOutsideScopes == (\A k \in 1..Len(scopes) : ~scopes[k]) => \A c \in Comp : st[c] # "open"
\* observables per component (what the implementation shows): is_protected, is_unlocked
IsProtected(c) == Protected(c)
IsUnlocked(c) == st[c] # "locked"
=============================================================================
