-------------------------------- MODULE Codec --------------------------------
(* C08: what "the same field values" means for a packet re-serialised by another implementation.  *)
(* Norm(tag, body) maps a body to a normal form in which the encodings RFC 4880 leaves free are    *)
(* erased: MPI leading zero bits / declared bit counts, (unhashed) subpacket length encodings.     *)
(* Everything else must be kept octet for octet.                                                   *)
EXTENDS Subpackets, Encrypt
SubNorm(area) == LET s == SubSplit(area) IN IF ~s.ok THEN <<<<-1>>, area>> ELSE [k \in 1..Len(s.sps) |-> <<s.sps[k].type, IF s.sps[k].critical THEN 1 ELSE 0>> \o s.sps[k].body]
RECURSIVE MpiMags(_, _, _, _)
MpiMags(b, p, n, acc) == IF n = 0 THEN [mags |-> acc, next |-> p] ELSE LET d == MPIDecAt(b, p) IN IF ~d.ok THEN [mags |-> Append(acc, <<-1>>), next |-> Len(b) + 1] ELSE MpiMags(b, d.next, n - 1, Append(acc, d.mag))
NPubMPI(alg) == IF alg \in {1, 2, 3} THEN 2 ELSE IF alg = 17 THEN 4 ELSE IF alg \in {16, 20} THEN 3 ELSE 0
KeyNorm(b) ==
  IF Len(b) < 6 \/ b[1] # 4 \/ PubEnd(b) = 0 THEN <<b>>
  ELSE LET alg == b[6]  pe == PubEnd(b) IN
    IF NPubMPI(alg) > 0 THEN <<SubSeq(b, 1, 6)>> \o MpiMags(b, 7, NPubMPI(alg), <<>>).mags \o <<SubSeq(b, pe, Len(b))>>
    ELSE <<b>>                                    \* ECC: the point is a fixed-size string in an MPI wrapper; kept verbatim
SigNorm(b) ==
  LET f == SigFields(b) IN
  IF ~f.ok THEN <<b>>
  ELSE <<f.hashedRegion>> \o SubNorm(f.unhashedArea) \o <<f.left16>> \o SigValue(f)
PkeskNorm(b) ==
  LET f == PkeskFields(b) IN
  IF ~f.ok THEN <<b>>
  ELSE IF f.pk \in {1, 2} THEN <<SubSeq(b, 1, 10)>> \o MpiMags(f.rest, 1, 1, <<>>).mags
  ELSE <<b>>
Norm(tag, b) == IF tag = 2 THEN SigNorm(b) ELSE IF tag \in {5, 6, 7, 14} THEN KeyNorm(b) ELSE IF tag = 1 THEN PkeskNorm(b) ELSE <<b>>
=============================================================================
