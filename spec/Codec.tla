-------------------------------- MODULE Codec --------------------------------
(* C08: what "the same field values" means for a packet re-serialised by another implementation.  *)
(* Norm(tag, body) maps a body to a normal form in which the encodings RFC 4880 leaves free are    *)
(* erased: MPI leading zero bits / declared bit counts, (unhashed) subpacket length encodings.     *)
(* Everything else must be kept octet for octet.                                                   *)
EXTENDS Subpackets, Encrypt
OpsOK(b) == Len(b) = 13 /\ b[1] = 3
SubNorm(area) == LET s == SubSplit(area) IN IF ~s.ok THEN <<<<-1>>, area>> ELSE [k \in 1..Len(s.sps) |-> <<s.sps[k].type, IF s.sps[k].critical THEN 1 ELSE 0>> \o s.sps[k].body]
RECURSIVE MpiMags(_, _, _, _)
MpiMags(b, p, n, acc) == IF n = 0 THEN [mags |-> acc, next |-> p] ELSE LET d == MPIDecAt(b, p) IN IF ~d.ok THEN [mags |-> Append(acc, <<-1>>), next |-> Len(b) + 1] ELSE MpiMags(b, d.next, n - 1, Append(acc, d.mag))
NPubMPI(alg) == IF alg \in {1, 2, 3} THEN 2 ELSE IF alg = 17 THEN 4 ELSE IF alg \in {16, 20} THEN 3 ELSE 0
KeyNorm(b) ==
  IF Len(b) < 6 \/ b[1] # 4 \/ PubEnd(b) = 0 THEN <<b>>
  ELSE LET alg == b[6]  pe == PubEnd(b) IN
    IF NPubMPI(alg) > 0 THEN <<SubSeq(b, 1, 6)>> \o MpiMags(b, 7, NPubMPI(alg), <<>>).mags \o <<SubSeq(b, pe, Len(b))>>
    ELSE <<b>>                                    \* ECC: the point is a fixed-size string in an MPI wrapper; kept verbatim
SigNorm(b) ==
  LET f == SigFields(b) IN
  IF ~f.ok THEN <<b>>
  ELSE <<f.hashedRegion>> \o SubNorm(f.unhashedArea) \o <<f.left16>> \o SigValue(f)
PkeskNorm(b) ==
  LET f == PkeskFields(b) IN
  IF ~f.ok THEN <<b>>
  ELSE IF f.pk \in {1, 2} THEN <<SubSeq(b, 1, 10)>> \o MpiMags(f.rest, 1, 1, <<>>).mags
  ELSE <<b>>

\* ---- body grammars (RFC 4880 section 5): is this body a well-formed packet of its tag? -----------------------------
\* version 3 signature (5.2.2): 03, 05, type, time(4), key id(8), pk, hash, left16, MPIs
Sig3OK(b) == Len(b) >= 19 /\ b[1] = 3 /\ b[2] = 5 /\
             LET r == MPISeqFrom(b, 20, NSigMPI(b[16]), <<>>) IN NSigMPI(b[16]) = 0 \/ (r.ok /\ r.next = Len(b) + 1)
\* secret part of a v4 key after the public fields (5.5.3)
SecretOK(b) ==
  LET p == PubEnd(b) IN
  IF p = 0 \/ p > Len(b) THEN FALSE
  ELSE LET u == b[p] IN
    IF u = 0 THEN Len(b) >= p + 2                                             \* cleartext MPIs then a two-octet checksum
    ELSE IF u \in {254, 255} THEN
      Len(b) >= p + 3 /\
      (IF b[p + 2] = 101 THEN Len(b) >= p + 7 /\ SubSeq(b, p + 3, p + 6) = <<0, 71, 78, 85>>      \* GNU extension: 00 "GNU" n
       ELSE b[p + 2] \in {0, 1, 3} /\ BlockLen(b[p + 1]) > 0 /\
            Len(b) > p + 1 + (IF b[p + 2] = 0 THEN 2 ELSE IF b[p + 2] = 1 THEN 10 ELSE 11) + BlockLen(b[p + 1]))
    ELSE BlockLen(u) > 0 /\ Len(b) > p + BlockLen(u)                           \* legacy: cipher id directly, IV, data
UAttrOK(b) == LET s == SubSplit(b) IN s.ok /\ Len(s.sps) >= 1
BodyWF(tag, b) ==
  CASE tag = 1 -> LET f == PkeskFields(b) IN f.ok /\ (f.pk \in {1, 2} => PkeskRsaOK(f)) /\ (f.pk = 18 => PkeskEcdh(f).ok)
    [] tag = 2 -> IF Len(b) > 0 /\ b[1] = 4 THEN SigWF(b) ELSE IF Len(b) > 0 /\ b[1] = 3 THEN Sig3OK(b) ELSE Len(b) > 0
    [] tag = 3 -> SkeskFields(b).ok
    [] tag = 4 -> OpsOK(b)
    [] tag \in {6, 14} -> IF Len(b) > 0 /\ b[1] = 4 THEN IsPublicKeyBody(b) ELSE Len(b) > 0
    [] tag \in {5, 7} -> IF Len(b) > 0 /\ b[1] = 4 THEN SecretOK(b) ELSE Len(b) > 0
    [] tag = 8 -> Len(b) >= 1 /\ b[1] \in {0, 1, 2, 3}
    [] tag = 9 -> Len(b) >= 1
    [] tag = 10 -> b = <<80, 71, 80>>
    [] tag = 11 -> Len(b) >= 6 /\ 6 + b[2] <= Len(b)
    [] tag = 13 -> TRUE
    [] tag = 17 -> UAttrOK(b)
    [] tag = 18 -> Len(b) >= 1 /\ b[1] = 1
    [] tag = 19 -> Len(b) = 20
    [] OTHER -> TRUE
\* one-pass signature (5.4): the last octet is a flag, zero = "another one-pass packet follows"; any non-zero value means the same thing
OpsNorm(b) == IF Len(b) = 13 /\ b[1] = 3 THEN <<SubSeq(b, 1, 12) \o <<IF b[13] = 0 THEN 0 ELSE 1>> >> ELSE <<b>>
Norm(tag, b) == IF tag = 2 THEN SigNorm(b) ELSE IF tag \in {5, 6, 7, 14} THEN KeyNorm(b) ELSE IF tag = 1 THEN PkeskNorm(b)
                ELSE IF tag = 4 THEN OpsNorm(b) ELSE <<b>>
=============================================================================
