-------------------------------- MODULE Wire --------------------------------
(* RFC 4880 primitive wire codecs: packet body lengths (section 4.2), signature / user-attribute *)
(* subpacket lengths (5.2.3.1), multiprecision integers (3.2), time fields (3.5), the coded     *)
(* S2K octet count (3.7.1.3).  Values that may reach 2^31 are quads (see Octets).               *)
EXTENDS Octets

\* ---------------------------------------------------------------- new-format lengths (4.2.2)
NewLenEnc(n) ==                                   \* shortest encoding of 0 <= n < 2^31
  IF n < 192 THEN <<n>>
  ELSE IF n < 8384 THEN <<((n - 192) \div 256) + 192, (n - 192) % 256>>
  ELSE <<255>> \o BE(n, 4)
NewLenEncQ(q) == IF QuadSmall(q) THEN NewLenEnc(QuadVal(q)) ELSE <<255>> \o q

\* decode the length field starting at s[p]; result: kind, value (int) or quad, size of the field
NewLenDecAt(s, p) ==
  IF p > Len(s) THEN [kind |-> "short", size |-> 0, val |-> 0, quad |-> <<>>]
  ELSE LET o == s[p] IN
    IF o < 192 THEN [kind |-> "def", size |-> 1, val |-> o, quad |-> Quad(o)]
    ELSE IF o < 224 THEN
      IF p + 1 > Len(s) THEN [kind |-> "short", size |-> 0, val |-> 0, quad |-> <<>>]
      ELSE LET v == (o - 192) * 256 + s[p + 1] + 192 IN [kind |-> "def", size |-> 2, val |-> v, quad |-> Quad(v)]
    ELSE IF o < 255 THEN [kind |-> "partial", size |-> 1, val |-> 2 ^ (o % 32), quad |-> Quad(2 ^ (o % 32))]
    ELSE IF p + 4 > Len(s) THEN [kind |-> "short", size |-> 0, val |-> 0, quad |-> <<>>]
    ELSE LET q == SubSeq(s, p + 1, p + 4) IN
         [kind |-> "def", size |-> 5, val |-> IF QuadSmall(q) THEN QuadVal(q) ELSE -1, quad |-> q]

\* a chain of partial chunks followed by a definite one, starting with the length field at s[p].
\* result: ok, total body length, body octets (chunks concatenated), next = index after the packet
RECURSIVE PartialChain(_, _, _, _)
PartialChain(s, p, accLen, accBody) ==
  LET d == NewLenDecAt(s, p) IN
  IF d.kind = "short" \/ d.val < 0 THEN [ok |-> FALSE, total |-> 0, body |-> <<>>, next |-> 0]
  ELSE LET from == p + d.size
           to == from + d.val - 1 IN
    IF to > Len(s) THEN [ok |-> FALSE, total |-> 0, body |-> <<>>, next |-> 0]
    ELSE IF d.kind = "def" THEN [ok |-> TRUE, total |-> accLen + d.val, body |-> accBody \o SubSeq(s, from, to), next |-> to + 1]
    ELSE PartialChain(s, to + 1, accLen + d.val, accBody \o SubSeq(s, from, to))

\* ---------------------------------------------------------------- old-format lengths (4.2.1)
OldWidth(lt) == CASE lt = 0 -> 1 [] lt = 1 -> 2 [] lt = 2 -> 4 [] lt = 3 -> 0
OldLenEnc(n, lt) == BE(n, OldWidth(lt))
OldLenEncQ(q, lt) == IF lt = 2 THEN q ELSE BE(QuadVal(q), OldWidth(lt))
OldFitsQ(q, lt) == IF lt = 2 THEN TRUE ELSE IF lt = 3 THEN FALSE ELSE QuadSmall(q) /\ QuadVal(q) < 256 ^ OldWidth(lt)
OldLenDec(s, lt) == BEv(SubSeq(s, 1, OldWidth(lt)))          \* caller: lt # 3, value < 2^31
OldLenDecQ(s, lt) == LET w == OldWidth(lt) IN Zeros(4 - w) \o SubSeq(s, 1, w)
\* narrowest old-format length type that can carry n
OldNarrowest(n) == IF n < 256 THEN 0 ELSE IF n < 65536 THEN 1 ELSE 2

\* ---------------------------------------------------------------- packet tag octet (4.2)
TagOctetNew(tag) == 192 + tag
TagOctetOld(tag, lt) == 128 + tag * 4 + lt
IsNewFmt(o) == o >= 192
TagOf(o) == IF o >= 192 THEN o - 192 ELSE (o - 128) \div 4
LtOf(o) == o % 4

\* ---------------------------------------------------------------- subpacket lengths (5.2.3.1)
\* NOT the packet rule: 192..254 as first octet always introduces a two-octet length.
SubLenDecAt(s, p) ==
  IF p > Len(s) THEN [ok |-> FALSE, size |-> 0, val |-> 0]
  ELSE LET o == s[p] IN
    IF o < 192 THEN [ok |-> TRUE, size |-> 1, val |-> o]
    ELSE IF o < 255 THEN
      IF p + 1 > Len(s) THEN [ok |-> FALSE, size |-> 0, val |-> 0]
      ELSE [ok |-> TRUE, size |-> 2, val |-> (o - 192) * 256 + s[p + 1] + 192]
    ELSE IF p + 4 > Len(s) \/ s[p + 1] >= 128 THEN [ok |-> FALSE, size |-> 0, val |-> 0]
    ELSE [ok |-> TRUE, size |-> 5, val |-> BEv(SubSeq(s, p + 1, p + 4))]
SubLenEnc(n) ==
  IF n < 192 THEN <<n>>
  ELSE IF n < 16320 THEN <<((n - 192) \div 256) + 192, (n - 192) % 256>>
  ELSE <<255>> \o BE(n, 4)
\* any legal (possibly non-minimal) encoding of n
SubLenEncs(n) == {SubLenEnc(n), <<255>> \o BE(n, 4)}
                 \cup (IF n >= 192 /\ n < 16320 THEN {<<((n - 192) \div 256) + 192, (n - 192) % 256>>} ELSE {})

\* ---------------------------------------------------------------- MPI (3.2) over magnitudes
\* mag: big-endian octet string without leading zero octets (<<>> is zero)
MPIBits(mag) == IF Len(mag) = 0 THEN 0 ELSE 8 * (Len(mag) - 1) + BitLen8(mag[1])
MPIEnc(mag) == BE(MPIBits(mag), 2) \o mag
\* decode at s[p]: the declared bit count, the value octets (leading zeros stripped), next index
MPIDecAt(s, p) ==
  IF p + 1 > Len(s) THEN [ok |-> FALSE, bits |-> 0, mag |-> <<>>, raw |-> <<>>, next |-> 0]
  ELSE LET bits == s[p] * 256 + s[p + 1]
           nb == (bits + 7) \div 8 IN
    IF p + 1 + nb > Len(s) THEN [ok |-> FALSE, bits |-> bits, mag |-> <<>>, raw |-> <<>>, next |-> 0]
    ELSE [ok |-> TRUE, bits |-> bits, mag |-> StripZ(SubSeq(s, p + 2, p + 1 + nb)),
          raw |-> SubSeq(s, p, p + 1 + nb), next |-> p + 2 + nb]
MPICanonical(s, p) == LET d == MPIDecAt(s, p) IN d.ok /\ d.raw = MPIEnc(d.mag)

\* ---------------------------------------------------------------- time (3.5) and S2K count
TimeEncQ(q) == q                                   \* seconds since the epoch, unsigned, 4 octets
S2KCount(c) == (16 + (c % 16)) * (2 ^ ((c \div 16) + 6))
=============================================================================
