------------------------------ MODULE Cleartext ------------------------------
(* RFC 4880 section 7: cleartext signature framework.  Text = sequence of code points.           *)
EXTENDS Armor
SignedBegin == BeginPfx \o SignedMsgLabel \o Dashes                    \* "-----BEGIN PGP SIGNED MESSAGE-----"
SigBegin == BeginPfx \o LabelOf("signature") \o Dashes                 \* "-----BEGIN PGP SIGNATURE-----"
HashKey == <<72, 97, 115, 104>>                                        \* "Hash"
\* split at LF only, keep CRs (exact text lines)
RawLines(t) ==
  LET idx == SelectSeq([k \in 1..Len(t) |-> k], LAMBDA k : t[k] = 10)
      n == Len(idx)
      start(j) == IF j = 1 THEN 1 ELSE idx[j - 1] + 1
      stop(j) == IF j <= n THEN idx[j] - 1 ELSE Len(t)
  IN [j \in 1..(n + 1) |-> SubSeq(t, start(j), stop(j))]
JoinWith(ls, sep) == IF Len(ls) = 0 THEN <<>> ELSE FoldLeft(LAMBDA acc, k : acc \o sep \o ls[k], ls[1], [k \in 1..(Len(ls) - 1) |-> k + 1])
\* ---- dash escaping (7.1) ----
EscLine(l) == IF Len(l) > 0 /\ l[1] = 45 THEN <<45, 32>> \o l ELSE l
UnescLine(l) == IF Len(l) >= 2 /\ l[1] = 45 /\ l[2] = 32 THEN SubSeq(l, 3, Len(l)) ELSE l
DashEscape(t) == JoinWith([k \in 1..Len(RawLines(t)) |-> EscLine(RawLines(t)[k])], <<10>>)
DashUnescape(t) == JoinWith([k \in 1..Len(RawLines(t)) |-> UnescLine(RawLines(t)[k])], <<10>>)
Escaped(l) == ~(Len(l) > 0 /\ l[1] = 45) \/ (Len(l) >= 2 /\ l[2] = 32)
\* ---- framing ----
SplitComma(s) ==
  LET idx == SelectSeq([k \in 1..Len(s) |-> k], LAMBDA k : s[k] = 44)
      n == Len(idx)
      start(j) == IF j = 1 THEN 1 ELSE idx[j - 1] + 1
      stop(j) == IF j <= n THEN idx[j] - 1 ELSE Len(s)
  IN {SubSeq(s, start(j), stop(j)) : j \in 1..(n + 1)}
Frame(text, hashline, sigarmor) ==
  SignedBegin \o <<10>> \o (IF hashline = <<>> THEN <<>> ELSE HashKey \o <<58, 32>> \o hashline \o <<10>>) \o <<10>>
  \o DashEscape(text) \o <<10>> \o sigarmor
\* Unframe: lines are taken with a trailing CR removed (transport may have converted line endings)
Unframe(t) ==
  LET ls == Lines(t)
      bs == {j \in 1..Len(ls) : ls[j] = SignedBegin} IN
  IF bs = {} THEN [ok |-> FALSE, why |-> "no SIGNED MESSAGE line"]
  ELSE LET b == FirstIdx(bs)
           blanks == {j \in (b + 1)..Len(ls) : IsBlank(ls[j])} IN
    IF blanks = {} THEN [ok |-> FALSE, why |-> "no blank line"]
    ELSE LET bl == FirstIdx(blanks)
             hdr == SubSeq(ls, b + 1, bl - 1)
             sgs == {j \in (bl + 1)..Len(ls) : ls[j] = SigBegin} IN
      IF sgs = {} THEN [ok |-> FALSE, why |-> "no SIGNATURE block"]
      ELSE LET sg == FirstIdx(sgs)
               body == SubSeq(ls, bl + 1, sg - 1)
               d == DearmorFrom(t, sg) IN
        [ok |-> TRUE, why |-> "ok",
         hashes |-> UNION {IF ColonAt(hdr[k]) > 0 /\ HeaderPair(hdr[k])[1] = HashKey THEN SplitComma(HeaderPair(hdr[k])[2]) ELSE {} : k \in 1..Len(hdr)},
         hdrok |-> \A k \in 1..Len(hdr) : ColonAt(hdr[k]) > 0 /\ HeaderPair(hdr[k])[1] = HashKey,
         framedlines |-> body,
         lines |-> [k \in 1..Len(body) |-> UnescLine(body[k])],
         allescaped |-> \A k \in 1..Len(body) : Escaped(body[k]),
         armor |-> d]
\* ---- canonical signed text (7.1): CR LF line endings, trailing SP / TAB of every line removed,
\*      the line ending that precedes the signature block not included
RECURSIVE RStrip(_)
RStrip(l) == IF Len(l) > 0 /\ l[Len(l)] \in {32, 9} THEN RStrip(SubSeq(l, 1, Len(l) - 1)) ELSE l
CanonLines(ls) == JoinWith([k \in 1..Len(ls) |-> RStrip(ls[k])], <<13, 10>>)
CanonCleartext(t) == CanonLines(Lines(t))
=============================================================================
