-------------------------------- MODULE Tamper --------------------------------
(* C04, symbolic level.  Two messages A and B of N cipher blocks each were encrypted under the     *)
(* same session key (block N carries the modification detection code).  The attacker rearranges,  *)
(* replaces and cuts ciphertext blocks; CFB decryption recovers the original content of a block    *)
(* only if the block and its predecessor are both in their original places.  The decrypt           *)
(* algorithm has its checks as flags so that each can be switched off (spec mutation).             *)
EXTENDS Naturals, Sequences, FiniteSets, TLC
CONSTANTS N, CheckMDC, CheckPrefix, CheckKey,
          AcceptSED        \* TRUE: a container without integrity protection (tag 9) is decrypted like any other (the code as it is: open finding 55)
Src == {"A", "B"}
Blk == [src : Src \cup {"X"}, pos : 0..N]          \* X = garbage the attacker made up
VARIABLES ct, key, result, steps,
          container        \* "seipd" (tag 18, ends with the MDC) or "sed" (tag 9: the same ciphertext blocks re-packed, no MDC is looked for)
vars == <<ct, key, result, steps, container>>
Orig(s) == [i \in 1..N |-> [src |-> s, pos |-> i]]
Init == ct = Orig("A") /\ key = "right" /\ result = "none" /\ steps = 0 /\ container = "seipd"
Garbage == [src |-> "X", pos |-> 0]
\* ---- attacker
Flip(i) == i \in 1..Len(ct) /\ ct' = [ct EXCEPT ![i] = Garbage]
Truncate(n) == n \in 0..(Len(ct) - 1) /\ ct' = SubSeq(ct, 1, n)
Extend == Len(ct) < N + 1 /\ ct' = Append(ct, Garbage)
Swap(i, j) == i \in 1..Len(ct) /\ j \in 1..Len(ct) /\ i < j /\ ct' = [ct EXCEPT ![i] = ct[j], ![j] = ct[i]]
Splice(at) == at \in 1..N /\ ct' = [i \in 1..N |-> IF i < at THEN Orig("A")[i] ELSE Orig("B")[i]]
ReplaceAll == ct' = Orig("B")
Attack == /\ result = "none" /\ steps < 2
          /\ \/ \E i \in 1..N : Flip(i)
             \/ \E n \in 0..N : Truncate(n)
             \/ Extend
             \/ \E i, j \in 1..N : Swap(i, j)
             \/ \E at \in 1..N : Splice(at)
             \/ ReplaceAll
          /\ steps' = steps + 1 /\ UNCHANGED <<key, result, container>>
\* the attacker re-packs the ciphertext blocks as a packet without integrity protection (the session-key packets stay as they are)
Downgrade == /\ result = "none" /\ steps < 2 /\ container = "seipd"
             /\ container' = "sed" /\ steps' = steps + 1 /\ UNCHANGED <<ct, key, result>>
WrongKey == result = "none" /\ key = "right" /\ key' = "wrong" /\ UNCHANGED <<ct, result, steps, container>>
\* ---- decryption (CFB): content of plaintext block i
Plain(i) == IF key = "wrong" THEN <<"junk", 0>>
            ELSE IF ct[i].src = "X" THEN <<"junk", 0>>
            ELSE IF ct[i].pos = 1 THEN (IF i = 1 THEN <<ct[i].src, 1>> ELSE <<"junk", 0>>)
            ELSE IF i > 1 /\ ct[i - 1].src = ct[i].src /\ ct[i - 1].pos + 1 = ct[i].pos THEN <<ct[i].src, ct[i].pos>> ELSE <<"junk", 0>>
Whole(s) == Len(ct) = N /\ \A i \in 1..N : Plain(i) = <<s, i>>
MDCPasses == \E s \in Src : Whole(s)                   \* an ideal hash: the code matches only an untouched message
PrefixPasses == Len(ct) >= 1 /\ Plain(1) # <<"junk", 0>>
KeyPasses == key = "right"                             \* session-key checksum / unwrap integrity
Decrypt == /\ result = "none"
           /\ result' = IF (CheckKey /\ ~KeyPasses) \/ (CheckPrefix /\ ~PrefixPasses) \/ (CheckMDC /\ container = "seipd" /\ ~MDCPasses) \/ Len(ct) = 0
                           \/ (container = "sed" /\ ~AcceptSED)
                        THEN "raise"
                        ELSE IF \E s \in Src : Whole(s) THEN (CHOOSE s \in Src : Whole(s)) ELSE "other-plaintext"
           /\ UNCHANGED <<ct, key, steps, container>>
Next == Attack \/ Downgrade \/ WrongKey \/ Decrypt
Spec == Init /\ [][Next]_vars
\* ---- property
Integrity == result \in {"none", "raise", "A", "B"}
WrongKeyRaises == (key = "wrong" /\ result # "none") => result = "raise"
UntouchedDecrypts == (result # "none" /\ ct = Orig("A") /\ container = "seipd" /\ key = "right") => result = "A"
=============================================================================
