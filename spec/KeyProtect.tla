------------------------------ MODULE KeyProtect ------------------------------
(* C06 / C07 / C18: life cycle of a private key with respect to passphrase protection.            *)
(* A key (primary and subkeys together) is in one of three protection states.  Every observable   *)
(* of the property is a function of that state.                                                    *)
EXTENDS Naturals, Sequences, FiniteSets
CONSTANTS Pass                     \* passphrases that occur
VARIABLES prot,                    \* "none" | "locked" | "unlocked"
          pw,                      \* passphrase the secret material is encrypted under ("-" if none)
          depth                    \* number of unlock scopes currently open
vars == <<prot, pw, depth>>
Init == prot = "none" /\ pw = "-" /\ depth = 0
\* protect: allowed on an unprotected or an unlocked key; the key is locked straight away (the secret
\* integers are wiped once they are encrypted), whatever scopes are open
Protect(p) == /\ prot \in {"none", "unlocked"}
              /\ prot' = "locked" /\ pw' = p /\ UNCHANGED depth
ProtectRefused(p) == prot = "locked" /\ UNCHANGED vars          \* protecting a locked key changes nothing
UnlockOK(p) == /\ prot \in {"locked", "unlocked"} /\ p = pw
               /\ prot' = "unlocked" /\ depth' = depth + 1 /\ UNCHANGED pw
UnlockWrong(p) == /\ prot \in {"locked", "unlocked"} /\ p # pw
                  /\ prot' = "locked" /\ UNCHANGED <<pw, depth>>      \* raises; everything is wiped
UnlockNoop(p) == prot = "none" /\ depth' = depth + 1 /\ UNCHANGED <<prot, pw>>   \* unprotected key: the scope does nothing
ScopeExit == /\ depth > 0
             /\ depth' = depth - 1
             /\ prot' = IF prot = "none" THEN "none" ELSE "locked"   \* normal exit or exception: locked again
             /\ UNCHANGED pw
Use == UNCHANGED vars              \* sign / decrypt / export / derive-public / copy / import-of-export: no state change
Next == \/ \E p \in Pass : Protect(p) \/ ProtectRefused(p) \/ UnlockOK(p) \/ UnlockWrong(p) \/ UnlockNoop(p)
        \/ ScopeExit \/ Use
Spec == Init /\ [][Next]_vars
\* ---- observables the property fixes --------------------------------------------------------------
CanOperate == prot \in {"none", "unlocked"}          \* private operations succeed exactly then; otherwise they refuse
SecretsInMemory == prot \in {"none", "unlocked"}     \* the secret integers are present exactly then
ExportHidesSecrets == prot # "none"                  \* then the export carries no secret integer in the clear
IsProtected == prot # "none"
IsUnlocked == prot # "locked"
TypeOK == prot \in {"none", "locked", "unlocked"} /\ depth \in Nat /\ (prot = "none" <=> pw = "-")
\* a key that is protected and has no open scope is locked (the "wiped after use" clause)
RelockedOutsideScopes == (depth = 0 /\ prot # "none") => prot = "locked"
=============================================================================
