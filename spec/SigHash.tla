------------------------------- MODULE SigHash -------------------------------
(* RFC 4880 section 5.2.4: the octets a version 4 signature is computed over.                    *)
EXTENDS Subpackets

\* what a v4 signature appends after the subject: its own hashed region, then 04 FF and the
\* four-octet length of that region
Trailer(f) == f.hashedRegion \o <<4, 255>> \o BE(Len(f.hashedRegion), 4)
KeyHash(kb) == <<153>> \o BE(Len(kb), 2) \o kb                       \* 0x99, two-octet length, public key packet body
UidHash(isuid, u) == (IF isuid THEN <<180>> ELSE <<209>>) \o BE(Len(u), 4) \o u      \* 0xB4 / 0xD1, four-octet length

\* text canonicalisation for type 0x01 (5.2.1): every line ending becomes CR LF.
\* (A bare LF becomes CR LF; CR LF stays; other octets are untouched.)
CanonText(t) ==
  LET isBareLF(k) == t[k] = 10 /\ (k = 1 \/ t[k - 1] # 13) IN
  FoldLeft(LAMBDA acc, k : IF isBareLF(k) THEN acc \o <<13, 10>> ELSE Append(acc, t[k]), <<>>, [k \in 1..Len(t) |-> k])

CertTypes == {16, 17, 18, 19, 48}            \* 0x10..0x13 certifications, 0x30 certification revocation
\* s: [doc, primary, sub, uid, isuid]  (only the components the type needs are read)
SubjectOctets(ty, s) ==
  IF ty = 0 THEN s.doc
  ELSE IF ty = 1 THEN CanonText(s.doc)
  ELSE IF ty \in {2, 64} THEN <<>>                                    \* standalone, timestamp
  ELSE IF ty \in CertTypes \/ ty = 22 THEN KeyHash(s.primary) \o UidHash(s.isuid, s.uid)   \* 0x16 attestation hashes like a certification
  ELSE IF ty \in {24, 25, 40} THEN KeyHash(s.primary) \o KeyHash(s.sub)   \* subkey binding, primary-key binding, subkey revocation
  ELSE IF ty \in {31, 32} THEN KeyHash(s.primary)                     \* direct-key, key revocation
  ELSE <<"unsupported-type", ty>>
\* the complete hash input of signature body b over subject s
HashInputOf(f, s) == SubjectOctets(f.type, s) \o Trailer(f)
HashInput(b, s) == HashInputOf(SigFields(b), s)
=============================================================================
