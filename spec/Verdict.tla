------------------------------ MODULE Verdict ------------------------------
(* C17: coherence of verification verdicts.  An issue set is a subset of Issue; a verification   *)
(* result is a sequence of entries, one per examined signature, each carrying an issue set.      *)
EXTENDS Naturals, Sequences, FiniteSets
Issue == {"WrongSig", "Expired", "Disabled", "Revoked", "Invalid", "BrokenAsymmetricFunc",
          "HashFunctionNotCollisionResistant", "HashFunctionNotSecondPreimageResistant",
          "AsymmetricKeyLengthIsTooShort", "InsecureCurve", "NoSelfSignature"}
\* bit positions used by pgpy.constants.SecurityIssues (for marshalling only)
BitOf(x) == CASE x = "WrongSig" -> 0 [] x = "Expired" -> 1 [] x = "Disabled" -> 2 [] x = "Revoked" -> 3
              [] x = "Invalid" -> 4 [] x = "BrokenAsymmetricFunc" -> 5 [] x = "HashFunctionNotCollisionResistant" -> 6
              [] x = "HashFunctionNotSecondPreimageResistant" -> 7 [] x = "AsymmetricKeyLengthIsTooShort" -> 8
              [] x = "InsecureCurve" -> 9 [] x = "NoSelfSignature" -> 10
FromBits(n) == {x \in Issue : (n \div (2 ^ BitOf(x))) % 2 = 1}
Disq == {"WrongSig", "Expired", "Disabled", "Invalid", "NoSelfSignature"}
Advisory == Issue \ Disq
\* ---- the property ------------------------------------------------------------------------
Fails(S) == S \cap Disq # {}
Bad(e) == Fails(e)
GoodIdx(r) == {k \in 1..Len(r) : ~Bad(r[k])}
BadIdx(r) == {k \in 1..Len(r) : Bad(r[k])}
Truthy(r) == BadIdx(r) = {}
\* ---- what the library as found did: membership of the whole value in the set of single flags
FailsExact(S) == \E d \in Disq : S = {d}
\* ---- algorithm spec of PGPKey.verify for one (signature, subject) pair -------------------
\* keyIssues: issues of the verifying key (management | primitives); correct: does the primitive accept
EntryFor(keyIssues, correct, failsOp(_)) ==
  IF keyIssues # {} /\ failsOp(keyIssues) THEN keyIssues
  ELSE IF correct THEN {} ELSE {"WrongSig"}
=============================================================================
