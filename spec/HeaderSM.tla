------------------------------ MODULE HeaderSM ------------------------------
(* Life cycle of one packet header: parsed in some format, body length changed in place, then  *)
(* emitted.  Algorithm spec of PGPy's Header (pgpy/types.py, pgpy/packet/types.py): the new     *)
(* format recomputes the length-of-length from the value; the old format keeps the length type  *)
(* it was parsed with and - when Widen - widens it if the value no longer fits.                 *)
(* Property (C09): what is emitted decodes to (tag, current body length); a new-format header   *)
(* uses the shortest encoding; no length field is narrower than the value needs.                *)
EXTENDS Packets, TLC
CONSTANTS Lens,        \* body lengths to move between
          Tag,         \* packet tag used
          Widen        \* TRUE: old-format length type is widened on demand (the repaired code)
VARIABLES phase, fmt, lt, blen, out
vars == <<phase, fmt, lt, blen, out>>

Init == phase = "fresh" /\ fmt = "new" /\ lt = 0 /\ blen = 0 /\ out = <<>>

ParseNew(n) == /\ phase = "fresh"
               /\ phase' = "parsed" /\ fmt' = "new" /\ lt' = 0 /\ blen' = n /\ out' = <<>>
ParseOld(t, n) == /\ phase = "fresh" /\ (t = 3 \/ Fits(n, OldWidth(t)))
                  /\ phase' = "parsed" /\ fmt' = "old" /\ lt' = t /\ blen' = n /\ out' = <<>>
SetBody(n) == /\ phase \in {"parsed", "emitted"} /\ n # blen
              /\ phase' = "dirty" /\ blen' = n /\ UNCHANGED <<fmt, lt, out>>
EmitLt == IF fmt = "old" /\ lt # 3 /\ Widen /\ ~Fits(blen, OldWidth(lt)) THEN OldNarrowest(blen) ELSE lt
Emit == /\ phase \in {"parsed", "dirty"}
        /\ phase' = "emitted" /\ lt' = EmitLt
        /\ out' = IF fmt = "new" THEN HeaderNew(Tag, blen) ELSE HeaderOld(Tag, EmitLt, blen)
        /\ UNCHANGED <<fmt, blen>>
Next == \/ \E n \in Lens : ParseNew(n) \/ SetBody(n) \/ \E t \in 0..3 : ParseOld(t, n)
        \/ Emit
Spec == Init /\ [][Next]_vars

\* ---- property ----
Body(n) == [k \in 1..n |-> 0]
EmitOK ==
  phase = "emitted" =>
    LET pk == PacketAt(out \o Body(blen), 1) IN
      /\ pk.ok /\ pk.tag = Tag /\ pk.bl = blen /\ pk.next = Len(out) + blen + 1
      /\ (fmt = "new" => Len(out) = 1 + Len(NewLenEnc(blen)))
      /\ (fmt = "old" /\ ~pk.indet => Fits(blen, OldWidth(pk.lt)) /\ Len(out) = 1 + OldWidth(pk.lt))
=============================================================================
